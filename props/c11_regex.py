"""C11 -- regular-expression machines accept exactly the expression's language (E-input, bounded exhaustive).

Subject: the real cpppo.regex / cpppo.regex_bytes (state.from_regex translation of the greenery fsm, dfa run loop,
state.__getitem__ lookup, state_input storage) and the cpppo.string / cpppo.string_bytes wrappers, run the documented way
(`with machine: for m,s in machine.run( source=..., data=... )`), whole-input and chunked through cpppo.chainable.

Oracle: Brzozowski derivatives over a tiny private AST (nullable / derivative / emptiness of the residual language);
written from the property statement only and sharing no code with cpppo or greenery.  The oracle itself is
cross-validated against Python's `re.fullmatch` for every enumerated (expression, string) pair; a disagreement between
the two references is a HARNESS error (exit 2), never a violation.

From the statement, for expression E with language L and input w:
  p        = the longest prefix of w whose residual language is non-empty (it "can still be extended to a sentence")
  consumed = exactly p (source.sent == |p|, data[<context>.input] == p, the next symbol is left in the source)
  terminal <=> |p| >= 1 and p in L;    not terminal => cpppo.NonTerminal or a non-terminal end, nothing absorbed beyond p
For bytes machines with a multi-byte symbol the prefix is taken over BYTES of the UTF-8 encoding (the lenient reading: the
first j bytes of a symbol (j = 1, 2, ...) may be consumed as long as SOME symbol of the stated input universe starting with
those j bytes can continue a sentence; a stop inside a symbol is never accepting).
"""
import itertools
import re

ID = "C11"
LEVEL = "exploration"
RULE = ("every expression AST up to a node-count bound over atoms {a, b, [ab], [^a], .} and operators concatenation, "
        "alternation (grouping printed where precedence needs it), *, +, ?, {m,n} with m<=n<=2, de-duplicated by printed "
        "form, x every input string over {a,b,c} up to the length bound, for cpppo.regex (str symbols) and "
        "cpppo.regex_bytes (and the string/string_bytes wrappers for small expressions); plus the multi-byte family: "
        "ASTs over atoms {e-acute, ., [^e-acute], a} for regex_bytes x every string over symbols {e-acute, e-circumflex, a} "
        "(UTF-8 encoded; shapes whose construction raises the documented AssertionError are counted 'unsupported'), and the "
        "same shapes with the 3-byte literal U+20AC (e2 82 ac) x every string over {U+20AC, U+20AD (e2 82 ad, shares two "
        "bytes), U+2030 (e2 80 b0, shares the lead byte), a}; "
        "thorough adds every 2-way chunking (cut 0..n-1) and symbol-at-a-time feeding through cpppo.chainable.  "
        "evaluation = one run of a real machine on one (expression, machine kind, input, chunking); non-trivial = the "
        "input is non-empty and the reference prefix p is non-empty (the machine consumed something and had to decide "
        "where to stop); each is produced exactly once by the enumeration")
BOUNDS = {
    "quick": "AST size <= 4 (4175 expressions) x 364 strings (len <= 5 over {a,b,c}) x {regex, regex_bytes}, whole input; "
             "string/string_bytes wrappers for size <= 2; multi-byte family size <= 3 (170 expressions, 6 of them unsupported shapes) x 121 strings (len <= 4 over 3 symbols), each also as a machine over bytes under a Latin-1 encoder (one byte per symbol) built after the UTF-8 one; "
             "3-byte family size <= 3 (170 expressions, 6 unsupported) x 341 strings (len <= 4 over 4 symbols); "
             "chunked feeding for size <= 2 only",
    "thorough": "AST size <= 5 (44605 expressions) x 364 strings x {regex, regex_bytes} whole input; every 2-way chunking "
                "and symbol-wise feeding for all expressions of size <= 4; wrappers for size <= 3; multi-byte family size <= 4 "
                "(1770 expressions, 156 of them unsupported shapes) x 364 strings (len <= 5), whole, every 2-way byte chunking and byte-wise; "
                "3-byte family size <= 4 (1770 expressions) x 341 strings (len <= 4), whole, every 2-way byte chunking and byte-wise",
}
ASSUMPTIONS = [
    "machines are built with terminal=True, greedy (the default) and a context, as README 'Detect if regular expression satisfied' documents",
    "input symbols come from the stated universes: {a,b,c} (c never occurs in an expression) and, for the multi-byte family, "
    "{U+00E9 (c3 a9), U+00EA (c3 aa, same lead byte), a} resp. {U+20AC (e2 82 ac), U+20AD (e2 82 ad), U+2030 (e2 80 b0), a}; "
    "'.' and negated classes range over that universe (every symbol sharing a lead byte has the same encoded length, as in UTF-8)",
    "end of input is signalled the documented way: the source simply has no further symbol (no-progress detection ends the run)",
    "a machine object is reused for all inputs of one expression (documented usage); any mismatch is re-run on a fresh machine",
    "expressions with an empty language are not in the family (none is expressible with the stated atoms/operators)",
]

E_ACUTE = "é"
E_CIRC = "ê"
PI = "π"                                  # cf 80: shares no byte with e-acute (c3 a9)
EURO, KIP, PERMILLE = "€", "₭", "‰"      # e2 82 ac | e2 82 ad (shares two bytes) | e2 80 b0 (shares the lead byte)
# family -> input universe, the multi-byte literal of its expressions, a sibling symbol no expression mentions
FAMILIES = {
    "ascii": {"universe": "abc", "literal": None, "sibling": None},
    "mb": {"universe": E_ACUTE + E_CIRC + "a", "literal": E_ACUTE, "sibling": E_CIRC},
    "mb3": {"universe": EURO + KIP + PERMILLE + "a", "literal": EURO, "sibling": KIP},
    # the other multi-byte symbol of the input universe has a DIFFERENT lead byte than the expression's literal
    # (inputs are drawn from {e-acute, pi, a}; what "can still be extended to a sentence" is judged over the universe that
    # also has e-circumflex: a machine cannot know that no other symbol with lead byte c3 will ever be offered)
    "mbf": {"universe": E_ACUTE + PI + "a" + E_CIRC, "inputs": E_ACUTE + PI + "a", "literal": E_ACUTE, "sibling": PI},
}
REPS = [(0, None), (1, None), (0, 1), (0, 0), (0, 2), (1, 1), (1, 2), (2, 2)]
PER_EXPR_KIND = 3        # deviations of one kind recorded (with fresh-machine confirmation) per expression and machine
MAX_STEPS = 400          # generator yields allowed for one run before it is called a no-progress loop


class OracleDisagreement(Exception):
    pass


# ------------------------------------------------------------------------------------------------
# tiny regular-expression AST:  ('cls', chars, negated) | ('cat', x, y) | ('alt', x, y) | ('rep', x, m, n|None)
# plus, in derivatives only:    ('eps',) | ('nul',)

EPS = ("eps",)
NUL = ("nul",)


def totuple(x):
    return tuple(totuple(v) for v in x) if isinstance(x, (list, tuple)) else x


def show(n, ctx=0):
    """Printed form accepted identically by greenery and by Python's re (ctx: 0 top/alternative, 1 factor, 2 repeated)."""
    t = n[0]
    if t == "cls":
        _, cs, neg = n
        if neg:
            return "." if not cs else "[^%s]" % cs
        return cs if len(cs) == 1 else "[%s]" % cs
    if t == "alt":
        s = show(n[1], 0) + "|" + show(n[2], 0)
        return "(" + s + ")" if ctx > 0 else s
    if t == "cat":
        s = show(n[1], 1) + show(n[2], 1)
        return "(" + s + ")" if ctx > 1 else s
    if t == "rep":
        _, x, m, k = n
        b = show(x, 2)
        if x[0] == "rep":
            b = "(" + b + ")"          # never stack quantifiers: 'a*+' / 'a{1,2}?' mean something else to re
        q = {(0, None): "*", (1, None): "+", (0, 1): "?"}.get((m, k)) or "{%d,%d}" % (m, k)
        return b + q
    raise ValueError(n)


def enumerate_exprs(maxsize, atoms):
    """All ASTs with <= maxsize nodes, de-duplicated by printed form: {printed: (ast, size)} in deterministic order."""
    by = {1: list(atoms)}
    for s in range(2, maxsize + 1):
        out = []
        for x in by[s - 1]:
            for m, k in REPS:
                out.append(("rep", x, m, k))
        for ls in range(1, s - 1):
            for l in by[ls]:
                for r in by[s - 1 - ls]:
                    out.append(("cat", l, r))
                    out.append(("alt", l, r))
        by[s] = out
    seen = {}
    for s in range(1, maxsize + 1):
        for n in by[s]:
            seen.setdefault(show(n), (n, s))
    return seen


ASCII_ATOMS = [("cls", "a", False), ("cls", "b", False), ("cls", "ab", False), ("cls", "a", True), ("cls", "ab", True),
               ("cls", "", True)]          # [^ab]: a negated class with two members (two explicit dead symbols next to a live wildcard)


def mb_atoms(literal):
    return [("cls", literal, False), ("cls", "", True), ("cls", literal, True), ("cls", "a", False)]


MB_ATOMS = mb_atoms(E_ACUTE)


def mentions(n, ch):
    if n[0] == "cls":
        return ch in n[1]
    return any(mentions(c, ch) for c in n[1:] if isinstance(c, tuple))


# -- reference semantics (derivatives) -------------------------------------------------------------

def nullable(n):
    t = n[0]
    if t == "eps":
        return True
    if t in ("nul", "cls"):
        return False
    if t == "cat":
        return nullable(n[1]) and nullable(n[2])
    if t == "alt":
        return nullable(n[1]) or nullable(n[2])
    _, x, m, k = n
    return m == 0 or k == 0 or nullable(x)


def is_empty(n):
    """the language of n is empty (no sentence at all)"""
    t = n[0]
    if t == "nul":
        return True
    if t in ("eps", "cls"):
        return False                   # every class of the family matches at least one symbol
    if t == "cat":
        return is_empty(n[1]) or is_empty(n[2])
    if t == "alt":
        return is_empty(n[1]) and is_empty(n[2])
    _, x, m, k = n
    return m >= 1 and k != 0 and is_empty(x)


def mk_cat(x, y):
    if x == NUL or y == NUL:
        return NUL
    if x == EPS:
        return y
    if y == EPS:
        return x
    return ("cat", x, y)


def mk_alt(x, y):
    if x == NUL:
        return y
    if y == NUL or x == y:
        return x
    return ("alt", x, y)


def deriv(n, c, memo):
    """Brzozowski derivative of n by the symbol c"""
    key = (n, c)
    r = memo.get(key)
    if r is not None:
        return r
    t = n[0]
    if t in ("eps", "nul"):
        r = NUL
    elif t == "cls":
        r = EPS if ((c in n[1]) != n[2]) else NUL
    elif t == "alt":
        r = mk_alt(deriv(n[1], c, memo), deriv(n[2], c, memo))
    elif t == "cat":
        r = mk_cat(deriv(n[1], c, memo), n[2])
        if nullable(n[1]):
            r = mk_alt(r, deriv(n[2], c, memo))
    else:
        _, x, m, k = n
        if k == 0:
            r = NUL                                        # x{0,0} is the empty word only
        elif m == 0 and k is None:
            r = mk_cat(deriv(x, c, memo), n)               # (x*)' = x' x*
        else:
            rest = ("rep", x, max(m - 1, 0), None if k is None else k - 1)     # x{m,k} = x x{m-1,k-1}  (| eps when m == 0)
            r = mk_cat(deriv(x, c, memo), rest)
            if nullable(x):
                r = mk_alt(r, deriv(rest, c, memo))
    memo[key] = r
    return r


def witness(n, other):
    """a shortest-ish sentence of a non-empty language (used only to cross-check non-emptiness against `re`)"""
    t = n[0]
    if t == "eps":
        return ""
    if t == "cls":
        if not n[2]:
            return n[1][0]
        return next(ch for ch in other if ch not in n[1])
    if t == "cat":
        return witness(n[1], other) + witness(n[2], other)
    if t == "alt":
        return witness(n[2], other) if is_empty(n[1]) else witness(n[1], other)
    _, x, m, k = n
    return witness(x, other) * m if k != 0 else ""


class Ref:
    """Reference table for one expression over one symbol universe: residual per input string, lazily, memoised."""

    def __init__(self, ast, universe):
        self.ast = ast
        self.universe = universe
        self.memo = {}
        self.res = {"": ast}
        self.pattern = re.compile(show(ast), re.DOTALL)

    def residual(self, s):
        r = self.res.get(s)
        if r is None:
            r = self.res[s] = deriv(self.residual(s[:-1]), s[-1], self.memo)
        return r

    def crosscheck(self, s, acc):
        """derivative oracle vs Python re on the pair (expression, s): membership, and non-emptiness through a witness"""
        d = self.residual(s)
        m_ref = nullable(d)
        m_re = self.pattern.fullmatch(s) is not None
        if m_ref != m_re:
            raise OracleDisagreement("membership of %r in /%s/: derivatives %r, re %r" % (s, show(self.ast), m_ref, m_re))
        if not is_empty(d):
            w = witness(d, self.universe)
            if self.pattern.fullmatch(s + w) is None:
                raise OracleDisagreement("residual of /%s/ after %r claimed non-empty by witness %r, re disagrees"
                                         % (show(self.ast), s, w))
            acc.count("re_witness_checked")
        elif m_re:
            raise OracleDisagreement("residual of /%s/ after %r claimed empty but re matches it" % (show(self.ast), s))
        acc.count("re_crosschecked")

    def expect_symbols(self, s):
        """(|p|, accepting) for symbol-granular machines"""
        n = 0
        for i in range(1, len(s) + 1):
            if is_empty(self.residual(s[:i])):
                break
            n = i
        return n, (n >= 1 and nullable(self.residual(s[:n])))

    def expect_bytes(self, s):
        """(consumed byte count, accepting, stopped inside a symbol) for a bytes machine, prefix taken over bytes of the
        UTF-8 encoding: a byte is consumed while some universe symbol sharing the bytes so far can continue a sentence."""
        nbytes = 0
        for i in range(len(s)):
            d = self.residual(s[:i])
            e = s[i].encode("utf-8")
            live = [u.encode("utf-8") for u in self.universe if not is_empty(deriv(d, u, self.memo))]
            for j in range(1, len(e) + 1):
                if not any(l[:j] == e[:j] for l in live):
                    if j > 1:
                        return nbytes + j - 1, False, True
                    return nbytes, (nbytes >= 1 and nullable(d)), False
            nbytes += len(e)
        return nbytes, (nbytes >= 1 and nullable(self.residual(s))), False


# ------------------------------------------------------------------------------------------------
# subject: build and run the real machines

KINDS = ("regex", "regex_bytes", "string", "string_bytes")


def build(kind, expr):
    """-> (machine, None) or (None, 'unsupported: ...') for the documented construction refusal"""
    import cpppo
    try:
        if kind == "regex":
            return cpppo.regex(initial=expr, context="r", terminal=True), None
        if kind == "regex_bytes":
            return cpppo.regex_bytes(initial=expr, context="r", terminal=True), None
        if kind == "regex_latin1":
            # the documented generic form: a machine over bytes under the caller's own symbol encoder (here one byte per symbol)
            return cpppo.regex(initial=expr, context="r", terminal=True, regex_alphabet=int, regex_typecode="B",
                               regex_encoder=lambda sym: (b for b in bytearray(sym.encode("latin-1")))), None
        if kind == "string":
            return cpppo.string("s", initial=expr, context="r", greedy=True, terminal=True), None
        if kind == "string_bytes":
            return cpppo.string_bytes("s", initial=expr, context="r", greedy=True, decode="utf-8", terminal=True), None
    except AssertionError as exc:
        if "Can only expand" in str(exc) or "one must be '.'" in str(exc):
            return None, "unsupported: " + str(exc)[:60]
        raise
    raise ValueError(kind)


def run_machine(machine, kind, chunks):
    """Feed `chunks` (list of str or bytes; later chunks are chained when the machine asks for input) -> observation dict"""
    import cpppo
    data = cpppo.dotdict()
    source = cpppo.chainable(chunks[0])
    rest = list(chunks[1:])
    exc = None
    steps = 0
    with machine:
        try:
            for _m, s in machine.run(source=source, data=data):
                steps += 1
                if steps > MAX_STEPS:
                    exc = "no-progress-loop"
                    break
                if s is None and rest and source.peek() is None:
                    source.chain(rest.pop(0))
        except cpppo.NonTerminal:
            exc = "NonTerminal"
        except Exception as e:                              # library failure while running a case: part of the oracle
            exc = "exception:%s: %s" % (type(e).__name__, str(e)[:120])
        terminal = bool(machine.terminal)
    sent = source.sent
    stored = data.get("r.input") if kind in ("regex", "regex_bytes", "regex_latin1") else None
    if stored is not None:
        stored = stored.tounicode() if stored.typecode == "u" else stored.tobytes()
    value = data.get("r") if kind in ("string", "string_bytes") else None
    if isinstance(value, dict):                             # wrapper did not terminate: raw collection only
        value = None
    nxt = source.peek()
    return {"terminal": terminal, "sent": sent, "stored": stored, "value": value, "exc": exc, "next": nxt,
            "unfed": len(rest)}


def judge(kind, whole, obs, n, accepting, midsymbol):
    """Compare one observation with the reference (n = expected consumed symbols/bytes of `whole`).  -> [(kind, msg)]"""
    bad = []
    p = whole[:n]
    exc = obs["exc"]
    k = obs["sent"]
    where = "" if not midsymbol else " (a stop inside a multi-byte symbol)"
    if exc and exc.startswith("exception:"):
        return [("library-exception", "run raised %s" % exc)]
    if exc == "no-progress-loop":
        return [("no-progress-loop", "more than %d yields without finishing" % MAX_STEPS)]
    if k != n:
        bad.append(("absorbs-beyond-prefix" if k > n else "stops-short-of-prefix",
                    "consumed %d symbols %r, reference prefix is %d symbols %r%s" % (k, whole[:k], n, p, where)))
    if kind in ("regex", "regex_bytes", "regex_latin1"):
        got = obs["stored"]
        if got is None:
            got = whole[:0]
        if got != whole[:k]:
            bad.append(("stored-differs-from-consumed", "data[r.input] == %r but the source delivered %r" % (got, whole[:k])))
    if obs["terminal"] != accepting:
        if obs["terminal"]:
            tag = "accepts-empty-prefix" if k == 0 else "accepts-non-sentence"
        else:
            tag = "rejects-sentence"
        bad.append((tag, "machine.terminal == %r after consuming %r; reference: prefix %r %s an acceptable sentence"
                    % (obs["terminal"], whole[:k], p, "is" if accepting else "is not")))
    if exc == "NonTerminal" and obs["terminal"]:
        bad.append(("nonterminal-raised-while-accepting", "NonTerminal raised although machine.terminal is True"))
    if kind in ("string", "string_bytes") and obs["terminal"] and accepting and k == n:
        want = p if isinstance(p, str) else p.decode("utf-8")
        if obs["value"] != want:
            bad.append(("wrapper-value", "data[r] == %r, expected the accepted sentence %r" % (obs["value"], want)))
    if len(whole) > k and obs["unfed"] == 0 and obs["next"] != whole[k]:
        bad.append(("next-symbol-lost", "source.peek() == %r, expected %r left in the source" % (obs["next"], whole[k])))
    return bad


# -- root-cause classification of deviations seen on the unchanged tree (diagnosis only; never weakens `judge`) -------
#
# K1  bytes-multibyte:lead-byte-of-dead-symbol-absorbed
#       reference stops on a symbol boundary because no symbol with that lead byte can continue a sentence; the machine
#       consumes exactly the lead byte, then fails non-terminal (an accepting prefix becomes a NonTerminal failure)
# K2  bytes-multibyte:wildcard-rejects-symbol-sharing-lead-byte
#       '.' / a negated class should match a multi-byte symbol that shares its lead byte with the literal of the
#       expression; the machine consumes the lead byte and fails non-terminal
# K3  bytes-multibyte:vacuous-literal-machine-is-bytewise
#       the multi-byte literal does not influence the language (e.g. '.|[^X]'); the machine behaves exactly like the
#       byte-per-symbol machine of the same expression, i.e. '.' matches one byte of a multi-byte symbol
# K5  bytes-multibyte:3-byte-symbol-continuation-state-overwritten
#       from_regex numbers the second continuation state of a 3-byte symbol with an index the first one already uses
#       (`add = len( states ); while add in machine.map`), so the state entered on the lead byte loses its transition on
#       the second byte.  Given only when (a) the machine under test shows that signature (a state reached on the lead
#       byte without a transition on the literal's second byte) and (b) the observation equals the prediction of a model
#       of exactly that defect: after the lead byte only the wildcard (if live) applies and completes the "symbol" after
#       two bytes; stray continuation bytes are then unknown symbols of their own
# K6  bytes-multibyte:wildcard-takes-one-byte-of-foreign-lead-symbol
#       '.' / a negated class takes ONE byte of a multi-byte symbol whose lead byte differs from that of the expression's
#       literal (the added continuation states only exist behind the literal's lead byte), so each byte of such a symbol is
#       an unknown symbol of its own.  Given only in the family whose universe has such a symbol, and only when the
#       observation equals the prediction of a model of exactly that reading
# U1  upstream-greenery:wrong-language
#       the automaton greenery itself builds for the printed expression prescribes, for this very input, something else
#       than the expression's language does -- and the cpppo machine does exactly what greenery's automaton prescribes
#       (a machine that departs from greenery's automaton is never classified U1)

K1 = "bytes-multibyte:lead-byte-of-dead-symbol-absorbed"
K2 = "bytes-multibyte:wildcard-rejects-symbol-sharing-lead-byte"
K3 = "bytes-multibyte:vacuous-literal-machine-is-bytewise"
K5 = "bytes-multibyte:3-byte-symbol-continuation-state-overwritten"
K6 = "bytes-multibyte:wildcard-takes-one-byte-of-foreign-lead-symbol"
U1 = "upstream-greenery:wrong-language"


class Diagnosis:
    """Per-expression lazy helpers for classifying a deviation.  Consults greenery directly -- for diagnosis only: the
    reference that decides whether there IS a deviation never does."""

    def __init__(self, ref, expr, strings, family="mb"):
        self.ref, self.expr, self.strings = ref, expr, strings
        self.literal, self.sibling = FAMILIES[family]["literal"], FAMILIES[family]["sibling"]
        self._fsm = self._vacuous = None

    def fsm(self):
        """greenery's own automaton for the printed expression + the states from which a final state is reachable"""
        if self._fsm is None:
            import greenery.lego
            lego = greenery.lego.parse(self.expr)
            f = lego.fsm()
            live = set(f.finals)
            grew = True
            while grew:
                grew = False
                for st, tab in f.map.items():
                    if st not in live and any(d in live for d in tab.values()):
                        live.add(st)
                        grew = True
            self._fsm = (f, live, str(lego))
        return self._fsm

    def greenery_prediction(self, s):
        """what the statement demands of a machine whose language is that of greenery's automaton: (symbols, accepting)"""
        f, live, _ = self.fsm()
        st, n = f.initial, 0
        for i, c in enumerate(s):
            nxt = f.map.get(st, {}).get(c if c in f.alphabet else None)
            if nxt is None or nxt not in live:
                break
            st, n = nxt, i + 1
        return n, (n >= 1 and st in f.finals)

    def vacuous(self):
        """the multi-byte literal never matters: swapping it for the other 2-byte symbol changes no membership (bounded)"""
        if self._vacuous is None:
            self._vacuous = all(
                nullable(self.ref.residual(s)) == nullable(self.ref.residual(s.replace(self.literal, self.sibling)))
                for s in self.strings if self.literal in s)
        return self._vacuous

    def bytewise(self, whole):
        """prediction of the byte-per-symbol reading: every non-ASCII byte is one unknown symbol"""
        mapped = "".join(chr(b) if b < 0x80 else self.sibling for b in whole)
        n = 0
        for i in range(1, len(mapped) + 1):
            if is_empty(self.ref.residual(mapped[:i])):
                break
            n = i
        return n, (n >= 1 and nullable(self.ref.residual(mapped[:n])))

    def foreign_model(self, s):
        """(consumed bytes, terminal) when every byte of the foreign-lead symbol is one unknown symbol of its own and every
        other symbol is handled as the statement demands (lenient byte prefix, see Ref.expect_bytes)"""
        ref, foreign = self.ref, self.sibling
        d, nbytes = ref.ast, 0
        for c in s:
            e = c.encode("utf-8")
            if c == foreign:
                for _b in e:
                    nd = deriv(d, foreign, ref.memo)
                    if is_empty(nd):
                        return nbytes, (nbytes >= 1 and nullable(d))
                    d, nbytes = nd, nbytes + 1
                continue
            live = [u.encode("utf-8") for u in ref.universe if u != foreign and not is_empty(deriv(d, u, ref.memo))]
            for j in range(1, len(e) + 1):
                if not any(l[:j] == e[:j] for l in live):
                    if j > 1:
                        return nbytes + j - 1, False
                    return nbytes, (nbytes >= 1 and nullable(d))
            d, nbytes = deriv(d, c, ref.memo), nbytes + len(e)
        return nbytes, (nbytes >= 1 and nullable(d))

    def overwritten_signature(self, machine):
        """some state reached on the literal's lead byte has no transition on the literal's second byte (raw dict look-ups)"""
        enc = self.literal.encode("utf-8")
        if len(enc) < 3:
            return False
        for st in machine.initial.nodes():
            nxt = dict.get(st, enc[0])
            if isinstance(nxt, dict) and not dict.__contains__(nxt, enc[1]):
                return True
        return False

    def overwritten_model(self, whole):
        """(consumed, terminal) predicted for a machine with the overwritten continuation state and nothing else wrong"""
        ref, lead = self.ref, self.literal.encode("utf-8")[0]
        step = lambda d, u: deriv(d, u, ref.memo)
        d, k, i = ref.ast, 0, 0
        while i < len(whole):
            b = whole[i]
            if b == lead:
                wild = step(d, self.sibling)
                if is_empty(step(d, self.literal)) and is_empty(wild):
                    break                                   # refused at the lead byte
                k = i = i + 1                               # lead byte consumed: in the crippled continuation state
                if i >= len(whole) or is_empty(wild):
                    return k, False                         # ... which only the wildcard leaves
                d = wild
                k = i = i + 1
                continue
            nd = step(d, chr(b) if b < 0x80 else self.sibling)
            if is_empty(nd):
                break
            d = nd
            k = i = i + 1
        return k, (k >= 1 and nullable(d))

    def root_cause(self, family, kind, s, whole, obs, n, accepting, mid, machine=None):
        """-> (kind, note) when the observation is mechanically explained by one of the known mechanisms"""
        if obs["exc"] and obs["exc"] != "NonTerminal":
            return None, ""
        k = obs["sent"]
        latin1 = kind == "regex_latin1"        # one byte per symbol: none of the multi-byte mechanisms applies
        if family != "ascii" and isinstance(whole, bytes) and not latin1:
            failed = not obs["terminal"]
            if family == "mbf" and self.sibling in s and (k, obs["terminal"]) == self.foreign_model(s):
                return K6, ""
            if machine is not None and self.overwritten_signature(machine) \
               and (k, obs["terminal"]) == self.overwritten_model(whole):
                return K5, ""
            if k == n + 1 and not mid and whole[n] >= 0xC0 and failed:
                return K1, ""
            if 1 <= k < n and whole[k - 1] >= 0xC0 and not whole[k - 1:].startswith(self.literal.encode("utf-8")) and failed:
                return K2, ""
            if self.vacuous() and (k, obs["terminal"]) == self.bytewise(whole):
                return K3, ""
        # upstream: the machine does exactly what greenery's automaton prescribes, and that automaton is wrong
        gn, gacc = self.greenery_prediction(s)
        gk = len(s[:gn].encode("utf-8")) if isinstance(whole, bytes) and not latin1 else gn
        if (gk, gacc) == (k, obs["terminal"]) and (gn, gacc) != self.ref.expect_symbols(s):
            return U1, " [the machine follows greenery's own automaton: greenery parses /%s/ as /%s/]" % (
                self.expr, self.fsm()[2])
        return None, ""


def chunkings(whole, tier_chunks):
    """None (whole input) and, when asked, every 2-way split (first chunk of 0..n-1 symbols) and symbol-at-a-time."""
    yield None
    if tier_chunks:
        n = len(whole)
        for k in range(0, n):
            yield [k]
        if n >= 3:
            yield list(range(1, n))


def split(whole, cuts):
    if cuts is None:
        return [whole]
    out, last = [], 0
    for k in cuts:
        out.append(whole[last:k])
        last = k
    out.append(whole[last:])
    return out


def outcome_class(n, accepting, whole, midsymbol):
    if midsymbol:
        return "stop-inside-symbol"
    if accepting:
        return "accept-all-input" if n == len(whole) else "accept-prefix-leave-rest"
    if n == 0:
        return "reject-nothing-consumed" if len(whole) else "reject-empty-input"
    return "reject-at-end-of-input" if n == len(whole) else "reject-after-prefix"


def expectation(ref, family, kind, s):
    byteswise = kind in ("regex_bytes", "string_bytes")
    if kind == "regex_latin1":             # one byte per symbol: the symbol-wise reference applies to the encoded bytes as they are
        (n, accepting) = ref.expect_symbols(s)
        return s.encode("latin-1"), n, accepting, False
    whole = s.encode("utf-8") if byteswise else s
    if byteswise and family != "ascii":
        n, accepting, mid = ref.expect_bytes(s)
    else:
        (n, accepting), mid = ref.expect_symbols(s), False
    return whole, n, accepting, mid


def verdicts(diag, family, kind, expr, s, whole, cuts, obs, n, accepting, mid, machine=None):
    """-> [(kind, msg)] for one observation: generic deviations, folded under a root-cause kind when one is recognised"""
    bad = judge(kind, whole, obs, n, accepting, mid)
    if not bad:
        return []
    head = "%s(%r) on %r%s: " % (kind, expr, whole, "" if cuts is None else " fed in pieces cut at %r" % (cuts,))
    cause, note = diag.root_cause(family, kind, s, whole, obs, n, accepting, mid, machine)
    if cause:
        return [(cause, head + "; ".join(m for _k, m in bad) + note)]
    prefix = "bytes-multibyte:other:" if family != "ascii" else ""
    return [(prefix + k, head + m) for k, m in bad]


def check_expr(acc, family, ast, size, strings, kinds, chunk_kinds, seed):
    """All inputs x machine kinds for one expression.  The reference is computed first and cross-checked with re."""
    expr = show(ast)
    universe, literal = FAMILIES[family]["universe"], FAMILIES[family]["literal"]
    ref = Ref(ast, universe)
    for s in strings:
        ref.crosscheck(s, acc)
    diag = Diagnosis(ref, expr, strings, family)
    acc.count("expressions")
    for kind in kinds:
        machine, why = build(kind, expr)
        if machine is None:
            acc.outcome("construction:unsupported")
            acc.count("unsupported_%s" % family)
            acc.ev()
            if family == "ascii" or not (mentions(ast, literal) and mentions(ast, "a")):
                acc.violation("construction-refused", {"family": family, "kind": kind, "ast": ast, "expr": expr,
                                                       "input": "", "cuts": None},
                              "construction of %s(%r) refused (%s) although no second symbol accompanies the multi-byte one"
                              % (kind, expr, why))
            continue
        acc.outcome("construction:ok")
        acc.count("machines_%s" % family)
        history = []
        recorded = {}
        for s in strings:
            whole, n, accepting, mid = expectation(ref, family, kind, s)
            oc = outcome_class(n, accepting, whole, mid)
            for cuts in chunkings(whole, kind in chunk_kinds):
                acc.ev()
                if n >= 1:
                    acc.ntc()
                history.append((s, cuts))
                obs = run_machine(machine, kind, split(whole, cuts))
                acc.outcome("%s:%s" % (family, oc))
                if not accepting:
                    acc.outcome("failure:" + ("NonTerminal" if obs["exc"] == "NonTerminal" else "non-terminal-end"))
                if cuts is not None:
                    acc.count("chunked_runs")
                if not judge(kind, whole, obs, n, accepting, mid):
                    continue
                bad = verdicts(diag, family, kind, expr, s, whole, cuts, obs, n, accepting, mid, machine)
                for k, _m in bad:
                    acc.count("deviation:" + k)
                if all(recorded.get(k, 0) >= PER_EXPR_KIND for k, _m in bad):
                    acc.violations_total += len(bad)          # same expression, same kinds: counted, not re-recorded
                    continue
                # re-run on a fresh machine: a replayable case must not depend on what this machine saw before
                fresh, _ = build(kind, expr)
                obs2 = run_machine(fresh, kind, split(whole, cuts))
                bad2 = verdicts(diag, family, kind, expr, s, whole, cuts, obs2, n, accepting, mid, fresh)
                case = {"family": family, "kind": kind, "ast": ast, "expr": expr, "input": s, "cuts": cuts,
                        "maxlen": max(len(x) for x in strings)}
                if bad2:
                    for k, m in bad2:
                        recorded[k] = recorded.get(k, 0) + 1
                        acc.violation(k, case, m)
                else:
                    case["history"] = [[h, c] for h, c in history]
                    acc.violation("depends-on-earlier-runs", case,
                                  "%s -- only after the earlier inputs on the same machine object" % bad[0][1])
                    machine = fresh
                    history = []
    if len(acc.samples) < 1:
        acc.sample({"family": family, "kind": kinds[0], "expr": expr, "input": strings[len(strings) // 2], "cuts": None})


def all_strings(symbols, maxlen):
    return ["".join(p) for n in range(maxlen + 1) for p in itertools.product(symbols, repeat=n)]


def plan(tier):
    if tier == "quick":
        return {"ascii_size": 4, "ascii_len": 5, "chunk_size": 2, "wrap_size": 2, "mb_size": 3, "mb_len": 4, "mb_chunks": False,
                "mb3_size": 3, "mb3_len": 4, "mbf_size": 3, "mbf_len": 4}
    return {"ascii_size": 5, "ascii_len": 5, "chunk_size": 4, "wrap_size": 3, "mb_size": 4, "mb_len": 5, "mb_chunks": True,
            "mb3_size": 4, "mb3_len": 4, "mbf_size": 4, "mbf_len": 4}


_neighbour = []


def other_machines_exist():
    """The process also hosts unrelated cpppo machines, among them one using predicate ("recognizer") transitions for digits and
    for every symbol of the test universes -- as an application mixing hand-built tokenizers with regex machines would.  A regex
    machine's language must not depend on what else has been constructed in the process."""
    if _neighbour:
        return
    import cpppo
    start = cpppo.state("tok-start")
    digits = cpppo.state("tok-digits", terminal=True)
    def is_digit(s, **kw):
        try:
            return (s if isinstance(s, str) else chr(s)).isdigit()
        except (TypeError, ValueError):
            return False

    def is_letter(s, **kw):
        return s in ("a", "b", "c", ord("a"), ord("b"), ord("c"))

    start[is_digit] = digits
    start[is_letter] = digits
    _neighbour.append(cpppo.dfa("tok", initial=start))


def shard(acc, item, tier, seed):
    family, entries = item
    other_machines_exist()
    pl = plan(tier)
    import random
    strings = all_strings(FAMILIES[family].get("inputs") or FAMILIES[family]["universe"], pl[family + "_len"])
    if seed:
        random.Random(seed).shuffle(strings)
    for ast, size in entries:
        ast = totuple(ast)
        if family == "ascii":
            kinds = ["regex", "regex_bytes"]
            if size <= pl["wrap_size"]:
                kinds += ["string", "string_bytes"]
            chunk_kinds = ("regex", "regex_bytes") if size <= pl["chunk_size"] else ()
        else:
            kinds = ["regex_bytes"]
            chunk_kinds = ("regex_bytes",) if pl["mb_chunks"] else ()
            if family == "mb":
                # every symbol of this family is one byte in Latin-1: the same expression text, in the same process, as a machine
                # over bytes under another encoder (built after the UTF-8 one)
                kinds = ["regex_bytes", "regex_latin1"]
        try:
            check_expr(acc, family, ast, size, strings, kinds, chunk_kinds, seed)
        except OracleDisagreement as exc:
            from mc.core import HarnessError
            raise HarnessError("C11 reference oracle disagrees with Python re: %s" % exc)


def run(ctx):
    pl = plan(ctx.tier)
    items = []
    asc = sorted(enumerate_exprs(pl["ascii_size"], ASCII_ATOMS).items())
    # shards of roughly equal cost: chunked/wrapped small expressions cost ~8x a plain one
    weight = lambda e: 8 if e[1][1] <= pl["chunk_size"] else 1
    target = max(1, sum(weight(e) for e in asc) // 320)
    cur, w = [], 0
    for e in asc:
        cur.append(e[1])
        w += weight(e)
        if w >= target:
            items.append(("ascii", cur))
            cur, w = [], 0
    if cur:
        items.append(("ascii", cur))
    mb = sorted(enumerate_exprs(pl["mb_size"], MB_ATOMS).items())
    mb = [e for e in mb if mentions(e[1][0], E_ACUTE)]          # without the multi-byte symbol it is the ascii family again
    per = max(1, len(mb) // 60)
    for i in range(0, len(mb), per):
        items.append(("mb", [e[1] for e in mb[i:i + per]]))
    mb3 = sorted(enumerate_exprs(pl["mb3_size"], mb_atoms(EURO)).items())
    mb3 = [e for e in mb3 if mentions(e[1][0], EURO)]
    per = max(1, len(mb3) // 60)
    for i in range(0, len(mb3), per):
        items.append(("mb3", [e[1] for e in mb3[i:i + per]]))
    mbf = sorted(enumerate_exprs(pl["mbf_size"], MB_ATOMS).items())
    mbf = [e for e in mbf if mentions(e[1][0], E_ACUTE)]
    per = max(1, len(mbf) // 60)
    for i in range(0, len(mbf), per):
        items.append(("mbf", [e[1] for e in mbf[i:i + per]]))
    acc = ctx.pmap(__name__, "shard", items)
    acc.counters["expected_expressions"] = len(asc) + len(mb) + len(mb3) + len(mbf)
    return acc


def guards(acc, ctx):
    g = []
    c = acc.counters
    if c.get("expressions", 0) != c.get("expected_expressions", -1):
        g.append("explored %r expressions, enumeration has %r" % (c.get("expressions"), c.get("expected_expressions")))
    floor = 4000 if ctx.quick else 44000
    if c.get("expressions", 0) < floor:
        g.append("fewer than %d expressions" % floor)
    if c.get("re_crosschecked", 0) < floor * 300:
        g.append("re cross-validation covered only %d pairs" % c.get("re_crosschecked", 0))
    if c.get("re_witness_checked", 0) < floor * 30:
        g.append("re witness validation covered only %d residuals" % c.get("re_witness_checked", 0))
    for fam, least in (("ascii", 1000), ("mb", 50), ("mb3", 50), ("mbf", 50)):
        for oc in ("accept-all-input", "accept-prefix-leave-rest", "reject-nothing-consumed", "reject-empty-input",
                   "reject-at-end-of-input", "reject-after-prefix"):
            if acc.outcomes.get("%s:%s" % (fam, oc), 0) < least:
                g.append("outcome class %s:%s seen fewer than %d times" % (fam, oc, least))
    for fam in ("mb", "mb3", "mbf"):
        if acc.outcomes.get(fam + ":stop-inside-symbol", 0) < 50:
            g.append("multi-byte family %s never expects a stop inside a symbol" % fam)
        if c.get("unsupported_" + fam, 0) < 5 or c.get("machines_" + fam, 0) < 100:
            g.append("multi-byte family %s: unsupported=%r supported=%r" % (fam, c.get("unsupported_" + fam), c.get("machines_" + fam)))
    if c.get("unsupported_ascii", 0):
        g.append("a single-byte expression was refused at construction")
    if c.get("chunked_runs", 0) < 10000:
        g.append("fewer than 10000 chunked runs")
    if acc.outcomes.get("failure:NonTerminal", 0) < 1000:
        g.append("NonTerminal failure seen fewer than 1000 times")
    return g


def replay(case):
    ast = totuple(case["ast"])
    family, kind = case["family"], case["kind"]
    universe, literal = FAMILIES[family]["universe"], FAMILIES[family]["literal"]
    strings = all_strings(FAMILIES[family].get("inputs") or universe, case.get("maxlen") or 5)       # only the diagnosis (kind label) looks at other strings
    ref = Ref(ast, universe)
    expr = show(ast)
    diag = Diagnosis(ref, expr, strings, family)
    if kind == "regex_latin1":
        build("regex_bytes", expr)        # as in the exploration: the UTF-8 machine of the same expression text exists first
    machine, why = build(kind, expr)
    if machine is None:
        if family == "ascii" or not (mentions(ast, literal) and mentions(ast, "a")):
            return ["construction of %s(%r) refused: %s" % (kind, expr, why)]
        return []

    def one(s, cuts):
        cuts = None if cuts is None else list(cuts)
        whole, n, accepting, mid = expectation(ref, family, kind, s)
        obs = run_machine(machine, kind, split(whole, cuts))
        return ["[%s] %s" % (k, m)
                for k, m in verdicts(diag, family, kind, expr, s, whole, cuts, obs, n, accepting, mid, machine)]

    if case.get("history"):
        msgs = []
        for h, c in case["history"]:
            msgs = one(h, c)              # only the last one (the recorded case) counts
        return msgs
    return one(case["input"], case.get("cuts"))
