"""C17 -- timestamps and durations survive render/parse; ordering matches the rendering (E-input, bounded exhaustive).

Subject : cpppo.history.times  (timestamp.render / timestamp(<str>) / parse_datetime / comparison operators,
          duration, parse_seconds, parse_offset / format_offset) -- the real code, driven in-process.
Oracle  : independent arithmetic with the standard library only (zoneinfo, datetime, fractions, re).  Nothing of
          cpppo, pytz or the pytz shim is used to decide what a text denotes or where a zone changes its offset.

Which round trips are demanded (decided from cpppo's documented behaviour, see history/times.py docstrings):

  name     render( tzinfo=<zone>, ms=p, tzdetail=True )  ->  "YYYY-MM-DD HH:MM:SS[.f..] <Zone/Name>"  ->  timestamp( text )
           The zone is "given without daylight-saving designation": the statement's exception applies.  If the rendered
           wall time is ambiguous in the zone (zoneinfo: two instants have it) the parse MUST raise; otherwise it must
           return the rendered instant (to the ms for p>=3, to one unit of the last rendered digit for p in 0..2 --
           ms=False/precision 0 truncates by design, so neither rounding nor truncation is demanded).
  utc      render( ms=p )  ->  "YYYY-MM-DD HH:MM:SS[.f..]"  ->  timestamp( text )      (what history files store)
  numeric  render( tzinfo=<zone>, ms=p, tzdetail=False )  ->  "...SS[.f..]+hhmm"  ->  timestamp( parse_datetime( text ))
           A numeric offset is never ambiguous: always demanded.  (timestamp(<str>) documents the grammar
           "YYYY-MM-DD HH:MM:SS[.###] [TZ]" -- numeric offsets are parse_datetime's grammar, so that is the parser used.)
  texts    wall-clock texts built by the oracle inside/around every gap and every fold of every zone, "<wall> <Zone/Name>"
           ->  timestamp( text ): non-existent or ambiguous => MUST raise; unique => the one instant zoneinfo gives.

Not demanded (counted and noted as `unsupported`, never silenced case by case):
  * zone names containing one of the characters ":-." (25 of 599: Etc/GMT-N, America/Port-au-Prince, W-SU ...).  The
    documented tokenizer (timestamp._timeseps) turns these characters into separators before looking for the zone, so the
    rendered name cannot be presented to the parser.  Decided from the *syntax of the name*, before running anything;
    the demand for them is the weaker "rejected, or the same instant -- never a different instant".
  * the default rendering's zone *abbreviation* (tzdetail=None: "MDT", "CEST", "EET" ...).  cpppo parses abbreviations
    only after timestamp.support_abbreviations(<region>) was told about them; that API is documented "Only supported with
    pytz (classic), not pytz_deprecation_shim + zoneinfo" and this environment has only the shim (has_pytz_classic is
    False; the call raises AttributeError).  An unregistered abbreviation is documented to be looked up as a *zone name*
    (the 'MST' discussion in datetime_from_number).  A census of what happens is taken (outcomes `abbr:*`), no verdict.

Everything is enumerated (no sampling); VERIF_SEED only permutes shard order.
"""
import calendar
import datetime
import itertools
import re
import warnings
import zoneinfo
from fractions import Fraction

ID = "C17"
LEVEL = "exploration"
RULE = ("every zone of the offline tz database x every UTC-offset transition in the year window (1 h zoneinfo scan + bisection "
        "to the second) x instant offsets around the transition x sub-ms fractions x precision 0..6 x {zone-name, numeric-offset} "
        "rendering, each rendered and parsed by the real code; oracle-built wall-clock texts in and around every gap/fold; a "
        "uniform grid far from transitions; all ordered pairs of the instants 0.1 ms apart in two runs (32 from the full second, 37 across the next second boundary) at every comparison base; the full "
        "product of duration component boundary values + every microsecond count below 20000; offsets and HH:MM:SS strings over "
        "component boundaries.  distinct non-trivial = distinct (zone, instant, precision, rendering) within 2h+1ms (or the "
        "shift size) of a transition of that zone, or carrying a sub-ms fraction; distinct gap/fold texts; ordered pairs of "
        "distinct instants < 3.7 ms apart; durations with >= 1 non-zero component")
BOUNDS = {
    "quick": "599 zones; transitions 2022-01-01..2027-01-01 (1 h scan); per transition 19..27 instant offsets {0, +-1ms, +-999ms, +-1s, "
             "+-30min, +-(1h-1ms), +-1h, +-(1h+1ms), +-2h, +-shift, +-(shift-1s), +-(shift+-1ms), +-shift/2} x 7 sub-ms fractions "
             "{0,.0004,.0005,.0006,.9994,.9995,.9996} (deduplicated) x precision 0..6 for the zone-name rendering and {0,3,6} for the "
             "numeric-offset rendering; <= 44 gap/fold texts per transition (11 positions x 4 fraction spellings); far grid 6 "
             "instants/zone; utc grid 226 instants x 25 fractions x 7 precisions; comparison: 90 bases x (32x32 + 37x37) ordered "
             "pairs; durations 12960 (product) + 40000 (every us count < 20000 with s in {0,59}); offsets 7x3x3x12 x sign x ms; "
             "HH:MM[:SS[.f]] 4x3x8 + 7 literals",
    "thorough": "as quick with transitions 2015-01-01..2031-01-01, all precisions for both renderings, far grid 40 instants/zone, "
                "utc grid 706, comparison bases 300; plus every transition 1970..2015 and 2031..2038 (3 h scan) at precisions "
                "{0,3,6} x fractions {0,.0005,.9996}",
}
ASSUMPTIONS = [
    "time-zone support is the pytz_deprecation_shim + zoneinfo + tzdata installed in /venv (pytz classic absent): "
    "timestamp.support_abbreviations cannot run, so abbreviation renderings are unsupported by documentation, not checked",
    "a pair of offset transitions of one zone that cancel within the scan step (1 h; 3 h in the extended window) would be missed",
    "instants are doubles built from integer 0.1 ms ticks (one correctly rounded division); epoch range 1970..2038",
    "zone names containing ':', '-' or '.' are demanded only to be rejected-or-exact (documented tokenizer), see module docstring",
]

UTC = datetime.timezone.utc
EPOCH = datetime.datetime(1970, 1, 1, tzinfo=UTC)
US = datetime.timedelta(microseconds=1)
SLOP = 2e-6                       # double resolution near 2e9 s is 2.4e-7 s; a few ulps of arithmetic

FRACTIONS = [0, 4, 5, 6, 9994, 9995, 9996]            # in 0.1 ms ticks
FRACTIONS_EXT = [0, 5, 9996]
PRECISIONS = [0, 1, 2, 3, 4, 5, 6]
PRECISIONS_EXT = [0, 3, 6]


def tol(p):
    return 10.0 ** -min(p, 3) + SLOP


# ------------------------------------------------------------------------------------------------------------
# the oracle: zoneinfo / datetime only

def epoch_of_year(y):
    return calendar.timegm((y, 1, 1, 0, 0, 0))


def scan_transitions(zi, s0, s1, step):
    """[(T, offset_before_s, offset_after_s)] : first second T at which the new offset applies, s0 < T <= s1."""
    fts = datetime.datetime.fromtimestamp
    out = []
    prev = fts(s0, zi).utcoffset()
    s = s0 + step
    while s <= s1:
        o = fts(s, zi).utcoffset()
        if o != prev:
            lo, hi = s - step, s
            while hi - lo > 1:
                mid = (lo + hi) // 2
                if fts(mid, zi).utcoffset() == prev:
                    lo = mid
                else:
                    hi = mid
            out.append((hi, int(prev.total_seconds()), int(o.total_seconds())))
            prev = o
        s += step
    return out


def wall_instants(wall, zi):
    """All instants (integer microseconds since the epoch) whose wall-clock reading in zone zi is the naive `wall`."""
    res = []
    for fold in (0, 1):
        u = wall.replace(tzinfo=zi, fold=fold).astimezone(UTC)
        if u.astimezone(zi).replace(tzinfo=None) == wall:
            us = (u - EPOCH) // US
            if us not in res:
                res.append(us)
    return res


TEXT_RE = re.compile(r"^(\d{4})-(\d\d)-(\d\d) (\d\d):(\d\d):(\d\d)(?:\.(\d{1,6}))?(?: (\S+)|([+-])(\d\d)(\d\d)(\d\d)?)?$")


def read_text(text):
    """(naive wall datetime, number of fraction digits, zone suffix or None, numeric offset seconds or None) or None"""
    m = TEXT_RE.match(text)
    if not m:
        return None
    y, mo, d, h, mi, s, frac, zone, sign, oh, om, osec = m.groups()
    usec = int((frac or "").ljust(6, "0")) if frac else 0
    try:
        wall = datetime.datetime(int(y), int(mo), int(d), int(h), int(mi), int(s), usec)
    except ValueError:
        return None
    off = None
    if sign:
        off = (int(oh) * 3600 + int(om) * 60 + int(osec or 0)) * (-1 if sign == "-" else 1)
    return wall, len(frac or ""), zone, off


def name_is_tokenizable(zone):
    return not any(c in zone for c in ":-.")


def ticks_to_float(ticks):
    return ticks / 10000.0


# ------------------------------------------------------------------------------------------------------------
# one case each; every function returns [(kind, msg)] and is what replay() re-runs

_TIMES = None


def _times():
    global _TIMES
    if _TIMES is None:
        warnings.simplefilter("ignore")     # the shim warns on every localize()/zone use
        from cpppo.history import times
        _TIMES = times
    return _TIMES


def check_roundtrip(zone, t, p, mode, acc=None):
    """mode: 'name' | 'numeric' | 'utc'.  zone is None for 'utc'."""
    times = _times()
    zi = zoneinfo.ZoneInfo(zone) if zone else UTC
    bad = []
    supported = mode != "name" or name_is_tokenizable(zone)
    if acc is not None:
        # what the enumeration covered, by the oracle's own arithmetic on the input (this is all the vacuity guards look at)
        acc.outcome("p=%d" % p)
        w0 = datetime.datetime.fromtimestamp(int(t // 1), zi).replace(tzinfo=None)
        acc.outcome("case:%s:%s" % (mode, "untokenizable-name" if not supported else
                                    "instant-in-fold" if len(wall_instants(w0, zi)) > 1 else "instant-unique"))
        if p and (t - t // 1) >= 1.0 - 0.5 * 10.0 ** -p:
            acc.outcome("case:fraction-rounds-into-next-second")
    try:
        ts = times.timestamp(t)
        if mode == "utc":
            text = ts.render(ms=p)
        else:
            text = ts.render(tzinfo=zone, ms=p, tzdetail=(mode == "name"))
    except Exception as exc:
        return [("render-exception", "timestamp(%r).render(%r, ms=%r, mode=%s) raised %r" % (t, zone, p, mode, exc))]
    rd = read_text(text)
    if rd is None:
        return [("render-format", "timestamp(%r).render(%r, ms=%r, mode=%s) -> %r: not 'YYYY-MM-DD HH:MM:SS[.f] [zone|+hhmm]'"
                 % (t, zone, p, mode, text))]
    wall, ndig, suffix, off = rd
    if ndig != p:
        bad.append(("render-format", "render(ms=%d) of %r in %r -> %r has %d fraction digits" % (p, t, zone, text, ndig)))
    want_suffix = {"name": zone, "utc": None}.get(mode)
    if mode != "numeric" and suffix != want_suffix:
        bad.append(("render-format", "render(%r, ms=%r, mode=%s) of %r -> %r: zone suffix %r" % (zone, p, mode, t, text, suffix)))
    if mode == "numeric" and off is None:
        return bad + [("render-format", "render(%r, ms=%r, tzdetail=False) of %r -> %r: no numeric offset" % (zone, p, t, text))]

    # -- what does the text denote (independent reading)?
    if mode == "numeric":
        cands = [((wall.replace(tzinfo=UTC) - EPOCH) // US) - off * 1000000]
        real = int(datetime.datetime.fromtimestamp(cands[0] // 1000000, zi).utcoffset().total_seconds())
        if real != off:
            bad.append(("render-wrong-offset", "render(%r, tzdetail=False) of %r -> %r but the zone's offset then is %+d s"
                        % (zone, t, text, real)))
    else:
        cands = wall_instants(wall, zi)
    near = [c for c in cands if abs(c / 1e6 - t) <= tol(p)]
    if not near:
        bad.append(("render-wrong-walltime:%s" % mode,
                    "timestamp(%r).render(%r, ms=%r) -> %r, which in that zone denotes %r -- none within %g s of the instant"
                    % (t, zone, p, text, [c / 1e6 for c in cands], tol(p))))
    if acc is not None and wall.replace(microsecond=0) != w0:
        acc.outcome("render:carried-into-next-second")              # observed (informational)

    # -- parse it back with the real parser
    try:
        if mode == "numeric":
            v = times.timestamp(times.parse_datetime(text)).value
        else:
            v = times.timestamp(text).value
        err = None
    except Exception as exc:
        v, err = None, exc

    ambiguous = len(cands) > 1
    if ambiguous:
        # a zone given without DST designation: must be rejected, never mapped
        if err is None:
            bad.append(("ambiguous-walltime-accepted",
                        "%r is ambiguous in %s (instants %r) but timestamp() accepted it as %r (rendered from %r)"
                        % (text, zone, [c / 1e6 for c in cands], v, t)))
        elif acc is not None:
            acc.outcome("roundtrip:ambiguous-rejected")
    elif not supported:
        if err is None and abs(v - t) > tol(p):
            bad.append(("untokenizable-zone-name-mapped-to-different-instant",
                        "%r (rendered from %r) parsed as %r" % (text, t, v)))
        elif acc is not None:
            acc.outcome("unsupported:zone-name-with-separator:" + ("rejected" if err is not None else "parsed-exact"))
    else:
        if err is not None:
            bad.append(("roundtrip-rejected:%s" % mode,
                        "%r (rendered from %r in %r, ms=%d; unambiguous) was rejected: %r" % (text, t, zone, p, err)))
        elif abs(v - t) > tol(p):
            bad.append(("roundtrip-different-instant:%s:p%s" % (mode, "<3" if p < 3 else ">=3"),
                        "timestamp(%r).render(%r, ms=%d) -> %r -> parsed %r: off by %.6f s (allowed %g)"
                        % (t, zone, p, text, v, v - t, tol(p))))
        elif acc is not None:
            acc.outcome("roundtrip:%s:ok" % mode)
    return bad


def census_abbreviation(acc, zone, t):
    """Default rendering (zone abbreviation) fed back to timestamp(): documented as unsupported here; count what happens."""
    times = _times()
    try:
        text = times.timestamp(t).render(tzinfo=zone)
    except Exception:
        acc.outcome("abbr:render-exception")
        return
    # the numeric-offset rendering belongs to parse_datetime's grammar; what if it is handed to timestamp() instead?
    for p in (0, 3):
        try:
            num = times.timestamp(t).render(tzinfo=zone, ms=p, tzdetail=False)
            v = times.timestamp(num).value
        except Exception:
            acc.outcome("numeric-offset-text-into-timestamp():rejected")
        else:
            if abs(v - t) <= tol(p):
                acc.outcome("numeric-offset-text-into-timestamp():same-instant")
            else:
                acc.outcome("numeric-offset-text-into-timestamp():DIFFERENT-instant:p=%d" % p)
                acc.note("unsupported (census only): render(ms=False, tzdetail=False) of a zone west of UTC gives e.g. "
                         "'2014-05-05 14:42:21-0700'; timestamp() (grammar 'YYYY-MM-DD HH:MM:SS[.###] [TZ]') reads '-0700' as the "
                         "fraction .0700 of a UTC time -- a different instant, no error; parse_datetime() is the parser for that form")
    abbr = text.rsplit(" ", 1)[-1]
    if abbr == zone:
        acc.outcome("abbr:is-the-zone-name")
        return
    try:
        v = times.timestamp(text).value
    except Exception:
        acc.outcome("abbr:rejected")
        return
    if abs(v - t) <= tol(3):
        acc.outcome("abbr:parsed-as-a-zone-name:same-instant")
    else:
        acc.outcome("abbr:parsed-as-a-zone-name:DIFFERENT-instant")
        acc.outcome("abbr:DIFFERENT-instant:%s" % abbr)
        acc.note("unsupported (census only): a default rendering ends in the abbreviation %r, which timestamp() looks up as the "
                 "*zone* %r and maps to a different instant (see outcomes abbr:*)" % (abbr, abbr))


def check_text(zone, text, acc=None):
    """An oracle-built '<wall> <zone>' text: non-existent/ambiguous => reject; unique => that instant."""
    times = _times()
    rd = read_text(text)
    wall = rd[0]
    cands = wall_instants(wall, zoneinfo.ZoneInfo(zone))
    kind = {0: "nonexistent", 1: "unique", 2: "ambiguous"}[len(cands)]
    if acc is not None:
        acc.outcome("case:text:" + kind)
    try:
        v = times.timestamp(text).value
        err = None
    except Exception as exc:
        v, err = None, exc
    if not name_is_tokenizable(zone):
        if err is None and not any(abs(v - c / 1e6) <= 1e-3 + SLOP for c in cands):
            return [("untokenizable-zone-name-mapped-to-different-instant", "%r parsed as %r; denotes %r" % (text, v, cands))]
        if acc is not None:
            acc.outcome("unsupported:zone-name-with-separator:text-" + ("rejected" if err is not None else "parsed"))
        return []
    if kind == "unique":
        if err is not None:
            return [("text-rejected:unique-walltime", "%r exists exactly once in the zone (%r) but was rejected: %r"
                     % (text, cands[0] / 1e6, err))]
        if abs(v - cands[0] / 1e6) > 1e-3 + SLOP:
            return [("text-different-instant", "%r denotes %r in the zone, parsed as %r (off by %.6f s)"
                     % (text, cands[0] / 1e6, v, v - cands[0] / 1e6))]
    elif err is None:
        return [("%s-walltime-accepted" % kind, "%r is %s in the zone (instants %r) but timestamp() accepted it as %r"
                 % (text, kind, [c / 1e6 for c in cands], v))]
    if acc is not None:
        acc.outcome("text:%s:%s" % (kind, "parsed" if err is None else "rejected"))
    return []


def check_compare(a, b):
    times = _times()
    A, B = times.timestamp(a), times.timestamp(b)
    ra, rb = str(A), str(B)
    try:
        lt, gt, eq, ne, le, ge = A < B, A > B, A == B, A != B, A <= B, A >= B
    except Exception as exc:
        return [("compare-exception", "comparing timestamp(%r) with timestamp(%r) raised %r" % (a, b, exc))], None
    bad = []
    if ra == rb:
        if not (eq and le and ge) or ne or lt or gt:
            bad.append(("compare-equal-renderings-not-equal",
                        "timestamp(%r) and timestamp(%r) both render %r but <,>,==,!=,<=,>= give %r" % (a, b, ra, (lt, gt, eq, ne, le, ge))))
    if lt and ra > rb:
        bad.append(("compare-contradicts-rendering", "timestamp(%r) < timestamp(%r) is True but renderings are %r > %r" % (a, b, ra, rb)))
    if gt and ra < rb:
        bad.append(("compare-contradicts-rendering", "timestamp(%r) > timestamp(%r) is True but renderings are %r < %r" % (a, b, ra, rb)))
    if lt and gt:
        bad.append(("compare-contradicts-rendering", "timestamp(%r) is both < and > timestamp(%r)" % (a, b)))
    # an instant obtained by arithmetic from an (already rendered) timestamp is an instant like any other: its rendering must be
    # the rendering of its value, and comparison must agree with it
    try:
        for label, D in (("+", A + (b - a)), ("-", A - (a - b))):
            fresh = times.timestamp(D.value)
            if str(D) != str(fresh):
                bad.append(("derived-timestamp-renders-stale", "timestamp(%r) %s %r has value %r but renders %r (a fresh timestamp of that "
                            "value renders %r)" % (a, label, abs(b - a), D.value, str(D), str(fresh))))
            if (D < A and str(D) > ra) or (D > A and str(D) < ra):
                bad.append(("compare-contradicts-rendering", "derived timestamp %r vs %r: order contradicts renderings" % (str(D), ra)))
    except Exception as exc:
        bad.append(("compare-exception", "timestamp arithmetic on timestamp(%r) raised %r" % (a, exc)))
    return bad, ("eq-render" if ra == rb else "lt" if lt else "gt" if gt else "eq-within-epsilon")


def compare_class(a, b):
    """oracle-side classification of a pair (for the vacuity guards only)"""
    ka, kb = round(a * 1000), round(b * 1000)
    return "same-ms" if ka == kb else "adjacent-ms" if abs(ka - kb) == 1 else "apart"


UNIT_US = {"y": 31557600 * 10**6, "w": 604800 * 10**6, "d": 86400 * 10**6, "h": 3600 * 10**6, "m": 60 * 10**6,
           "s": 10**6, "ms": 1000, "us": 1}
DUR_TOKEN = re.compile(r"(\d+(?:\.\d+)?)(ms|us|y|w|d|h|m|s)")


def read_duration(text):
    """Independent reading of '1y2w3d4h5m6.789s' / '5ms' / '17us' (a year is 365.25 d as documented); microseconds or None."""
    pos, total = 0, Fraction(0)
    while pos < len(text):
        m = DUR_TOKEN.match(text, pos)
        if not m:
            return None
        total += Fraction(m.group(1)) * UNIT_US[m.group(2)]
        pos = m.end()
    return total


def check_duration(days, seconds, microseconds):
    times = _times()
    d = datetime.timedelta(days=days, seconds=seconds, microseconds=microseconds)
    try:
        text = str(times.duration(d))
        back = times.duration(text).timedelta
    except Exception as exc:
        return [("duration-exception", "duration(%r) format/parse raised %r" % (d, exc))], None
    bad = []
    if back != d:
        bad.append(("duration-roundtrip", "duration(%r) -> %r -> %r" % (d, text, back)))
    want = d // US
    if read_duration(text) != want:
        bad.append(("duration-text-misdenotes", "duration(%r) formats as %r, which reads as %r us, not %d us"
                    % (d, text, read_duration(text), want)))
    try:
        secs = times.parse_seconds(text)
    except Exception as exc:
        bad.append(("duration-exception", "parse_seconds(%r) raised %r" % (text, exc)))
    else:
        if secs != d.total_seconds():
            bad.append(("parse_seconds-duration", "parse_seconds(%r) == %r, not %r" % (text, secs, d.total_seconds())))
    return bad, text


def check_offset(x, ms):
    times = _times()
    try:
        text = times.format_offset(x, ms=ms)
        back = times.parse_offset(text)
    except Exception as exc:
        return [("offset-exception", "format/parse_offset(%r, ms=%r) raised %r" % (x, ms, exc))]
    allowed = (1e-3 if ms else 1.0) + 1e-9
    if abs(back - x) > allowed:
        return [("offset-roundtrip", "format_offset(%r, ms=%r) -> %r -> %r" % (x, ms, text, back))]
    return []


def check_hms(text, want):
    times = _times()
    try:
        got = times.parse_seconds(text)
    except Exception as exc:
        return [("parse_seconds-exception", "parse_seconds(%r) raised %r" % (text, exc))]
    if abs(got - want) > 1e-9 * max(1.0, abs(want)):
        return [("parse_seconds-value", "parse_seconds(%r) == %r, expected %r" % (text, got, want))]
    return []


# ------------------------------------------------------------------------------------------------------------
# enumeration

def offsets_ms(delta_s):
    """instant offsets (ms) around a transition whose shift is delta_s seconds: the DESIGN list + the shift itself"""
    base = [0, 1, 999, 1000, 1800000, 3600000 - 1, 3600000, 3600000 + 1, 7200000]
    d = abs(delta_s) * 1000
    base += [d - 1000, d - 1, d, d + 1, d // 2]
    out = set()
    for b in base:
        out.add(b)
        out.add(-b)
    return sorted(out)


def transition_ticks(T, delta_s, fractions):
    seen = set()
    for off in offsets_ms(delta_s):
        for f in fractions:
            seen.add(T * 10000 + off * 10 + f)
    return sorted(seen)


def fmt_wall(us_wall, spelling):
    """us_wall: naive wall clock as microseconds since 1970 (a label, not an instant); spelling picks the fraction digits"""
    w = datetime.datetime(1970, 1, 1) + datetime.timedelta(microseconds=us_wall)
    s = w.strftime("%Y-%m-%d %H:%M:%S")
    if spelling == "none":
        return s
    if spelling == "ms":
        return s + ".%03d" % (w.microsecond // 1000)
    if spelling == "us":
        return s + ".%06d" % w.microsecond
    if spelling == "tenth":
        return s + ".%d" % (w.microsecond // 100000)
    raise ValueError(spelling)


def texts_for(T, before, after):
    """wall-clock labels in and around the gap (after > before) or fold (after < before) of this transition"""
    d = abs(after - before) * 1000000
    rel = [-1000000, -1000, 0, 1000, 500000, 1000000, d // 2, d - 1000000, d - 1000, d, d + 1000]
    if after > before:                                  # gap: [T+before, T+after)
        lo_wall = (T + before) * 1000000
    else:                                               # fold: [T+after, T+before)
        lo_wall = (T + after) * 1000000
    out = []
    for r in sorted(set(rel)):
        for sp in ("none", "ms", "us", "tenth"):
            us = lo_wall + r
            if sp == "none":
                us -= us % 1000000
            elif sp == "tenth":
                us -= us % 100000
            out.append(fmt_wall(us, sp))
    return sorted(set(out))


def _viol(acc, bad, case):
    for kind, msg in bad:
        acc.violation(kind, case, msg)


def explore_zone(acc, zone, y0, y1, step, fractions, precisions, far_n, census, label, numeric_precisions=None):
    modes = [("name", p) for p in precisions] + [("numeric", p) for p in (numeric_precisions or precisions)]
    zi = zoneinfo.ZoneInfo(zone)
    s0, s1 = epoch_of_year(y0), epoch_of_year(y1)
    trans = scan_transitions(zi, s0, s1, step)
    acc.count("zones_scanned:" + label)
    if trans:
        acc.count("zones_with_transitions:" + label)
    sampled = False
    for T, before, after in trans:
        acc.count("transitions:" + label)
        acc.count("transitions_gap" if after > before else "transitions_fold")
        acc.outcome("shift=%+ds" % (after - before))
        for ticks in transition_ticks(T, after - before, fractions):
            t = ticks_to_float(ticks)
            for mode, p in modes:
                acc.ev()
                acc.ntc()
                bad = check_roundtrip(zone, t, p, mode, acc)
                if bad:
                    _viol(acc, bad, {"op": "roundtrip", "zone": zone, "t": t, "p": p, "mode": mode})
            if census and ticks % 10000 == 0:
                acc.ev()
                census_abbreviation(acc, zone, t)
        for text in texts_for(T, before, after):
            acc.ev()
            acc.ntc()
            bad = check_text(zone, text + " " + zone, acc)
            if bad:
                _viol(acc, bad, {"op": "text", "zone": zone, "text": text + " " + zone})
        if not sampled:
            sampled = True
            acc.sample({"op": "roundtrip", "zone": zone, "t": ticks_to_float(T * 10000 - 4), "p": 3, "mode": "name",
                        "transition_utc": T, "offset_before_s": before, "offset_after_s": after})
    # uniform grid (mostly far from transitions; the oracle classifies every wall time itself, so nothing is assumed)
    if far_n:
        stride = (s1 - s0) // far_n
        for k in range(far_n):
            base = s0 + k * stride + 7 * 3600 + 13 * 60 + 17
            for f in fractions:
                t = ticks_to_float(base * 10000 + f)
                for mode, p in modes:
                    acc.ev()
                    if f:
                        acc.ntc()
                    bad = check_roundtrip(zone, t, p, mode, acc)
                    if bad:
                        _viol(acc, bad, {"op": "roundtrip", "zone": zone, "t": t, "p": p, "mode": mode})
            if census:
                acc.ev()
                census_abbreviation(acc, zone, ticks_to_float(base * 10000))


UTC_FRACTIONS = [0, 1, 4, 5, 6, 9, 10, 11, 14, 15, 16, 4994, 4995, 4996, 5000, 5004, 5005, 9984, 9985, 9989, 9990, 9994, 9995, 9996, 9999]
CMP_CLUSTERS = [range(0, 32), range(9984, 10021)]     # 0.1 ms ticks after the base second: 3.1 ms from :00.0000, 3.6 ms across the next second


def explore_utc(acc, bases):
    for base in bases:
        for f in UTC_FRACTIONS:
            t = ticks_to_float(base * 10000 + f)
            for p in PRECISIONS:
                acc.ev()
                if f:
                    acc.ntc()
                bad = check_roundtrip(None, t, p, "utc", acc)
                if bad:
                    _viol(acc, bad, {"op": "roundtrip", "zone": None, "t": t, "p": p, "mode": "utc"})
    acc.sample({"op": "roundtrip", "zone": None, "t": ticks_to_float(bases[0] * 10000 + 9996), "p": 3, "mode": "utc"})


def explore_compare(acc, bases):
    for base in bases:
        for cluster in CMP_CLUSTERS:
            run = [ticks_to_float(base * 10000 + j) for j in cluster]
            for a in run:
                for b in run:
                    acc.ev()
                    if a != b:
                        acc.ntc()
                    bad, what = check_compare(a, b)
                    acc.outcome("case:compare:" + compare_class(a, b))
                    if what:
                        acc.outcome("compare:" + what)
                    if bad:
                        _viol(acc, bad, {"op": "compare", "a": a, "b": b})
    acc.sample({"op": "compare", "a": ticks_to_float(bases[0] * 10000 + 5), "b": ticks_to_float(bases[0] * 10000 + 15)})


DUR_US = [0, 1, 10, 999, 1000, 1001, 1500, 100000, 500000, 999999]
DUR_S = [0, 1, 59]
DUR_M = [0, 1, 59]
DUR_H = [0, 1, 23]
DUR_D = [0, 1, 6]
DUR_W = [0, 1, 51, 52]
DUR_Y = [0, 1, 2, 100]


def explore_durations(acc, what, arg):
    if what == "product":
        y = arg
        for w, d, h, m, s, us in itertools.product(DUR_W, DUR_D, DUR_H, DUR_M, DUR_S, DUR_US):
            acc.ev()
            seconds = y * 31557600 + w * 604800 + d * 86400 + h * 3600 + m * 60 + s
            if seconds or us:
                acc.ntc()
            bad, text = check_duration(seconds // 86400, seconds % 86400, us)
            acc.outcome("case:duration:" + ("whole-seconds" if not us else "sub-second-only" if not seconds else
                                             "seconds+ms" if us % 1000 == 0 else "seconds+us"))
            acc.outcome("duration:" + ("frac" if text and "." in text else "ms" if text and text.endswith("ms") else
                                        "us" if text and text.endswith("us") else "plain"))
            if bad:
                _viol(acc, bad, {"op": "duration", "days": seconds // 86400, "seconds": seconds % 86400, "microseconds": us})
        acc.sample({"op": "duration", "days": 372, "seconds": 3661, "microseconds": 1001})
    else:
        lo, hi = arg
        for us in range(lo, hi):
            for s in (0, 59):
                acc.ev()
                acc.ntc()
                bad, text = check_duration(0, s, us)
                if bad:
                    _viol(acc, bad, {"op": "duration", "days": 0, "seconds": s, "microseconds": us})


def explore_offsets(acc):
    for sign in (1, -1):
        for h in (0, 1, 9, 10, 23, 99, 100):
            for m in (0, 1, 59):
                for s in (0, 1, 59):
                    for f in (0, 4, 5, 6, 10, 4995, 5000, 9990, 9994, 9995, 9996, 9999):
                        x = sign * ((h * 3600 + m * 60 + s) * 10000 + f) / 10000.0
                        for ms in (True, False):
                            acc.ev()
                            acc.ntc()
                            bad = check_offset(x, ms)
                            acc.outcome("case:offset")
                            if bad:
                                _viol(acc, bad, {"op": "offset", "x": x, "ms": ms})
                            else:
                                acc.outcome("offset:ok")
    for h in ("0", "1", "23", "100"):
        for m in ("00", "01", "59"):
            for s in (None, "00", "01", "59", "00.001", "30.5", "59.999", "07.000001"):
                text = h + ":" + m + ("" if s is None else ":" + s)
                want = float(Fraction(h) * 3600 + Fraction(m) * 60 + (Fraction(s) if s else 0))
                acc.ev()
                acc.ntc()
                bad = check_hms(text, want)
                acc.outcome("case:hms")
                if bad:
                    _viol(acc, bad, {"op": "hms", "text": text, "want": want})
                else:
                    acc.outcome("hms:ok")
    for text, want in (("0", 0.0), ("1.23", 1.23), ("1e3", 1000.0), ("1m30s", 90.0), ("1h", 3600.0), ("250ms", 0.25), (".5s", 0.5)):
        acc.ev()
        bad = check_hms(text, want)
        if bad:
            _viol(acc, bad, {"op": "hms", "text": text, "want": want})


# ------------------------------------------------------------------------------------------------------------

WINDOWS = {"quick": (2022, 2027), "thorough": (2015, 2031)}


def shard(acc, item, tier, seed):
    what = item[0]
    y0, y1 = WINDOWS[tier]
    if what == "zones":
        for zone in item[1]:
            explore_zone(acc, zone, y0, y1, 3600, FRACTIONS, PRECISIONS, 6 if tier == "quick" else 40, True, "main",
                         numeric_precisions=PRECISIONS_EXT if tier == "quick" else None)
    elif what == "zones-ext":
        for zone in item[1]:
            explore_zone(acc, zone, 1970, 2015, 3 * 3600, FRACTIONS_EXT, PRECISIONS_EXT, 0, False, "ext")
            explore_zone(acc, zone, 2031, 2038, 3 * 3600, FRACTIONS_EXT, PRECISIONS_EXT, 0, False, "ext")
    elif what == "utc":
        explore_utc(acc, item[1])
    elif what == "compare":
        explore_compare(acc, item[1])
    elif what == "dur-product":
        explore_durations(acc, "product", item[1])
    elif what == "dur-us":
        explore_durations(acc, "us", item[1])
    elif what == "offsets":
        explore_offsets(acc)
    else:
        raise ValueError(item)


def _grid(y0, y1, n):
    s0, s1 = epoch_of_year(y0), epoch_of_year(y1)
    stride = (s1 - s0) // n
    return [s0 + k * stride + 59 * (k % 61) for k in range(n)]     # seconds 0..59 and minute/hour/day carries all occur


def run(ctx):
    names = sorted(zoneinfo.available_timezones())
    y0, y1 = WINDOWS[ctx.tier]
    items = []
    nshards = 300
    for i in range(nshards):
        chunk = names[i::nshards]
        if chunk:
            items.append(("zones", chunk))
    if not ctx.quick:
        for i in range(200):
            chunk = names[i::200]
            if chunk:
                items.append(("zones-ext", chunk))
    utc = _grid(y0, y1, 220 if ctx.quick else 700)
    # seconds :59 so that .9995 fractions carry through minute, hour, day, month and year ends
    utc += [calendar.timegm(x) for x in ((2023, 12, 31, 23, 59, 59), (2024, 2, 28, 23, 59, 59), (2024, 2, 29, 23, 59, 59),
                                          (2025, 6, 30, 23, 59, 59), (2026, 1, 1, 0, 0, 0), (2024, 3, 10, 9, 59, 59))]
    for i in range(0, len(utc), 12):
        items.append(("utc", utc[i:i + 12]))
    cmpb = _grid(y0, y1, 90 if ctx.quick else 300)
    for i in range(0, len(cmpb), 6):
        items.append(("compare", cmpb[i:i + 6]))
    for y in DUR_Y:
        items.append(("dur-product", y))
    for lo in range(0, 20000, 2500):
        items.append(("dur-us", (lo, lo + 2500)))
    items.append(("offsets",))
    acc = ctx.pmap(__name__, "shard", items)
    acc.count("zones_in_database", len(names))
    acc.count("zones_with_separator_in_name", sum(1 for n in names if not name_is_tokenizable(n)))
    try:
        from cpppo.history import times
        if times.has_pytz_classic:
            acc.note("pytz classic is present: abbreviation support could be exercised, this check does not (census only)")
        else:
            acc.note("pytz classic absent (shim + zoneinfo): timestamp.support_abbreviations unusable as documented; "
                     "abbreviation renderings are a census only")
    except Exception as exc:
        acc.note("could not import cpppo.history.times in the parent: %r" % (exc,))
    return acc


def guards(acc, ctx):
    g = []
    c, o = acc.counters, acc.outcomes
    nz = c.get("zones_in_database", 0)
    if nz < 400:
        g.append("fewer than 400 zones in the offline tz database (%d)" % nz)
    if c.get("zones_scanned:main", 0) != nz:
        g.append("not every zone was scanned (%d of %d)" % (c.get("zones_scanned:main", 0), nz))
    need = 1500 if ctx.quick else 5000
    if c.get("transitions:main", 0) < need:
        g.append("fewer than %d offset transitions found (%d)" % (need, c.get("transitions:main", 0)))
    if c.get("transitions_gap", 0) < 500 or c.get("transitions_fold", 0) < 500:
        g.append("gaps/folds: %d/%d" % (c.get("transitions_gap", 0), c.get("transitions_fold", 0)))
    # guards look only at what the enumeration and the oracle's own classification covered (`case:*`, counters), never at
    # whether cpppo passed -- a broken subject must surface as a VIOLATION, not as a broken check
    for k, n in (("case:name:instant-unique", 100000), ("case:name:instant-in-fold", 10000), ("case:name:untokenizable-name", 1000),
                 ("case:numeric:instant-unique", 100000), ("case:numeric:instant-in-fold", 10000), ("case:utc:instant-unique", 10000),
                 ("case:fraction-rounds-into-next-second", 10000),
                 ("case:text:nonexistent", 1000), ("case:text:ambiguous", 1000), ("case:text:unique", 1000),
                 ("case:compare:same-ms", 1000), ("case:compare:adjacent-ms", 1000), ("case:compare:apart", 1000),
                 ("case:duration:whole-seconds", 100), ("case:duration:sub-second-only", 5), ("case:duration:seconds+ms", 100),
                 ("case:duration:seconds+us", 100), ("case:offset", 1000), ("case:hms", 50)):
        if o.get(k, 0) < n:
            g.append("outcome %r seen %d times, expected >= %d" % (k, o.get(k, 0), n))
    for p in PRECISIONS:
        if o.get("p=%d" % p, 0) < 10000:
            g.append("precision %d exercised only %d times" % (p, o.get("p=%d" % p, 0)))
    if len([k for k in o if k.startswith("shift=")]) < 3:
        g.append("fewer than 3 distinct shift sizes")
    return g


def replay(case):
    op = case["op"]
    if op == "roundtrip":
        bad = check_roundtrip(case["zone"], case["t"], case["p"], case["mode"])
    elif op == "text":
        bad = check_text(case["zone"], case["text"])
    elif op == "compare":
        bad, _ = check_compare(case["a"], case["b"])
    elif op == "duration":
        bad, _ = check_duration(case["days"], case["seconds"], case["microseconds"])
    elif op == "offset":
        bad = check_offset(case["x"], case["ms"])
    elif op == "hms":
        bad = check_hms(case["text"], case["want"])
    else:
        raise ValueError(op)
    return [m for _, m in bad]
