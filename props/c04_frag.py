"""C04 -- fragmented transfers reassemble exactly and every fragment makes progress (E-input, bounded exhaustive).

Subject: the real request path (Connection_Manager.request -> Logix.request/reply_elements) with Logix.MAX_BYTES
scaled down so that every alignment of range end versus budget boundary occurs.
Reads are DRIVEN to completion by the harness (offset advanced by the bytes received, horizon = element count + 1);
write ranges are written with every composition of the range into consecutive fragments (and, for <= 4 fragments,
in every order).
"""
import itertools

from mc import refmodel, sim, wire as W

ID = "C04"
LEVEL = "exploration"
ISOLATE_SHARDS = True        # every shard runs in a forked child of a pristine worker (mc/core.py)
RULE = ("every (element type, reply budget B, tag length n, start i, count c) read transfer driven to completion; every "
        "composition of a write range into consecutive Write Tag Fragmented requests, in every order for <= 4 fragments. "
        "non-trivial = transfers needing >= 2 fragments (reads) / >= 2 fragments (writes); all cases distinct by construction")
BOUNDS = {
    "quick": "types SINT, BOOL, INT, DINT, REAL, LINT, LREAL; B in 1..20 and 488 (n=130/250 for 488); n in {1,2,3,5,8,12}; all i,c; "
             "write compositions for c <= 6 on n=8",
    "thorough": "types SINT, USINT, BOOL, INT, UINT, DINT, UDINT, REAL, LINT, ULINT, LREAL; B in 1..40 and 488; n in 1..24; "
                "write compositions for c <= 8 on n=9",
}
ASSUMPTIONS = ["variable-length string elements and UDT records are outside the property (documented as unsupported for byte offsets)",
               "the optional per-request max_size is not reachable from the wire and is not driven"]


def pattern(t, n):
    if t == W.BOOL:
        return [bool((i * 5 + 1) % 3 == 0) for i in range(n)]
    if t in (W.REAL, W.LREAL):
        return [float(i) + 0.5 for i in range(n)]
    lo, hi = W.INT_RANGE[t]
    return [((i * 37 + 1) % min(hi, 250)) + 1 for i in range(n)]


def read_transfer(S, name, t, n, i, c, B, vals):
    """Drive one Read Tag Fragmented transfer; returns (violations, n_fragments)."""
    bad = []
    sz = W.SIZE[t]
    cap = -(-B // sz) * sz                 # budget rounded up to a whole element
    off, got, frags = 0, [], 0
    want = vals[i:i + c]
    while True:
        if frags > c:
            bad.append(("no-progress", "transfer %s[%d] x%d B=%d: more than %d fragments without completing" % (name, i, c, B, c)))
            break
        req = ("rf", ("sym", name, i if i else None), c, off)
        try:
            rpy = S.cm(refmodel.encode_request(req))
        except Exception as exc:
            bad.append(("fragment-exception", "%r raised %s: %s" % (req, type(exc).__name__, exc)))
            break
        try:
            r = W.dec_read_reply(rpy)
        except W.WireError as e:
            bad.append(("malformed-reply", "%r -> %s: %s" % (req, rpy.hex(), e)))
            break
        frags += 1
        if r["status"] not in (0x00, 0x06):
            bad.append(("fragment-refused", "%r (B=%d, n=%d) refused with status 0x%02x %r after %d fragments"
                        % (req, B, n, r["status"], r["ext"], frags - 1)))
            break
        if r["type"] != t:
            bad.append(("wrong-reply-type", "%r reply type 0x%04x, tag type 0x%04x" % (req, r["type"], t)))
        nbytes = len(r["raw"])
        if nbytes < sz or nbytes % sz:
            bad.append(("not-whole-elements", "%r fragment carries %d bytes (element size %d)" % (req, nbytes, sz)))
            break
        if nbytes > cap:
            bad.append(("over-budget", "%r fragment carries %d bytes > budget %d rounded up to %d" % (req, nbytes, B, cap)))
        got += r["values"]
        off += nbytes
        done = r["status"] == 0x00
        if done:
            break
        if len(got) >= c:
            bad.append(("status-06-at-end", "%r: all %d elements delivered but status is 0x06" % (req, c)))
            break
    if not bad:
        if not refmodel.same_list(want, got):
            bad.append(("wrong-reassembly", "%s[%d] x%d B=%d: fragments concatenate to %r, expected %r" % (name, i, c, B, got, want)))
    return bad, frags


def ranges(n, B, sz):
    """all (start, count) for small tags; for production-size tags the boundary neighbourhood only"""
    if n <= 40:
        for i in range(n):
            for c in range(1, n - i + 1):
                yield i, c
        return
    per = -(-B // sz)
    cs = sorted({c for k in (1, 2) for c in (k * per - 1, k * per, k * per + 1) if 1 <= c} | {1, n})
    for i in (0, 1, 7, n - per, n - 1):
        for c in cs + [n - i]:
            if 0 <= i < n and 1 <= c <= n - i:
                yield i, c


def compositions(c):
    for mask in range(1 << (c - 1)):
        parts, run = [], 1
        for b in range(c - 1):
            if mask >> b & 1:
                parts.append(run)
                run = 1
            else:
                run += 1
        parts.append(run)
        yield parts


def write_transfer(S, model, name, t, n, i, c, parts, order, newvals):
    """Write newvals[0:c] into name[i:i+c] as fragments `parts` issued in `order`; returns violations."""
    bad = []
    sz = W.SIZE[t]
    starts = [sum(parts[:k]) for k in range(len(parts))]
    for k in order:
        chunk = newvals[starts[k]:starts[k] + parts[k]]
        req = ("wf", ("sym", name, i if i else None), t, tuple(chunk), c, starts[k] * sz)
        try:
            rpy = S.cm(refmodel.encode_request(req))
        except Exception as exc:
            bad.append(("fragment-exception", "%r raised %s: %s" % (req, type(exc).__name__, exc)))
            return bad
        for kind, msg in model.judge(req, rpy, None, S.store()):
            bad.append((kind, msg))
        try:
            if W.dec_reply(rpy)["status"] != 0:
                bad.append(("tiling-write-refused", "%r (fragment %d of tiling %r of %s[%d:%d]) refused: %s"
                            % (req, k, parts, name, i, i + c, rpy.hex())))
                return bad
        except W.WireError:
            return bad
    return bad


def shard(acc, item, tier, seed, stop_at=None):
    """stop_at: replay mode -- run this shard's transfers, in order, on a fresh simulator up to and including transfer number
    stop_at (a violation's replay case carries its shard and transfer number, so hidden state accumulated by earlier
    transfers of the shard is reproduced)"""
    what, typ, n, Bs = item
    counter = [0]

    def tag(case):
        case = dict(case)
        case["shard"] = list(item)
        case["upto"] = counter[0]
        return case
    t = W.TYPE_CODE[typ]
    cfg = (("t", typ, n, None), ("g", typ, 2, None))      # g: a neighbour that must never change
    wide = what == "read" and typ != "LREAL"
    if wide:
        cfg += (("w", "LREAL", 2, None),)                 # a tag of the widest element type served by the same Logix object
    S = sim.Sim(cfg)
    M = sim.mods()
    model = refmodel.TagModel(cfg, S.addr_of)
    vals = pattern(t, n)
    try:
        if what == "read":
            if n == 1:
                S.attrs["t"].default = vals[0]
            else:
                S.attrs["t"].default[:] = list(vals)
            if wide:
                wvals = pattern(W.LREAL, 2)
                S.attrs["w"].default[:] = list(wvals)
            model.load_observed(S.store())
            for B in Bs:
                M.logix.Logix.MAX_BYTES = B
                if wide:
                    # the budget is per request: what a transfer of 8-byte elements did under this budget must not leak into the
                    # transfers of narrower elements that follow on the same object
                    bad, _ = read_transfer(S, "w", W.LREAL, 2, 0, 2, B, wvals)
                    for k, m in bad:
                        acc.violation("wide:" + k, tag({"op": "read", "type": "LREAL", "n": 2, "i": 0, "c": 2, "B": B}), m)
                for i, c in ranges(n, B, W.SIZE[t]):
                    if True:
                        counter[0] += 1
                        if stop_at is not None and counter[0] > stop_at:
                            return
                        acc.ev()
                        bad, frags = read_transfer(S, "t", t, n, i, c, B, vals)
                        acc.outcome("fragments=%s" % (frags if frags < 4 else ">=4"))
                        if frags >= 2:
                            acc.ntc()
                        for k, m in bad:
                            acc.violation(k, tag({"op": "read", "type": typ, "n": n, "i": i, "c": c, "B": B}), m)
                if not model.matches(S.store()):
                    acc.violation("read-changed-store", tag({"op": "read", "type": typ, "n": n, "i": 0, "c": 1, "B": B}),
                                  "store changed during read transfers: %r" % (S.store(),))
            acc.sample({"op": "read", "type": typ, "n": n, "i": n // 2, "c": n - n // 2, "B": Bs[0]})
        else:
            maxc = Bs
            base = pattern(t, n)
            newv = [v for v in reversed(pattern(t, n + 3))][:n]
            M.logix.Logix.MAX_BYTES = 488
            for i in range(n):
                for c in range(1, min(maxc, n - i) + 1):
                    for parts in compositions(c):
                        orders = itertools.permutations(range(len(parts))) if len(parts) <= 4 else [tuple(range(len(parts)))]
                        for order in orders:
                            counter[0] += 1
                            if stop_at is not None and counter[0] > stop_at:
                                return
                            # baseline through the real write path
                            for k, m in model.judge(("wt", ("sym", "t", None), t, tuple(base), n),
                                                    S.cm(refmodel.encode_request(("wt", ("sym", "t", None), t, tuple(base), n))),
                                                    None, S.store()):
                                acc.violation("baseline:" + k, tag({"op": "write", "type": typ, "n": n, "i": i, "c": c,
                                                                     "parts": parts, "order": list(order)}), m)
                            acc.ev()
                            if len(parts) >= 2:
                                acc.ntc()
                            acc.outcome("write-fragments=%d" % len(parts))
                            case = {"op": "write", "type": typ, "n": n, "i": i, "c": c, "parts": parts, "order": list(order)}
                            bad = write_transfer(S, model, "t", t, n, i, c, parts, order, newv[i:i + c])
                            want = base[:i] + newv[i:i + c] + base[i + c:]
                            got = list(dict(model.canon(S.store()))["t"])
                            if not bad and not refmodel.same_list(want, got):
                                bad.append(("wrong-tiled-write", "tiling %r order %r of t[%d:%d]: tag holds %r, expected %r"
                                            % (parts, order, i, i + c, got, want)))
                            if list(dict(S.store())["g"]) != [0, 0] and list(dict(S.store())["g"]) != [False, False] \
                                    and list(dict(S.store())["g"]) != [0.0, 0.0]:
                                bad.append(("neighbour-changed", "tiling write changed tag g: %r" % (S.store(),)))
                            for k, m in bad:
                                acc.violation(k, tag(case), m)
            acc.sample({"op": "write", "type": typ, "n": n, "i": 1, "c": min(3, n - 1), "parts": [1, 2][:min(3, n - 1)], "order": [1, 0]})
    finally:
        M.logix.Logix.MAX_BYTES = 488


def run(ctx):
    if ctx.quick:
        types = ["SINT", "BOOL", "INT", "DINT", "REAL", "LINT", "LREAL"]
        ns = [1, 2, 3, 5, 8, 12]
        Bmax, wn, wc = 20, 8, 6
    else:
        types = ["SINT", "USINT", "BOOL", "INT", "UINT", "DINT", "UDINT", "REAL", "LINT", "ULINT", "LREAL"]
        ns = list(range(1, 25))
        Bmax, wn, wc = 40, 9, 8
    items = []
    for typ in types:
        for n in ns:
            Bs = list(range(1, Bmax + 1))
            for k in range(0, len(Bs), 10):
                items.append(("read", typ, n, Bs[k:k + 10]))
        sz = W.SIZE[W.TYPE_CODE[typ]]
        items.append(("read", typ, 488 // sz + 8, [488]))
        items.append(("read", typ, 2 * (488 // sz) + 9, [488, 487]))
        items.append(("write", typ, wn, wc))
    return ctx.pmap(__name__, "shard", items)


def guards(acc, ctx):
    g = []
    for k in ("fragments=1", "fragments=2", "fragments=3", "fragments=>=4", "write-fragments=1", "write-fragments=3"):
        if not acc.outcomes.get(k):
            g.append("outcome %s never observed" % k)
    return g


def replay(case):
    """re-run the violation's shard from its start, on a fresh simulator, up to and including the failing transfer"""
    from mc import core
    acc = core.Acc()
    item = case["shard"]
    item = (item[0], item[1], item[2], item[3] if not isinstance(item[3], list) else list(item[3]))
    shard(acc, item, "thorough", 0, stop_at=case["upto"])
    return [v["msg"] for v in acc.violations if v["case"].get("upto") == case["upto"]]


def preload():
    """import the code under test once in the (pristine) worker; shard children are forked from it"""
    from mc import sim as _sim
    _sim.mods()
