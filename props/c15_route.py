"""C15 -- route-path filtering follows the configured device personality (E-input, full product).

Personalities x request route paths x services, each on a fresh real simulator (whole frames through logix.process), each
request issued twice (a verdict must not depend on the request before it).
Tag accesses are counted by an instrumented Attribute subclass handed in through the supported `attribute_class`
extension point (main()) / the tag's Attribute object (direct configuration).
Second part: textual route paths against an independent reference parser.
Third part: the client side -- sequences of calls on one client object, with its route_path_default changed in between; every request
put on the wire must carry the route path the call spelled (argument, or the client's current default), per the reference decoder.
"""
import itertools
import json

from mc import refcip as R, sim, wire as W

ID = "C15"
LEVEL = "exploration"
ISOLATE_SHARDS = True        # every shard runs in a forked child of a pristine worker (mc/core.py)
RULE = ("full product personality x request route path x service on a freshly configured simulator (UCMM subclass and main() "
        "--route-path/--simple argument parsing); every route-path text of the grammar p/l, p/l/p/l, JSON dict/list, JSON "
        "null/0/false over port and link alphabets. non-trivial = distinct (personality, route path, service) with a route path "
        "present, and distinct route-path texts with >= 1 segment")
BOUNDS = {
    "quick": "13 personalities (3 of them with a non-applicable route table) x 18 request route paths x 5 services, each request twice; every ordered "
             "pair of personalities as two simulators built one after the other in one process x 4 route paths x {read, write}; texts over ports {1,2,14,15,16,255,65535} x links "
             "{0,1,255,'1.2.3.4','10.0.0.10'} in 4 notations, chains of 1..2 segments + chains of 3 over a 4-segment sub-alphabet; "
             "client call sequences of length <= 2",
    "thorough": "same product (it is already complete for the alphabet) + client call sequences of length 3 and connection paths with a trailing CIP path",
}
ASSUMPTIONS = ["no request of the alphabet leads with a hop of a configured [UCMM] Route table (forwarding to a remote device is out of scope): "
               "a request route path is only ever matched against the personality, with and without a (non-applicable) route table",
               "main() restricts --route-path to a single port/link segment; multi-segment personalities are built as UCMM subclasses"]

PL = lambda p, l: {"port": p, "link": l}
PERSONALITIES = [
    ("none", None), ("simple", False),
    ("1/0", [PL(1, 0)]), ("1/1", [PL(1, 1)]), ("2/1.2.3.4", [PL(2, "1.2.3.4")]), ("15/0", [PL(15, 0)]), ("16/3", [PL(16, 3)]),
    ("1/0/2/1.2.3.4", [PL(1, 0), PL(2, "1.2.3.4")]), ("16/3/1/0", [PL(16, 3), PL(1, 0)]), ("empty-list", []),
    # the same personalities on a UCMM that also has a routing table -- whose only entry (9/9) no request of the alphabet leads with:
    # a route table that does not apply must not switch the filtering off
    ("1/0+table", [PL(1, 0)]), ("simple+table", False), ("16/3/1/0+table", [PL(16, 3), PL(1, 0)]),
]
ROUTE_TABLE = {"9/9": "127.0.0.1:1"}
REQUEST_PATHS = [
    None, [], [PL(1, 0)], [PL(1, 1)], [PL(2, 0)], [PL(2, "1.2.3.4")], [PL(2, "1.2.3.5")], [PL(15, 0)], [PL(16, 3)],
    [PL(1, 0), PL(2, "1.2.3.4")], [PL(1, 0), PL(1, 0)], [PL(16, 3), PL(1, 0)], [PL(16, 3), PL(1, 0), PL(1, 0)],
    # link given as a link-ADDRESS string whose text is the digits of a configured numeric link: a different kind of link
    [PL(1, "0")], [PL(1, "1")], [PL(16, "3")], [PL(16, "3"), PL(1, 0)], [PL(1, 0), PL(2, "7")],
]
SERVICES = ["read", "write", "gas", "bundle", "fwdopen"]
CFG = (("a", "INT", 2, None), ("b", "INT", 1, "0x401/1/1"))


def expected_accept(personality, rp):
    if personality is None:
        return True
    if not rp:                       # absent or empty: "carries no route path"
        return True
    if personality is False or personality == []:
        return False
    return rp == personality


def counting_attribute_class():
    M = sim.mods()

    class Counting(M.device.Attribute):
        reads = 0
        writes = 0

        def __getitem__(self, key):
            Counting.reads += 1
            return super().__getitem__(key)

        def __setitem__(self, key, value):
            Counting.writes += 1
            return super().__setitem__(key, value)

    return Counting


def build(pname, personality, how):
    M = sim.mods()
    Counting = counting_attribute_class()
    if how == "main":
        args = []
        if personality is False:
            args = ["-S"]
        elif personality is not None:
            args = ["--route-path=" + json.dumps(personality)]
        S = sim.Sim(CFG, via_main=True, main_args=args, attribute_class=Counting)
    else:
        if personality is None:
            # no personality configured: the library's own UCMM class, nothing said about route_path at all
            U = None
        else:
            class U(M.ucmm.UCMM):
                route_path = personality
                route = dict(ROUTE_TABLE) if pname.endswith("+table") else {}
        S = sim.Sim(CFG, ucmm_class=U, attribute_class=Counting)
    for a in S.attrs.values():
        assert isinstance(a, Counting), "harness: attribute_class not honoured"
    return S, Counting


def request_bytes(service):
    if service == "read":
        return W.read_tag(W.tag_path("a"), 2)
    if service == "write":
        return W.write_tag(W.tag_path("a", 1), W.INT, [7])
    if service == "gas":
        return W.get_attribute_single(W.cia_path(0x401, 1, 1))
    if service == "bundle":
        return W.multiple([W.read_tag(W.tag_path("b"), 1), W.write_tag(W.tag_path("a"), W.INT, [3, 4])])
    if service == "fwdopen":
        return R.forward_open()
    raise ValueError(service)


def check_case(pname, personality, how, rp, service):
    """-> [(kind,msg)], accepted?   The same request is issued twice (each on a session of its own) on one simulator: the verdict
    on a route path must not depend on the route path of the request before it."""
    S, Counting = build(pname, personality, how)
    bad, accepted = [], None
    for attempt in (1, 2):
        b, acc_now = check_once(S, Counting, pname, personality, how, rp, service, attempt)
        bad += b
        if accepted is None:
            accepted = acc_now
        elif acc_now != accepted:
            bad.append(("verdict-depends-on-history", "personality %s (%s) route path %r service %s: %s the first time, %s when repeated"
                        % (pname, how, rp, service, "accepted" if accepted else "refused", "accepted" if acc_now else "refused")))
    return bad, accepted


def check_once(S, Counting, pname, personality, how, rp, service, attempt):
    bad = []
    session = S.register()
    before = S.store()
    Counting.reads = Counting.writes = 0
    frame = R.send_rr_data(session, request_bytes(service), route_path=rp)
    exc = None
    rpy = None
    try:
        rpy, proceed, status = S.frame(frame)
    except Exception as e:
        exc = "%s: %s" % (type(e).__name__, e)
    want = expected_accept(personality, rp)
    accepted = False
    cip = None
    if rpy is not None:
        try:
            f = R.decode_reply_frame(rpy)
        except R.RefDecodeError:
            f = R.decode_reply_frame(rpy, unconnected_send=True)
        if f["status"] == 0 and f["cip"] is not None:
            cip = f["cip"]
            accepted = cip.get("status") == 0
    desc = "personality %s (%s) route path %r service %s (attempt %d)" % (pname, how, rp, service, attempt)
    if want:
        if not accepted:
            bad.append(("acceptable-request-refused", "%s: must be accepted, got %s" % (desc, exc or (rpy.hex() if rpy else None))))
        else:
            after = dict(S.store())
            if service == "read" and cip.get("values") != list(dict(before)["a"]):
                bad.append(("wrong-data", "%s: read returned %r" % (desc, cip.get("values"))))
            if service == "write" and after["a"] != (dict(before)["a"][0], 7):
                bad.append(("wrong-data", "%s: store after write %r" % (desc, after)))
            if service == "bundle" and (after["a"] != (3, 4) or len(cip.get("members", [])) != 2):
                bad.append(("wrong-data", "%s: bundle result %r store %r" % (desc, cip, after)))
            if service == "gas" and bytes(cip.get("data", b"")) != b"\x00\x00":
                bad.append(("wrong-data", "%s: gas returned %r" % (desc, cip.get("data"))))
            if service == "fwdopen" and cip.get("service") != 0xD4:
                bad.append(("wrong-data", "%s: forward open reply %r" % (desc, cip)))
    else:
        if accepted:
            bad.append(("refusable-request-accepted", "%s: must be refused, but was answered with success: %r" % (desc, cip)))
        if rpy is not None and exc is None:
            f0, _ = W.dec_frame(rpy)
            if f0["status"] == 0 and (cip is None or cip.get("status") == 0):
                bad.append(("refusal-without-error-status", "%s: reply carries no error status: %s" % (desc, rpy.hex())))
        if Counting.reads or Counting.writes:
            bad.append(("refused-request-accessed-tags", "%s: refused, yet %d tag reads / %d tag writes were performed"
                        % (desc, Counting.reads, Counting.writes)))
        if S.store() != before:
            bad.append(("refused-request-changed-store", "%s: store %r -> %r" % (desc, before, S.store())))
    return bad, accepted


# ---- route path texts ---------------------------------------------------------------------------------
PORTS = [1, 2, 14, 15, 16, 255, 65535]
LINKS = [0, 1, 255, "1.2.3.4", "10.0.0.10"]
IPV6_LINKS = [("::1", "::1"), ("0:0::1", "::1"), ("2001:DB8::1", "2001:db8::1"), ("2001:db8:0:0:0:0:0:1", "2001:db8::1")]


def texts(tier):
    segs = [(p, l) for p in PORTS for l in LINKS]
    for p, l in segs:
        want = [PL(p, l)]
        yield "%s/%s" % (p, l), want
        yield json.dumps([{"port": p, "link": l}]), want
        yield json.dumps({"port": p, "link": l}), want
        yield json.dumps(["%s/%s" % (p, l)]), want
        yield " %s / %s " % (p, l), want
    # a link address may be spelled in any form the address has; it denotes the address (IPv6: its canonical text)
    for p in (1, 2, 16):
        for spelled, denotes in IPV6_LINKS:
            want = [PL(p, denotes)]
            yield "%s/%s" % (p, spelled), want
            yield json.dumps([{"port": p, "link": spelled}]), want
            yield json.dumps({"port": p, "link": spelled}), want
            yield json.dumps(["%s/%s" % (p, spelled)]), want
            yield json.dumps([{"port": p, "link": spelled}, {"port": 1, "link": 0}]), want + [PL(1, 0)]
            yield "1/0/%s/%s" % (p, spelled), [PL(1, 0)] + want
    for (p, l), (q, m) in itertools.product(segs, repeat=2):
        want = [PL(p, l), PL(q, m)]
        yield "%s/%s/%s/%s" % (p, l, q, m), want
        yield json.dumps([{"port": p, "link": l}, {"port": q, "link": m}]), want
        yield json.dumps(["%s/%s" % (p, l), {"port": q, "link": m}]), want
    if True:
        sub = [(1, 0), (2, "1.2.3.4"), (16, 255), (65535, "10.0.0.10")]
        for a, b, c in itertools.product(sub, repeat=3):
            yield "/".join("%s/%s" % x for x in (a, b, c)), [PL(*a), PL(*b), PL(*c)]
    for falsey, want in (("null", None), ("0", 0), ("false", False), ("[]", [])):
        yield falsey, want


def check_text(text, want):
    M = sim.mods()
    try:
        got = M.device.parse_route_path(text)
    except Exception as exc:
        return [("route-text-rejected", "parse_route_path(%r) raised %s: %s" % (text, type(exc).__name__, exc))]
    norm = got
    if isinstance(got, list):
        norm = [dict(x) if isinstance(x, dict) else x for x in got]
    if norm != want or (want in (None, 0, False) and (norm is not want and not (norm == want and type(norm) is type(want)))):
        return [("route-text-wrong-segments", "parse_route_path(%r) -> %r, the text spells %r" % (text, got, want))]
    if isinstance(want, list) and want and text.lstrip().startswith("["):
        # the already-decoded form (a list, as client.parse_operations / proxy hand it in for every operation): parsing it must
        # give the same segments every time and leave the caller's list alone
        arg = json.loads(text)
        keep = json.loads(text)
        for attempt in (1, 2):
            try:
                got = M.device.parse_route_path(arg)
            except Exception as exc:
                return [("route-list-rejected", "parse_route_path(%r) (attempt %d) raised %s: %s" % (keep, attempt, type(exc).__name__, exc))]
            norm = [dict(x) if isinstance(x, dict) else x for x in got] if isinstance(got, list) else got
            if norm != want:
                return [("route-list-wrong-segments", "parse_route_path(%r) (attempt %d on the same list object) -> %r, expected %r"
                         % (keep, attempt, got, want))]
            # (an element rewritten in place to its canonical form still denotes the same segment: that is not "modified")
            if len(arg) != len(keep) or any(a != k and a != w for a, k, w in zip(arg, keep, want)):
                return [("route-list-argument-modified", "parse_route_path modified its argument: %r -> %r" % (keep, arg))]
    return []


PAIR_PATHS = [None, [PL(1, 0)], [PL(1, 1)], [PL(16, 3), PL(1, 0)]]



# ---- the client side: what route path a request carries --------------------------------------------------
# a step = (new value of the client's route_path_default or KEEP, the route_path argument of the call)
KEEP = "<keep>"
CLIENT_DEFAULTS = [KEEP, "1/0", "2/1.2.3.4", "16/3/1/0", json.dumps([{"port": 3, "link": 7}])]
CLIENT_ARGS = [None, "1/5", [{"port": 2, "link": "10.0.0.10"}], False]
SPELLED = {"1/0": [PL(1, 0)], "2/1.2.3.4": [PL(2, "1.2.3.4")], "16/3/1/0": [PL(16, 3), PL(1, 0)], "1/5": [PL(1, 5)],
           json.dumps([{"port": 3, "link": 7}]): [PL(3, 7)]}


def check_client(steps):
    """One client object, a sequence of calls; every request it puts on the wire must carry the route path its call spelled -- the
    argument, or else the client's CURRENT default (documented as changeable per class or per instance) -- decoded by the reference codec."""
    M = sim.mods()

    class Capture(M.client.client):
        def __init__(self):
            super().__init__(host="localhost", port=44818, udp=True, broadcast=True)      # no connection is made
            self.sent = []

        def send(self, request, timeout=None):
            self.sent.append(bytes(request))

    c = Capture()
    current = "1/0"                    # the documented stock default: port 1 (backplane), link 0 (the CPU slot)
    bad = []
    for i, (newdef, arg) in enumerate(steps):
        if newdef != KEEP:
            c.route_path_default = newdef
            current = newdef
        c.sent = []
        kw = {} if arg is None else ({"route_path": arg, "send_path": ""} if arg is False else {"route_path": arg})
        desc = "call %d of %r (default now %r, argument %r)" % (i + 1, steps, current, arg)
        try:
            c.read("T[0]", elements=1, **kw)
        except Exception as exc:
            bad.append(("client-call-failed", "%s raised %s: %s" % (desc, type(exc).__name__, exc)))
            break
        if len(c.sent) != 1:
            bad.append(("client-frames", "%s put %d frames on the wire" % (desc, len(c.sent))))
            break
        try:
            d = R.decode_request_frame(c.sent[0])
        except Exception as exc:
            bad.append(("client-frame-undecodable", "%s: %s: %s" % (desc, type(exc).__name__, exc)))
            break
        got = (d.get("unconnected_send") or {}).get("route_path")
        if arg is False:
            want = None
        elif arg is None:
            want = SPELLED[current]
        else:
            want = SPELLED[arg] if isinstance(arg, str) else [dict(x) for x in arg]
        if (got or None) != (want or None):
            bad.append(("client-carries-wrong-route-path", "%s: the request carries route path %r, spelled %r" % (desc, got, want)))
    return bad


def client_sequences(tier):
    steps = [(d, a) for d in CLIENT_DEFAULTS for a in CLIENT_ARGS]
    n = 2 if tier == "quick" else 3
    for k in range(1, n + 1):
        for seq in itertools.product(steps, repeat=k):
            yield seq


def shard(acc, item, tier, seed):
    if item[0] == "pairs":
        # two simulators one after the other in ONE process (as a test suite or an embedding application builds them): the second
        # one's personality is its own configuration, whatever the first one was configured with
        _, first = item
        p1 = dict(PERSONALITIES)[first]
        for second, p2 in PERSONALITIES:
            S1, _c = build(first, p1, "class")
            s1 = S1.register()
            try:
                S1.frame(R.send_rr_data(s1, request_bytes("read"), route_path=[PL(2, 0)]))
            except Exception:
                pass
            for rp in PAIR_PATHS:
                for service in ("read", "write"):
                    acc.ev()
                    acc.ntc()
                    bad, accepted = check_case(second, p2, "class", rp, service)
                    acc.outcome("pair:%s" % ("accept" if accepted else "refuse"))
                    for k, m in bad:
                        acc.violation("after-another-simulator:" + k, {"op": "pair", "first": first, "pname": second, "rp": rp, "service": service},
                                      "after a simulator with personality %s in the same process: %s" % (first, m))
        return
    if item[0] == "client":
        _, k, K = item
        for i, seq in enumerate(client_sequences(tier)):
            if i % K != k:
                continue
            acc.ev()
            if len(seq) > 1:
                acc.ntc()
            acc.outcome("client-calls=%d" % len(seq))
            for kind, m in check_client(seq):
                acc.violation(kind, {"op": "client", "steps": [list(x) for x in seq]}, m)
        return
    if item[0] == "cases":
        _, pname, how = item
        personality = dict(PERSONALITIES)[pname]
        for rp in REQUEST_PATHS:
            for service in SERVICES:
                acc.ev()
                if rp:
                    acc.ntc()
                bad, accepted = check_case(pname, personality, how, rp, service)
                acc.outcome("%s:%s" % ("none" if personality is None else ("simple" if not personality else "path"),
                                       "accept" if accepted else "refuse"))
                for k, m in bad:
                    acc.violation(k, {"op": "case", "pname": pname, "how": how, "rp": rp, "service": service}, m)
        acc.sample({"op": "case", "pname": pname, "how": how, "rp": REQUEST_PATHS[5], "service": "write"})
    else:
        _, k, K = item
        for text, want in list(texts(tier))[k::K]:
            acc.ev()
            if want:
                acc.ntc()
            for kind, m in check_text(text, want):
                acc.violation(kind, {"op": "text", "text": text, "want": want}, m)
            acc.outcome("text-segments=%s" % (len(want) if isinstance(want, list) else "falsey"))
        acc.sample({"op": "text", "text": "16/10.0.0.10/1/0", "want": [PL(16, "10.0.0.10"), PL(1, 0)]})


def run(ctx):
    items = []
    for pname, personality in PERSONALITIES:
        items.append(("cases", pname, "class"))
        if "+table" not in pname and (personality is None or personality is False or (personality and len(personality) == 1)):
            items.append(("cases", pname, "main"))
    for pname, _p in PERSONALITIES:
        items.append(("pairs", pname))
    for k in range(8):
        items.append(("texts", k, 8))
    for k in range(4):
        items.append(("client", k, 4))
    return ctx.pmap(__name__, "shard", items)


def guards(acc, ctx):
    g = []
    for k in ("none:accept", "simple:accept", "simple:refuse", "path:accept", "path:refuse", "text-segments=1", "text-segments=2", "text-segments=falsey", "client-calls=1", "client-calls=2"):
        if not acc.outcomes.get(k):
            g.append("outcome %s never observed" % k)
    return g


def replay(case):
    if case["op"] == "pair":
        p1 = dict(PERSONALITIES)[case["first"]]
        S1, _c = build(case["first"], p1, "class")
        try:
            S1.frame(R.send_rr_data(S1.register(), request_bytes("read"), route_path=[PL(2, 0)]))
        except Exception:
            pass
        bad, _ = check_case(case["pname"], dict(PERSONALITIES)[case["pname"]], "class", case["rp"], case["service"])
        return [m for k, m in bad]
    if case["op"] == "client":
        steps = [(a, (b if not isinstance(b, list) else [dict(x) for x in b])) for a, b in case["steps"]]
        return [m for k, m in check_client(steps)]
    if case["op"] == "case":
        bad, _ = check_case(case["pname"], dict(PERSONALITIES)[case["pname"]], case["how"], case["rp"], case["service"])
    else:
        bad = check_text(case["text"], case["want"])
    return [m for k, m in bad]


def preload():
    """import the code under test once in the (pristine) worker; shard children are forked from it"""
    from mc import sim as _sim
    _sim.mods()
