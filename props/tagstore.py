"""Shared machinery of the tag-store explorations (C03, C05, C07): configurations, alphabets, transition runner."""
import itertools

from mc import refmodel, sim, wire as W

TYPES = ["BOOL", "SINT", "INT", "DINT", "LINT", "USINT", "UINT", "UDINT", "ULINT", "REAL", "LREAL", "SSTRING", "STRING"]

VALS = {
    "BOOL": [False, True],
    "SINT": [0, -128, 127], "INT": [0, -32768, 32767], "DINT": [0, -2**31, 2**31 - 1], "LINT": [0, -2**63, 2**63 - 1],
    "USINT": [0, 255, 1], "UINT": [0, 65535, 1], "UDINT": [0, 2**32 - 1, 1], "ULINT": [0, 2**64 - 1, 1],
    "REAL": [0.0, -1.5, 3.4028234663852886e+38], "LREAL": [0.0, -1.5, 1.7976931348623157e308],
    "SSTRING": ["", "a", "bc"], "STRING": ["", "a", "bc"],
}
# widest / boundary values of each request type, for cross-type writes
EDGE = {
    "BOOL": [True, False],
    "SINT": [-128, 127], "INT": [-32768, 32767], "DINT": [-2**31, 2**31 - 1], "LINT": [-2**63, 2**63 - 1],
    "USINT": [255, 1], "UINT": [65535, 256], "UDINT": [2**32 - 1, 65536], "ULINT": [2**64 - 1, 2**32],
    "REAL": [-1.5, 3.4028234663852886e+38], "LREAL": [2.5, 1.7976931348623157e308],
    "SSTRING": ["x"], "STRING": ["xy"],
}

# a small value of each request type that every numeric tag type can hold
SMALL = {"BOOL": True, "SINT": 1, "INT": 1, "DINT": 1, "LINT": 1, "USINT": 1, "UINT": 1, "UDINT": 1, "ULINT": 1, "REAL": 1.0, "LREAL": 1.0,
         "SSTRING": "y", "STRING": "y"}

CLS = 0x401


def config(typ, variant="std"):
    """std: a[3], s (scalar), b[2]@0x401/1/1, c[2]@0x401/1/2 (two tags on one instance)."""
    if variant == "std":
        return (("a", typ, 3, None), ("s", typ, None, None), ("b", typ, 2, "0x401/1/1"), ("c", typ, 2, "0x401/1/2"))
    if variant == "small":
        return (("a", typ, 2, None), ("s", typ, None, None), ("b", typ, 1, "0x401/1/1"), ("c", typ, 2, "0x401/1/2"))
    if variant == "tiny":
        return (("a", typ, 2, None), ("s", typ, None, None), ("b", typ, 1, "0x401/1/1"))
    if variant == "many":    # more than ten tags auto-allocated in one instance (attribute ids 1..12), mixed lengths
        return tuple(("t%d" % i, typ, (None if i % 3 == 0 else 2), None) for i in range(12))
    if variant == "latin":   # ISO-8859-1 names: two names that differ only by sharp-s vs 'ss' are different tags; case-insensitive otherwise
        return (("Ma\xdf", typ, 2, None), ("Mass", typ, 2, None), ("\xd6l", typ, None, None), ("b", typ, 1, "0x401/1/1"))
    if variant == "mixed":   # tags of DIFFERENT element types in one simulator (anything cached across tags/types shows up here)
        return (("i", "INT", 2, None), ("u", "UINT", 2, None), ("d", "DINT", 2, None), ("f", "REAL", 2, None), ("l", "LINT", 2, None),
                ("c", "SINT", 2, None))
    if variant == "alias":   # two names for one attribute, a 16-bit instance id, a tag name with a dot
        return (("a", typ, 2, None), ("b", typ, 2, "0x401/300/1"), ("b2", typ, 2, "0x401/300/1"), ("x.y", typ, None, None))
    raise ValueError(variant)


def othercase(name):
    """the same tag name in the other case, character by character (only characters with a one-to-one ISO-8859-1 case pair)"""
    out = []
    for ch in name:
        u, l = ch.upper(), ch.lower()
        if len(u) == 1 and len(l) == 1 and u != l and ord(u) < 256 and ord(l) < 256:
            out.append(l if ch == u else u)
        else:
            out.append(ch)
    return "".join(out)


def addressings(name, address, how="all"):
    """the ways one tag can be addressed: symbolic, symbolic other case, class/instance/attribute, default attribute"""
    out = [("sym", name), ("sym", othercase(name))]
    c, i, a = address
    out.append(("cia", c, i, a))
    if a == 1:
        out.append(("cia", c, i, None))
    return out


def mk_addr(mode, elm):
    if mode[0] == "sym":
        return ("sym", mode[1], elm)
    return ("cia", mode[1], mode[2], mode[3], elm)


def vectors(vals, k):
    return itertools.product(vals, repeat=k)


def valid_requests(cfg, addr_of, nvals, cross=True):
    """Every well-formed request of the C03 alphabet: (req, closed) -- closed means the successor state stays inside the
    value alphabet and is enqueued by the search; other writes are 'probe' transitions (judged, read back, undone)."""
    for name, typ, length, _ in cfg:
        t = W.TYPE_CODE[typ]
        n = 1 if length is None else length
        vals = VALS[typ][:nvals]
        for mode in addressings(name, addr_of[name]):
            # ---- reads
            for i in range(n):
                for e in range(1, n - i + 1):
                    elms = [i] if i else [None, 0]
                    for elm in elms:
                        yield ("rd", mk_addr(mode, elm), e), True
                        yield ("rf", mk_addr(mode, elm), e, 0), True
            if mode[0] == "cia" and mode[3] is not None:
                yield ("gas", mk_addr(mode, None)), True
            # ---- same-type writes, every start index and value vector
            for i in range(n):
                for k in range(1, n - i + 1):
                    for vec in vectors(vals, k):
                        elm = i if (i or k % 2) else None      # alternate explicit [0] and no element segment
                        yield ("wt", mk_addr(mode, elm), t, vec, None), True
                        yield ("wf", mk_addr(mode, elm), t, vec, None, 0), True
            if mode[0] == "cia" and mode[3] is not None:
                for vec in vectors(vals, n):
                    yield ("sas", mk_addr(mode, None), W.enc_values(t, vec)), True
        # ---- fragmented writes with a byte offset (fixed-size types): element i addressed as offset from element 0
        if t in W.SIZE and n > 1:
            for i in range(1, n):
                for v in vals:
                    yield ("wf", ("sym", name, None), t, (v,), n, i * W.SIZE[t]), True
                    yield ("rf", ("sym", name, None), n, i * W.SIZE[t]), True
        # ---- cross-type writes (converted to the tag's type): probes
        if cross and t not in (W.SSTRING, W.STRING):
            for rtyp in TYPES:
                rt = W.TYPE_CODE[rtyp]
                if rt == t or rt in (W.SSTRING, W.STRING):
                    continue
                for v in EDGE[rtyp]:
                    yield ("wt", ("sym", name, n - 1 if n > 1 else None), rt, (v,), None), False
                    yield ("wf", ("sym", name, None), rt, (v,), None, 0), False


# ------------------------------------------------------------------------------------------------------
class Rig:
    """A live simulator + array model for one configuration; transitions are real requests."""

    def __init__(self, cfg, seam="cm", via_main=False, max_bytes=None):
        self.cfg = tuple(tuple(x) for x in cfg)
        self.sim = sim.Sim(self.cfg, via_main=via_main, max_bytes=max_bytes)
        self.config_problems = list(self.sim.config_problems)
        self.model = refmodel.TagModel(self.cfg, self.sim.addr_of)
        self.seam = seam
        self.session = None
        self.addr = ("127.0.0.1", 10001)
        if seam == "rr":
            self.session = self.sim.register(self.addr)
        self.types = {name: typ for name, typ, _, _ in self.cfg}
        self.log = []            # every request executed on this simulator, in order (replay = re-execute on a fresh one)
        self.second = None       # (session, addr) of a second session on the whole-frame seam, registered on first use
        self.on_second = False

    def execute(self, req):
        """-> (cip_reply or None, exc_text or None)"""
        self.log.append(("@2", req) if self.on_second else req)
        cip = refmodel.encode_request(req)
        if self.seam == "cm":
            try:
                return self.sim.cm(cip, self.addr), None
            except Exception as exc:
                return None, "%s: %s" % (type(exc).__name__, exc)
        try:
            # whole frames always carry the Unconnected Send wrapper (port 1, link 0), as Logix clients send them: a bare
            # Read Tag Fragmented (0x52) would be indistinguishable from the wrapper service itself
            rpy, status, fr = self.sim.rr(self.session, cip, self.addr, route_path=[("port", (1, 0))])
        except Exception as exc:
            self.renew_session()
            return None, "logix.process raised %s: %s" % (type(exc).__name__, exc)
        if rpy is None:
            self.renew_session()
            return None, "encapsulation status 0x%02x" % (status or 0)
        return rpy, None

    def swap_session(self):
        """whole-frame seam: continue on the other of two sessions (the second is registered on first use)"""
        if self.seam != "rr":
            return
        if self.second is None:
            addr2 = ("127.0.0.2", 20002)
            self.second = (self.sim.register(addr2), addr2)
        (self.session, self.addr), self.second = self.second, (self.session, self.addr)
        self.on_second = not self.on_second

    def renew_session(self):
        """after an encapsulation-level error the server ends that session: open a new one on the same peer address"""
        if self.seam == "rr":
            self.session = self.sim.register(self.addr)

    def step(self, req):
        """Execute + judge one request against the model; returns [(kind,msg)] and leaves model == sim (or reports)."""
        rpy, exc = self.execute(req)
        return self.model.judge(req, rpy, exc, self.sim.store())

    def views_of(self, req):
        """every whole-tag read view (Read Tag, Read Tag Fragmented by name; Get Attribute Single by address) of the tag a write
        request addressed: a write must be visible through ALL of them at once, not only through the store"""
        a = req[1]
        if a[0] == "sym":
            names = [n for n in self.types if n.lower() == a[1].lower()]
        else:
            names = [n for n, adr in self.sim.addr_of.items() if tuple(adr[:2]) == tuple(a[1:3]) and (a[3] is None or adr[2] == a[3])]
        for name in names[:1]:
            ln = dict((n, l) for n, _, l, _ in self.cfg)[name]
            n = 1 if ln is None else ln
            c, i, at = self.sim.addr_of[name]
            yield ("gas", ("cia", c, i, at, None))
            yield ("rd", ("sym", name, None), n)
            yield ("rf", ("sym", name, None), n, 0)

    def state(self):
        """canonical (wire-equivalent) form of the simulator's current store"""
        return self.model.canon(self.sim.store())

    def seat(self, state):
        """Bring simulator and model to `state` using real same-type Write Tag requests only; returns violations."""
        bad = []
        cur = dict(self.state())
        done = set()
        for name, vals in state:
            if cur[name] == tuple(vals):
                continue
            addr = self.sim.addr_of[name]
            if addr in done:
                continue
            done.add(addr)
            t = W.TYPE_CODE[self.types[name]]
            n = len(vals)
            req = ("wt", ("sym", name, None), t, tuple(vals), n)
            self.model.load_observed(self.sim.store())
            for k, m in self.step(req):
                bad.append(("seat:" + k, m))
        self.model.load_observed(self.sim.store())
        if tuple((n, tuple(v)) for n, v in state) != self.state():
            bad.append(("seat-failed", "could not re-establish state %r with whole-tag writes; store is %r" % (state, self.sim.store())))
        return bad


def norm_state(store):
    return tuple((n, tuple(v)) for n, v in store)


def detuple(x):
    if isinstance(x, list):
        return tuple(detuple(v) for v in x)
    return x


def replay_history(rig, history):
    """Re-execute a recorded request history on a fresh rig; returns the violation messages of the LAST request (and of any
    earlier one that already violates)."""
    msgs = []
    rig.model.load_observed(rig.sim.store())
    for i, req in enumerate(history):
        req = detuple(req)
        second = req[0] == "@2"
        if second:
            req = req[1]
        if second != rig.on_second:
            rig.swap_session()
        for k, m in rig.step(req):
            msgs.append("%s[request %d of %d] %s" % ("" if i == len(history) - 1 else "(earlier) ", i + 1, len(history), m))
    return msgs


def seat_check(rig, case):
    """for violations raised while re-establishing a state: after the recorded history the store must equal that state"""
    if not case.get("seat_check"):
        return []
    want = tuple((n, tuple(v)) for n, v in case["state"])
    got = rig.state()
    if got != want:
        return ["after the recorded history the store is %r, the state being re-established by whole-tag writes was %r" % (got, want)]
    return []


def representable(state):
    """False if the canonical state holds an element that has no wire form in its tag's type (already reported as a violation where
    it arose; such a state cannot be re-established through the API and is not explored further)"""
    return not any(isinstance(v, tuple) for _, vals in state for v in vals)
