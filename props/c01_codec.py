"""C01 -- wire codec round-trip over the whole EtherNet/IP CIP grammar (E-input, bounded exhaustive).

Subject: cpppo's real parsers and produce methods (server/enip/parser.py, device.py, logix.py, defaults.py).
Oracle : mc/refcip.py, an independent struct-only codec written from the layout tables.  Four-way, all must agree:
  (a) lib.produce(v) == ref.encode(v)        (b) project(lib.parse(ref bytes)) == v
  (c) lib.produce(lib.parse(ref bytes)) == ref bytes        (d) ref.decode(ref.encode(v)) == v
and a value outside a field's range must make lib.produce raise, never emit bytes.
"""
import itertools
import math
import struct

from mc import refcip as R
from mc import c01_adapters as A
from mc.core import HarnessError

ID = "C01"
LEVEL = "exploration"
RULE = ("catalogue of grammar elements x per-field boundary alphabets; every structure up to a size bound (EPATH segment "
        "sequences, CPF item sequences, bundle member sequences, extended status words); composite frames "
        "(encapsulation . command . CPF . [unconnected send] . service) with every combination of <= d fields off "
        "nominal. distinct non-trivial = one (element, value) pair, each generated exactly once, for which cpppo and "
        "the reference codec both had to encode and decode at least one field (the empty-bodied requests count once)")
BOUNDS = {
    "quick": "scalars: 20 types x boundary alphabets; strings 0..255 / 0..65535 bytes; EPATH: every sequence of <=3 segments "
             "over a 34-segment alphabet (40494) + every single segment over a 136-segment boundary alphabet in 4 forms; "
             "status 6 x 0..3 extended words over 3 values; typed data 0..3 elements x 14 types; every request / reply "
             "template with <=2 fields off nominal; bundles of 1..3 members over 8 member kinds; CPF of 0..3 items over "
             "8 item kinds + every item with <=2 fields off nominal; frames/commands <=2 off nominal; composite frames "
             "(plain / Unconnected Send / connected) x 29 services with d<=1; NCP all bit-field combinations; Forward Open "
             "requests produced from decoded connection parameters: 8x8 O_T/T_O sizes x 3 flag sets x service "
             "{deduced, 0x54, 0x5B}",
    "thorough": "as quick, EPATH sequences of <=4 segments (1376830) and composite frames with d<=2; one 65535-byte frame",
}
ASSUMPTIONS = [
    "canonical encodings only for oracle (c): narrowest logical segment, BOOL true 0xFF, zero pads, quiet NaN",
    "cpppo conventions accepted as the grammar where the tables differ (documented in mc/refcip.py): STRING 0xD0 padded "
    "to even, 0x0100 item name = chars + one NUL, Get Attribute List reply body opaque, legacy item 0x0001 layout",
    "32-bit instance segments (0x26) are outside cpppo's grammar: required to be refused by produce and not mis-parsed",
    "a generic (unknown service code) *request* has no cpppo parser (the catch-all parser is the reply parser): only "
    "oracle (a) applies to it",
    "extended status words only with a non-zero general status; STRUCT payloads >= 1 byte; Get Attribute List >= 1 "
    "attribute; successful Get Attribute(s) replies carry >= 1 byte; no replies of unknown services; Read Tag Fragmented "
    "requests only wrapped or connected (a bare 0x52 is ambiguous with Unconnected Send); 0x0100 name = chars + one NUL",
    "Unconnected Send error replies with extended status or general status >= 0x10 are indistinguishable from Read Tag "
    "Fragmented error replies (documented in parser.py) and are not enumerated",
]

# ------------------------------------------------------------------------------------------------
# alphabets (nominal value first)

U8 = [0, 1, 0x7F, 0x80, 0xFE, 0xFF]
U16 = [0, 1, 0xFF, 0x100, 0x7FFF, 0x8000, 0xFFFF]
U32 = [0, 1, 0xFFFF, 0x10000, 0x7FFFFFFF, 0x80000000, 0xFFFFFFFF]
U64 = [0, 1, 0xFFFFFFFF, 0x100000000, 0x7FFFFFFFFFFFFFFF, 0x8000000000000000, 0xFFFFFFFFFFFFFFFF]
INF, NAN = float("inf"), float("nan")
SCALARS = {
    "BOOL": [False, True],
    "SINT": [0, -128, -1, 1, 127], "USINT": U8,
    "INT": [0, -32768, -1, 1, 32767], "UINT": U16, "WORD": U16,
    "DINT": [0, -2 ** 31, -1, 1, 2 ** 31 - 1], "UDINT": U32, "DWORD": U32,
    "LINT": [0, -2 ** 63, -1, 1, 2 ** 63 - 1], "ULINT": U64,
    "REAL": [0.0, -0.0, 1.0, -1.5, 3.4028234663852886e38, 1.401298464324817e-45, INF, -INF, NAN],
    "LREAL": [0.0, -0.0, 1.0, -1.5, 0.1, 1.7976931348623157e308, 5e-324, INF, -INF, NAN],
    "UINT_network": U16, "INT_network": [0, -32768, -1, 32767], "UDINT_network": U32,
    "DINT_network": [0, -2 ** 31, -1, 2 ** 31 - 1], "REAL_network": [0.0, 1.0, -1.5, INF],
    "IPADDR": ["10.0.0.1", "0.0.0.0", "255.255.255.255", "1.2.3.4", "127.0.0.1"],
    "IPADDR_network": ["10.0.0.1", "0.0.0.0", "255.255.255.255", "1.2.3.4", "127.0.0.1"],
}
RANGES = {   # name -> (min, max) for the out-of-range obligation
    "SINT": (-128, 127), "USINT": (0, 255), "INT": (-32768, 32767), "UINT": (0, 65535), "WORD": (0, 65535),
    "DINT": (-2 ** 31, 2 ** 31 - 1), "UDINT": (0, 2 ** 32 - 1), "DWORD": (0, 2 ** 32 - 1),
    "LINT": (-2 ** 63, 2 ** 63 - 1), "ULINT": (0, 2 ** 64 - 1), "UINT_network": (0, 65535),
    "INT_network": (-32768, 32767), "UDINT_network": (0, 2 ** 32 - 1), "DINT_network": (-2 ** 31, 2 ** 31 - 1),
}
TAG_TYPES = ["BOOL", "SINT", "INT", "DINT", "LINT", "USINT", "UINT", "UDINT", "ULINT", "REAL", "LREAL"]
STR_SHORT = ["abc", "", "a", "ab", "caf\xe9", "x" * 254, "y" * 255]
STR_LONG = STR_SHORT + ["z" * 256, "q" * 65534, "r" * 65535]

# the 34-segment alphabet for sequences
SEG34 = ([{"class": 0xFF}, {"class": 0x100}, {"instance": 0xFF}, {"instance": 0x100}, {"attribute": 0xFF},
          {"attribute": 0x100}, {"connection": 0xFF}, {"connection": 0x100}, {"element": 0xFF}, {"element": 0x100},
          {"element": 0xFFFF}, {"element": 0x10000}, {"symbolic": "abc"}, {"symbolic": "abcd"}]
         + [{"port": p, "link": l} for p in (1, 14, 15, 16, 0xFFFF) for l in (0, 255, "1.2.3.4", "10.0.0.10")])
# every single segment over the full boundary alphabet
SEG_ALL = ([{k: v} for k in ("class", "attribute", "connection", "instance") for v in (0, 1, 0x7F, 0x80, 0xFF, 0x100, 0x7FFF, 0xFFFF)]
           + [{"element": v} for v in (0, 1, 0xFF, 0x100, 0xFFFF, 0x10000, 0x7FFFFFFF, 0xFFFFFFFF)]
           + [{"symbolic": s} for s in ("a", "ab", "abc", "SCADA_40001", "x" * 254, "y" * 255, "caf\xe9", "\xff\xfe\x80")]
           + [{"port": p, "link": l} for p in (1, 2, 14, 15, 16, 0xFF, 0x100, 0xFFFF)
              for l in (0, 1, 0x7F, 0xFF, "1", "12", "1.2.3.4", "10.0.0.10", "130.151.137.105", "h" * 254, "h" * 255)])
SEG_UNSUPPORTED = [{"instance": 0x10000}, {"instance": 0xFFFFFFFF}]
EPATH_FORMS = {"EPATH": "sized", "EPATH_padded": "padded", "route_path": "padded", "EPATH_single": "single"}

PATHS = [R.symbolic("SCADA", 12), R.logical(0x6B, 0x100, 1), R.symbolic("a"), R.symbolic("ab.cde"), [],
         R.logical(1, 1, 7), R.symbolic("tag", 0x10000), [{"class": 0x100}, {"instance": 0xFFFF}, {"attribute": 0x100}],
         [{"port": 1, "link": 0}, {"class": 2}, {"instance": 1}], [{"symbolic": "x" * 255}]]
ROUTES = [[{"port": 1, "link": 0}], [], [{"port": 1, "link": 255}], [{"port": 15, "link": 1}],
          [{"port": 2, "link": "1.2.3.4"}, {"port": 1, "link": 0}], [{"port": 0xFFFF, "link": "10.0.0.10"}]]
EXT_WORDS = [0, 0xFFFF, 0x2105]
CONTEXTS = [b"\x00" * 8, b"Funstuff", bytes(range(248, 256))]


def same(a, b):
    """structural equality; NaN == NaN, -0.0 != 0.0, bool != int, str != bytes"""
    if isinstance(a, A.OneOf):
        return any(same(x, b) for x in a)
    if isinstance(a, float) or isinstance(b, float):
        if isinstance(a, bool) or isinstance(b, bool) or not isinstance(a, (int, float)) or not isinstance(b, (int, float)):
            return False
        if isinstance(a, float) and isinstance(b, float):
            return struct.pack("<d", a) == struct.pack("<d", b) or (math.isnan(a) and math.isnan(b))
        return a == b
    if isinstance(a, dict) and isinstance(b, dict):
        return set(a) == set(b) and all(same(a[k], b[k]) for k in a)
    if isinstance(a, (list, tuple)) and isinstance(b, (list, tuple)):
        return len(a) == len(b) and all(same(x, y) for x, y in zip(a, b))
    if isinstance(a, (bytes, bytearray)) and isinstance(b, (bytes, bytearray)):
        return bytes(a) == bytes(b)
    if type(a) != type(b):
        return False
    return a == b


def f32(x):
    return struct.unpack("<f", struct.pack("<f", x))[0]


def hx(b, n=96):
    h = bytes(b).hex()
    return h if len(h) <= 2 * n else h[:2 * n] + "...(%d bytes)" % len(b)


# ------------------------------------------------------------------------------------------------
# element definitions

class Elem:
    """one grammar element: how the reference and the library encode / decode a value v"""
    name = ""
    oracle_bc = True          # library has a parser for it

    def ref_encode(self, v):
        raise NotImplementedError

    def ref_decode(self, b):
        raise NotImplementedError

    def lib_produce(self, v):
        raise NotImplementedError

    def lib_parse(self, b):
        """-> (parsed artifact, complete?)"""
        raise NotImplementedError

    def project(self, p):
        raise NotImplementedError

    def lib_reproduce(self, p):
        raise NotImplementedError

    def causes(self, v):
        """known input features that explain a disagreement (see EXPLAINS): gives each defect ONE stable kind"""
        return []

    def tag(self, v):
        return ""


class Scalar(Elem):
    def __init__(self, name):
        self.name = name

    def cls(self):
        return getattr(A.lib().parser, self.name)

    def ref_encode(self, v):
        return R.encode(self.name, v)

    def ref_decode(self, b):
        return R.decode(self.name, b)

    def lib_produce(self, v):
        return self.cls().produce(v)

    def lib_parse(self, b):
        return A.run(A.machine(self.name, lambda: self.cls()(terminal=True)), b)

    def project(self, p):
        return p[self.name]

    def lib_reproduce(self, p):
        return self.cls().produce(p[self.name])


class Str(Elem):
    def __init__(self, name):
        self.name = name              # SSTRING | STRING

    def cls(self):
        return getattr(A.lib().parser, self.name)

    def ref_encode(self, v):
        return R.encode(self.name.lower(), v)

    def ref_decode(self, b):
        return R.decode(self.name.lower(), b)

    def lib_produce(self, v):
        return self.cls().produce(v)

    def lib_parse(self, b):
        return A.run(A.machine(self.name, lambda: self.cls()(terminal=True)), b)

    def project(self, p):
        c = p[self.name]
        if c["length"] != len(c["string"]):
            raise KeyError("length %r != len(string) %r" % (c["length"], len(c["string"])))
        return c["string"]

    def lib_reproduce(self, p):
        return self.cls().produce(p[self.name])


class IfaceAddrs(Elem):
    name = "IFACEADDRS"

    def ref_encode(self, v):
        return R.encode("ifaceaddrs", v)

    def ref_decode(self, b):
        return R.decode("ifaceaddrs", b)

    def lib_produce(self, v):
        return A.lib().parser.IFACEADDRS.produce(A.dd(v))

    def lib_parse(self, b):
        return A.run(A.machine(self.name, lambda: A.lib().parser.IFACEADDRS(terminal=True)), b)

    def project(self, p):
        return {k: p["IFACEADDRS"][k] for k in ("ip_address", "network_mask", "gateway_address", "dns_primary",
                                                "dns_secondary", "domain_name")}

    def lib_reproduce(self, p):
        return A.lib().parser.IFACEADDRS.produce(p["IFACEADDRS"])


class Epath(Elem):
    def __init__(self, name):
        self.name = name
        self.form = EPATH_FORMS[name]

    def cls(self):
        return getattr(A.lib().parser, self.name)

    def ref_encode(self, v):
        return R.enc_epath(v, self.form)

    def ref_decode(self, b):
        return R.dec_epath(b, self.form)

    def lib_produce(self, v):
        return self.cls().produce(A.dd(A.path_to_lib(v)))

    def lib_parse(self, b):
        return A.run(A.machine(self.name, lambda: self.cls()(terminal=True)), b)

    def project(self, p):
        c = p[self.name]
        segs = A.path_project(c)
        if self.form != "single" and c["size"] * 2 != len(R.enc_epath(segs, "unsized")):
            raise KeyError("size %r inconsistent with segments %r" % (c["size"], segs))
        return segs

    def lib_reproduce(self, p):
        return self.cls().produce(p[self.name])


class Status(Elem):
    name = "status"

    def ref_encode(self, v):
        return R.enc_status(v["status"], v["ext"])

    def ref_decode(self, b):
        return R.dec_status(b)

    def lib_produce(self, v):
        d = {}
        A.status_to_lib(d, v["status"], v["ext"])
        return A.lib().parser.status.produce(A.dd(d))

    def lib_parse(self, b):
        return A.run(A.machine("status", lambda: A.lib().parser.status(terminal=True)), b)

    def project(self, p):
        st, ext = A.status_project(p)
        if p["status_ext.size"] != len(ext):
            raise KeyError("status_ext.size")
        return {"status": st, "ext": ext}

    def lib_reproduce(self, p):
        return A.lib().parser.status.produce(p)



class Typed(Elem):
    """v = {'type': code, 'data': [...]} | {'type': 0x2A0, 'structure_handle', 'data': bytes}"""
    name = "typed_data"

    def ref_encode(self, v):
        return R.enc_typed_data(v["type"], v["data"], v.get("structure_handle"))

    def ref_decode(self, b, v=None):
        out = R.dec_typed_data(v["type"], b)
        if v["type"] == R.STRUCT:
            return dict(out, type=v["type"])
        return {"type": v["type"], "data": out}

    def lib_produce(self, v):
        d = A.typed_to_lib(v["type"], v["data"], v.get("structure_handle"))
        return A.lib().parser.typed_data.produce(A.dd(d), tag_type=v["type"])

    def lib_parse(self, b, v=None):
        code = v["type"]
        m = A.machine(("typed", code), lambda: A.lib().parser.typed_data(tag_type=code, terminal=True))
        return A.run(m, b)

    def project(self, p, v=None):
        c = p["typed_data"] if "typed_data" in p else A.lib().cpppo.dotdict()
        out = A.typed_project(c, v["type"])
        if v["type"] == R.STRUCT:
            return dict(out, type=v["type"])
        return {"type": v["type"], "data": out}

    def lib_reproduce(self, p, v=None):
        c = p["typed_data"] if "typed_data" in p else A.dd({"data": []})
        return A.lib().parser.typed_data.produce(c, tag_type=v["type"])

    def tag(self, v):
        return R.TYPE_NAME[v["type"]]



class Request(Elem):
    """a CIP request dict as refcip defines it"""
    name = "request"

    def ref_encode(self, v):
        return R.enc_request(v)

    def ref_decode(self, b):
        return R.dec_request(b)

    def lib_produce(self, v):
        return A.req_class(v).produce(A.dd(A.req_to_lib(v)))

    def lib_parse(self, b, v=None):
        return A.run(A.req_class(v).parser, b)

    def project(self, p, v=None):
        return A.req_project(p)

    def lib_reproduce(self, p, v=None):
        A.strip_inputs(p)
        return A.req_class(v).produce(p)

    def tag(self, v):
        return "svc%02x" % v["service"]

    def causes(self, v):
        c = []
        svc = v["service"]
        if svc in (0x4D, 0x53) and v["type"] == R.STRUCT:
            c.append("write-STRUCT-handle-produced-after-elements")
        if svc in (0x54, 0x5B):
            large = svc == 0x5B
            ncps = (v["O_T_NCP"], v["T_O_NCP"])
            if large and any(n <= 0xFFFF for n in ncps):
                c.append("forward_open_large-NCP-below-0x10000-decoded-as-small")
            if any(n & (0xFFFF if large and n > 0xFFFF else 0x1FF) == 0 for n in ncps):
                c.append("forward_open-NCP-size0-unproducible-after-parse")
        if svc == 0x0A:
            for m in v["requests"]:
                c += [x for x in self.causes(m) if x not in c]
        return c


class Reply(Request):
    name = "reply"

    def ref_encode(self, v):
        return R.enc_reply(v)

    def ref_decode(self, b):
        return R.dec_reply(b)

    def lib_produce(self, v):
        return A.req_class(v).produce(A.dd(A.rpy_to_lib(v)))

    def project(self, p, v=None):
        return A.rpy_project(p)

    def causes(self, v):
        c = []
        svc = v["service"]
        if svc == 0x83 and v.get("data"):
            c.append("get_attribute_list-reply-parsed-UINT-produced-USINT")
        if svc == 0x8A:
            for m in v.get("replies", []):
                c += [x for x in self.causes(m) if x not in c]
        return c


KNOWN_SERVICES = (0x01, 0x03, 0x0E, 0x10, 0x0A, 0x4C, 0x4D, 0x4E, 0x52, 0x53, 0x54, 0x5B)
# cause -> the oracles it explains
EXPLAINS = {
    "write-STRUCT-handle-produced-after-elements": ("produce-differs", "reproduce-differs"),
    "get_attribute_list-reply-parsed-UINT-produced-USINT": ("reproduce-differs", "reproduce-exception",
                                                            "parse-exception", "parse-incomplete"),
    "forward_open_large-NCP-below-0x10000-decoded-as-small": ("reproduce-differs", "parse-field-differs"),
    "forward_open-NCP-size0-unproducible-after-parse": ("reproduce-exception",),
    "cpf-unrecognized-item-not-length-limited": ("parse-exception", "parse-incomplete", "parse-field-differs",
                                                 "parse-field-missing"),
    "unregister-command-has-no-produce": ("produce-exception", "reproduce-exception"),
    "unconnected_send-error-remaining_path_size-unsupported": ("produce-differs", "parse-incomplete", "parse-exception",
                                                               "parse-field-differs", "parse-field-missing",
                                                               "reproduce-differs"),
}


def kind_of(E, elem, v, oracle):
    for c in E.causes(v):
        if oracle in EXPLAINS.get(c, ()):
            return c
    t = E.tag(v)
    return "%s:%s%s" % (oracle, elem, ":" + t if t else "")


ELEMS = {}
for _n in SCALARS:
    ELEMS[_n] = Scalar(_n)
for _n in ("SSTRING", "STRING"):
    ELEMS[_n] = Str(_n)
for _n in EPATH_FORMS:
    ELEMS[_n] = Epath(_n)
for _e in (IfaceAddrs(), Status(), Typed(), Request(), Reply()):
    ELEMS[_e.name] = _e
NEEDS_V = ("typed_data", "request", "reply")


# ------------------------------------------------------------------------------------------------
# the four-way oracle

def check_value(elem, v):
    """-> list of (kind, message) for one (element, value)"""
    E = ELEMS[elem]
    kw = {"v": v} if elem in NEEDS_V else {}
    bad = []

    def add(oracle, msg):
        bad.append((kind_of(E, elem, v, oracle), "[%s] %s %s: %s" % (oracle, elem, short(v), msg)))

    try:
        rb = E.ref_encode(v)
        back = E.ref_decode(rb, **kw) if elem in ("typed_data", "message") else E.ref_decode(rb)
    except (R.RefEncodeError, R.RefDecodeError) as exc:
        raise HarnessError("reference codec refuses an enumerated value %s %r: %s" % (elem, v, exc))
    if not same(back, v):                                                            # (d)
        raise HarnessError("reference codec does not round-trip %s %r -> %s -> %r" % (elem, v, hx(rb), back))
    lb = None
    try:                                                                             # (a)
        lb = E.lib_produce(v)
    except Exception as exc:
        add("produce-exception", "produce raised %r; reference bytes %s" % (exc, hx(rb)))
    if lb is not None and bytes(lb) != rb:
        add("produce-differs", "produce -> %s, layout tables -> %s" % (hx(lb), hx(rb)))
    if not E.oracle_bc or (elem == "request" and is_generic_request(v)):
        return bad
    parsed = None
    try:                                                                             # (b)
        parsed, complete = E.lib_parse(rb, **kw)
    except Exception as exc:
        add("parse-exception", "parsing %s raised %r" % (hx(rb), exc))
    if parsed is not None:
        if not complete:
            add("parse-incomplete", "parser stopped before the end / in a non-terminal state on %s" % hx(rb))
        else:
            try:
                pv = E.project(parsed, **kw)
            except (KeyError, AttributeError, IndexError, TypeError) as exc:
                pv = None
                add("parse-field-missing", "field %r missing after parsing %s" % (exc, hx(rb)))
            if pv is not None and not same(pv, v):
                add("parse-field-differs", "parsed %r from %s" % (short(pv), hx(rb)))
            try:                                                                     # (c)
                rb2 = E.lib_reproduce(parsed, **kw)
            except Exception as exc:
                rb2 = None
                add("reproduce-exception", "produce(parse(%s)) raised %r" % (hx(rb), exc))
            if rb2 is not None and bytes(rb2) != rb:
                add("reproduce-differs", "produce(parse(bytes)) -> %s, bytes were %s" % (hx(rb2), hx(rb)))
    return bad


def is_generic_request(v):
    return v["service"] not in KNOWN_SERVICES


def short(v):
    s = repr(v)
    return s if len(s) < 300 else s[:300] + "..."


def check_refused(elem, v, field):
    """v has `field` outside its range: produce must raise.  -> [(kind, msg)]"""
    E = ELEMS[elem]
    try:
        R_ok = True
        E.ref_encode(v)
    except R.RefEncodeError:
        R_ok = False
    if R_ok:
        raise HarnessError("reference codec accepts the out-of-range value %s %r" % (elem, v))
    try:
        out = E.lib_produce(v)
    except Exception:
        return []
    return [("silent-truncation:%s:%s" % (elem, field),
             "%s produce accepted out-of-range %s in %s and emitted %s" % (elem, field, short(v), hx(out)))]


def check_unsupported_epath(elem, v):
    """32-bit instance segment: produce must refuse; the parser must not deliver a different path"""
    E = ELEMS[elem]
    bad = []
    try:
        out = E.lib_produce(v)
        if bytes(out) != E.ref_encode(v):
            bad.append(("silent-truncation:%s:instance32" % elem, "produce(%r) -> %s" % (v, hx(out))))
    except Exception:
        pass
    rb = E.ref_encode(v)
    try:
        parsed, complete = E.lib_parse(rb)
        if complete and not same(E.project(parsed), v):
            bad.append(("parse-field-differs:%s:instance32" % elem, "parsed %r from %s" % (parsed, hx(rb))))
    except Exception:
        pass
    return bad


# ------------------------------------------------------------------------------------------------
# enumeration

def deviations(fields, d):
    """fields: ordered {name: [nominal, alt...]} -> every assignment with <= d fields off nominal, once"""
    names = list(fields)
    nominal = {n: fields[n][0] for n in names}
    yield dict(nominal), ()
    for k in range(1, d + 1):
        for combo in itertools.combinations(names, k):
            for alts in itertools.product(*[fields[n][1:] for n in combo]):
                a = dict(nominal)
                a.update(zip(combo, alts))
                yield a, combo


def ext_lists(maxn=3):
    for n in range(maxn + 1):
        for ext in itertools.product(EXT_WORDS, repeat=n):
            yield list(ext)


def typed_values(maxn=3):
    for name in TAG_TYPES:
        code = R.TYPE_CODE[name]
        vals = SCALARS[name]
        if name == "REAL":
            vals = [f32(x) if x == x and abs(x) != INF else x for x in vals]
        for n in range(maxn + 1):
            if n == 0:
                yield {"type": code, "data": []}
            elif n == 1:
                for x in vals:
                    yield {"type": code, "data": [x]}
            else:
                for start in range(len(vals)):
                    yield {"type": code, "data": [(vals + vals)[start + i] for i in range(n)]}
    for code, strs in ((R.SSTRING, STR_SHORT), (R.STRING, STR_SHORT + ["z" * 256])):
        yield {"type": code, "data": []}
        for s in strs:
            yield {"type": code, "data": [s]}
        for a, b in itertools.product(strs[:5], repeat=2):
            yield {"type": code, "data": [a, b]}
        for a, b, c in itertools.product(strs[:4], repeat=3):
            yield {"type": code, "data": [a, b, c]}
    for h in (1, 0xFFFF, 0x8899):
        for raw in (b"\x01", b"\x02\x00\x03\x00", bytes(range(255))):
            yield {"type": R.STRUCT, "structure_handle": h, "data": raw}


def write_payloads():
    """(type, data, structure_handle) for Write Tag bodies / read replies"""
    for name in TAG_TYPES:
        vals = SCALARS[name]
        if name == "REAL":
            vals = [f32(x) if x == x and abs(x) != INF else x for x in vals]
        yield R.TYPE_CODE[name], [vals[1 % len(vals)]], None
        yield R.TYPE_CODE[name], list(vals[:3]), None
        yield R.TYPE_CODE[name], [vals[-1], vals[0]], None
    yield R.SSTRING, ["abc", ""], None
    yield R.STRING, ["abc", "ab"], None
    yield R.STRUCT, b"\x01\x02\x03\x04", 0x8899
    yield R.STRUCT, b"\xff", 1


def request_templates():
    """name -> (fields, build(a) -> request dict)"""
    T = {}
    T["read_tag"] = ({"path": PATHS, "elements": [1] + U16},
                     lambda a: {"service": 0x4C, "path": a["path"], "elements": a["elements"]})
    T["read_frag"] = ({"path": PATHS, "elements": [1] + U16, "offset": U32},
                      lambda a: {"service": 0x52, "path": a["path"], "elements": a["elements"], "offset": a["offset"]})
    pay = list(write_payloads())

    def wr(svc):
        def build(a):
            code, data, handle = a["payload"]
            q = {"service": svc, "path": a["path"], "type": code}
            if handle is not None:
                q["structure_handle"] = handle
            q["elements"] = a["elements"]
            if svc == 0x53:
                q["offset"] = a["offset"]
            q["data"] = data
            return q
        return build
    T["write_tag"] = ({"path": PATHS, "payload": pay, "elements": [1] + U16}, wr(0x4D))
    T["write_frag"] = ({"path": PATHS, "payload": pay, "elements": [1] + U16, "offset": U32}, wr(0x53))
    T["get_attributes_all"] = ({"path": PATHS}, lambda a: {"service": 0x01, "path": a["path"]})
    T["get_attribute_single"] = ({"path": PATHS}, lambda a: {"service": 0x0E, "path": a["path"]})
    T["get_attribute_list"] = ({"path": PATHS, "attributes": [[1, 2, 3], [7], [0], [0xFFFF], [1] * 40]},
                               lambda a: {"service": 0x03, "path": a["path"], "attributes": a["attributes"]})
    T["set_attribute_single"] = ({"path": PATHS, "data": [b"\x01\x00", b"\x00", b"\xff", bytes(range(256))]},
                                 lambda a: {"service": 0x10, "path": a["path"], "data": a["data"]})

    def gen(a):
        q = {"service": a["service"], "path": a["path"]}
        if a["data"]:
            q["data"] = a["data"]
        return q
    T["generic_request"] = ({"service": [0x33, 0x02, 0x4B, 0x7F], "path": PATHS, "data": [b"", b"\x01", b"abc"]}, gen)
    fo = R.dec_request(R.forward_open())
    cps = [fo["connection_path"], [], [{"port": 1, "link": 1}, {"class": 0xA6}, {"instance": 1}, {"connection": 1}],
           [{"symbolic": "abc"}], [{"port": 2, "link": "1.2.3.4"}, {"class": 2}, {"instance": 1}]]

    def fob(svc, ncps):
        fields = {"priority_time_tick": [5] + U8, "timeout_ticks": [157] + U8, "O_T_connection_ID": U32,
                  "T_O_connection_ID": [0x12345678] + U32, "connection_serial": [1] + U16, "O_vendor": [0x1234] + U16,
                  "O_serial": [0x87654321] + U32, "connection_timeout_multiplier": U8,
                  "O_T_RPI": [2000000] + U32, "O_T_NCP": ncps, "T_O_RPI": [2000000] + U32, "T_O_NCP": ncps,
                  "transport_class_triggers": [0xA3] + U8, "connection_path": cps}
        return fields, (lambda a: dict(a, service=svc, path=R.CONNECTION_MANAGER))
    T["forward_open"] = fob(0x54, [0x43F4, 0, 1, 0x1FF, 0x200, 0x43FF, 0x6FFF, 0x8001, 0xEFFF])
    T["forward_open_large"] = fob(0x5B, [0x42000FA0, 0, 1, 0xFFFF, 0x0FA0, 0x02000000, 0x4200FFFF, 0x6E00FFFF, 0x80000001,
                                         0xEE00FFFF])
    T["forward_close"] = ({"priority_time_tick": [5] + U8, "timeout_ticks": [157] + U8, "connection_serial": [1] + U16,
                           "O_vendor": [0x1234] + U16, "O_serial": [0x87654321] + U32, "connection_path": cps},
                          lambda a: dict(a, service=0x4E, path=R.CONNECTION_MANAGER))
    return T


STATUSES = [(0, []), (6, []), (5, []), (0xFF, [0x2105]), (4, [0, 0xFFFF]), (1, [1, 2, 3]), (0x1E, [])]


def reply_templates():
    T = {}
    pay = list(write_payloads())

    def rd(svc):
        def build(a):
            st, ext = a["status"]
            r = {"service": svc, "status": st, "ext": list(ext)}
            if st in (0, 6):
                code, data, handle = a["payload"]
                r["type"] = code
                if handle is not None:
                    r["structure_handle"] = handle
                r["data"] = data
            return r
        return build
    T["read_tag_reply"] = ({"status": STATUSES, "payload": pay}, rd(0xCC))
    T["read_frag_reply"] = ({"status": STATUSES, "payload": pay}, rd(0xD2))

    def plain(svc):
        return lambda a: {"service": svc, "status": a["status"][0], "ext": list(a["status"][1])}
    for nm, svc in (("write_tag_reply", 0xCD), ("write_frag_reply", 0xD3), ("set_attribute_single_reply", 0x90)):
        T[nm] = ({"status": STATUSES}, plain(svc))

    def raw(svc):
        def build(a):
            st, ext = a["status"]
            r = {"service": svc, "status": st, "ext": list(ext)}
            if st == 0 and a["data"]:
                r["data"] = a["data"]
            return r
        return build
    datas = [b"\x01\x00\x02\x00", b"\x00", b"\x07", b"\xff\xfe", bytes(range(256))]
    T["get_attributes_all_reply"] = ({"status": STATUSES, "data": datas}, raw(0x81))
    T["get_attribute_single_reply"] = ({"status": STATUSES, "data": datas}, raw(0x8E))
    T["get_attribute_list_reply"] = ({"status": STATUSES, "data": [b"\x01\x00\x00\x00\x05\x00", b"\x02\x00\x16\x00", b"\xff\xff", b"\x01\x00\x00\x01", b"\x01\x00\x00\x00\x05"]},
                                     raw(0x83))
    apps = [b"", b"\x01\x02", b"abcd", bytes(range(254))]

    def fo_ok(svc):
        return lambda a: dict({k: v for k, v in a.items()}, service=svc, status=0, ext=[])
    ok_fields = {"O_T_connection_ID": [1] + U32, "T_O_connection_ID": [2] + U32, "connection_serial": [3] + U16,
                 "O_vendor": [4] + U16, "O_serial": [5] + U32, "O_T_API": [6] + U32, "T_O_API": [7] + U32,
                 "application": apps}
    T["forward_open_reply"] = (ok_fields, fo_ok(0xD4))
    T["forward_open_large_reply"] = (ok_fields, fo_ok(0xDB))

    def fail(svc):
        def build(a):
            st, ext = a["status"]
            r = {"service": svc, "status": st, "ext": list(ext), "connection_serial": a["connection_serial"],
                 "O_vendor": a["O_vendor"], "O_serial": a["O_serial"]}
            if a["remaining_path_size"] is not None:
                r["remaining_path_size"] = a["remaining_path_size"]
            return r
        return build
    fail_fields = {"status": [(1, [0x0311]), (1, [0x0100]), (0xFF, []), (2, [1, 2])], "connection_serial": U16,
                   "O_vendor": [0xFFFF] + U16, "O_serial": [0x12345678] + U32, "remaining_path_size": [1, None, 0, 0xFF]}
    T["forward_open_failure"] = (fail_fields, fail(0xD4))
    T["forward_close_reply"] = ({"connection_serial": [1] + U16, "O_vendor": [2] + U16, "O_serial": [3] + U32,
                                 "application": apps},
                                lambda a: dict(a, service=0xCE, status=0, ext=[]))
    T["forward_close_failure"] = ({"status": [(1, [0x0100]), (1, []), (0xFF, [0x2105])]},
                                  lambda a: {"service": 0xCE, "status": a["status"][0], "ext": list(a["status"][1])})
    return T


def bundle_members(kind):
    if kind == "request":
        return [{"service": 0x4C, "path": R.symbolic("a"), "elements": 1},
                {"service": 0x52, "path": R.symbolic("SCADA", 12), "elements": 20, "offset": 2},
                {"service": 0x4D, "path": R.symbolic("bcd"), "type": R.INT, "elements": 2, "data": [1, -2]},
                {"service": 0x53, "path": R.symbolic("e"), "type": R.SINT, "elements": 3, "offset": 0, "data": [1, 2, 3]},
                {"service": 0x0E, "path": R.logical(1, 1, 7)},
                {"service": 0x10, "path": R.logical(1, 1, 7), "data": b"\x01"},
                {"service": 0x01, "path": R.logical(1, 1)},
                {"service": 0x03, "path": R.logical(1, 1), "attributes": [1, 2]}]
    return [{"service": 0xCC, "status": 0, "ext": [], "type": R.DINT, "data": [42]},
            {"service": 0xD2, "status": 6, "ext": [], "type": R.SINT, "data": [1, 2, 3]},
            {"service": 0xCD, "status": 0, "ext": []},
            {"service": 0xD3, "status": 0xFF, "ext": [0x2107]},
            {"service": 0xCC, "status": 5, "ext": []},
            {"service": 0x8E, "status": 0, "ext": [], "data": b"\x01\x02\x03"},
            {"service": 0x90, "status": 0, "ext": []},
            {"service": 0xCC, "status": 0, "ext": [], "type": R.SSTRING, "data": ["abc"]}]


# ------------------------------------------------------------------------------------------------
# shards

def _case(acc, elem, v, trivial=False, label=None):
    acc.ev()
    if not trivial:
        acc.ntc()
    bad = check_value(elem, v)
    acc.outcome("%s:%s" % (elem, "agree" if not bad else "disagree"))
    if label:
        acc.outcome("%s:%s" % (label, "agree" if not bad else "disagree"))
    for kind, msg in bad:
        acc.count("viol:" + kind)
        acc.violation(kind, {"op": "value", "elem": elem, "v": repr(v)}, msg)
    return bad


UNSUPPORTED_NOTES = [
    "not enumerated (outside cpppo's supported grammar, decided by input shape): extended status words with general "
    "status 0 (status.produce documents them as allowed for non-zero status only)",
    "not enumerated: STRUCT payloads with zero data bytes; Get Attribute List with zero attributes; successful Get "
    "Attribute(s) replies without data; replies of generic (unknown) services; a bare Read Tag Fragmented (0x52) in an "
    "unconnected data item (ambiguous with Unconnected Send); the 0x0100 item with the table's fixed 16-byte name",
]


def unsupported(acc, what):
    acc.ev()
    acc.outcome("unsupported:" + what)


def _refused(acc, elem, v, field):
    acc.ev()
    acc.ntc()
    bad = check_refused(elem, v, field)
    acc.outcome("out-of-range:%s" % ("refused" if not bad else "ACCEPTED"))
    for kind, msg in bad:
        acc.count("viol:" + kind)
        acc.violation(kind, {"op": "refused", "elem": elem, "v": repr(v), "field": field}, msg)


def shard(acc, item, tier, seed):
    what = item[0]
    quick = tier == "quick"
    d = 1 if quick else 2
    if what == "status":
        for n in UNSUPPORTED_NOTES:
            acc.note(n)
    if what == "scalars":
        for name, vals in SCALARS.items():
            for v in vals:
                if name in ("REAL", "REAL_network") and v == v and abs(v) != INF:
                    v = f32(v)
                _case(acc, name, v)
            if name in RANGES:
                lo, hi = RANGES[name]
                for v in (lo - 1, hi + 1):
                    _refused(acc, name, v, "value")
        _refused(acc, "REAL", 1e39, "value")
        for s in STR_SHORT:
            _case(acc, "SSTRING", s)
        for s in STR_LONG:
            _case(acc, "STRING", s)
        _refused(acc, "SSTRING", "x" * 256, "length")
        _refused(acc, "STRING", "x" * 65536, "length")
        nominal = dict(ip_address="10.0.1.2", network_mask="255.255.0.0", gateway_address="10.0.0.1",
                       dns_primary="10.0.0.1", dns_secondary="10.0.0.2", domain_name="acme.ca")
        fields = {k: [nominal[k], "0.0.0.0", "255.255.255.255", "1.2.3.4"] for k in list(nominal)[:5]}
        fields["domain_name"] = ["acme.ca", "", "a", "ab", "x" * 47, "y" * 48]
        for a, _ in deviations(fields, 2):
            _case(acc, "IFACEADDRS", a)
        acc.sample({"elem": "STRING", "v": "abc"})
    elif what == "status":
        for st in U8:
            for ext in ext_lists(3):
                if st == 0 and ext:
                    unsupported(acc, "status0-with-extended-words")      # decided by shape, cpppo is not run
                    continue
                _case(acc, "status", {"status": st, "ext": ext})
        _refused(acc, "status", {"status": 256, "ext": []}, "status")
        _refused(acc, "status", {"status": -1, "ext": []}, "status")
        _refused(acc, "status", {"status": 1, "ext": [0x10000]}, "ext")
        _refused(acc, "status", {"status": 1, "ext": [0] * 256}, "ext_size")
    elif what == "typed":
        for v in typed_values(3):
            _case(acc, "typed_data", v, trivial=not v["data"])
        for name in TAG_TYPES:
            if name in RANGES:
                lo, hi = RANGES[name]
                for x in (lo - 1, hi + 1):
                    _refused(acc, "typed_data", {"type": R.TYPE_CODE[name], "data": [0, x]}, name)
        _refused(acc, "typed_data", {"type": R.SSTRING, "data": ["x" * 256]}, "SSTRING-length")
        _refused(acc, "typed_data", {"type": R.STRUCT, "structure_handle": 0x10000, "data": b""}, "structure_handle")
        acc.sample({"elem": "typed_data", "v": {"type": R.INT, "data": [1, -2]}})
    elif what == "segments":
        for seg in SEG_ALL:
            for name in EPATH_FORMS:
                _case(acc, name, [seg])
        for name in ("EPATH", "EPATH_padded", "route_path"):
            _case(acc, name, [], trivial=True)
        for seg in SEG_UNSUPPORTED:
            for name in EPATH_FORMS:
                acc.ev()
                acc.ntc()
                for kind, msg in check_unsupported_epath(name, [seg]):
                    acc.violation(kind, {"op": "unsupported", "elem": name, "v": repr([seg])}, msg)
                acc.outcome("instance32:refused")
        for bad, field in (([{"class": 0x10000}], "class"), ([{"attribute": 0x10000}], "attribute"),
                           ([{"connection": 0x10000}], "connection"), ([{"element": 2 ** 32}], "element"),
                           ([{"instance": 2 ** 32}], "instance"), ([{"class": -1}], "class"),
                           ([{"symbolic": "x" * 256}], "symbolic-length"), ([{"port": 0, "link": 0}], "port"),
                           ([{"port": 0x10000, "link": 0}], "port"), ([{"port": 1, "link": 256}], "link"),
                           ([{"port": 1, "link": -1}], "link"), ([{"port": 1, "link": "h" * 256}], "link-length"),
                           ([{"port": -1, "link": 0}], "port"), ([{"symbolic": "y" * 255}] * 2, "size")):
            for name in ("EPATH", "route_path"):
                _refused(acc, name, bad, field)
        acc.sample({"elem": "EPATH", "v": [SEG_ALL[40]]})
    elif what == "paths":
        _, prefix, n = item
        head = [SEG34[i] for i in prefix]
        for tail in itertools.product(SEG34, repeat=n - len(head)):
            p = head + list(tail)
            _case(acc, "EPATH", p)
            if n <= 2:
                _case(acc, "route_path", p)
                _case(acc, "EPATH_padded", p)
        if n == 2:
            acc.sample({"elem": "EPATH", "v": head + [SEG34[12]]})
    elif what == "requests":
        _, tname, k, K = item
        fields, build = request_templates()[tname]
        for a, combo in sliced(deviations(fields, 2), k, K):
            _case(acc, "request", build(a), trivial=tname in ("get_attributes_all", "get_attribute_single") and not a["path"],
                  label="T." + tname)
        if k:
            return
        acc.sample({"elem": "request", "template": tname, "v": build({k: v[0] for k, v in fields.items()})})
        if tname == "read_frag":
            q = build({k: v[0] for k, v in fields.items()})
            _refused(acc, "request", dict(q, elements=0x10000), "elements")
            _refused(acc, "request", dict(q, elements=-1), "elements")
            _refused(acc, "request", dict(q, offset=2 ** 32), "offset")
            _refused(acc, "request", dict(q, path=[{"class": 0x10000}]), "path")
        if tname == "write_frag":
            q = build({k: v[0] for k, v in fields.items()})
            _refused(acc, "request", dict(q, elements=0x10000), "elements")
            _refused(acc, "request", dict(q, type=R.INT, data=[0x8000]), "data")
        if tname == "get_attribute_list":
            _refused(acc, "request", {"service": 3, "path": [], "attributes": [0x10000]}, "attribute")
        if tname == "forward_open":
            q = build({k: v[0] for k, v in fields.items()})
            for f, bad in (("priority_time_tick", 256), ("O_T_connection_ID", 2 ** 32), ("connection_serial", 0x10000),
                           ("O_T_RPI", 2 ** 32), ("transport_class_triggers", 256), ("connection_timeout_multiplier", -1)):
                _refused(acc, "request", dict(q, **{f: bad}), f)
        if tname == "forward_close":
            q = build({k: v[0] for k, v in fields.items()})
            for f, bad in (("timeout_ticks", 256), ("O_vendor", 0x10000), ("O_serial", -1)):
                _refused(acc, "request", dict(q, **{f: bad}), f)
    elif what == "replies":
        _, tname, k, K = item
        fields, build = reply_templates()[tname]
        for a, combo in sliced(deviations(fields, 2), k, K):
            _case(acc, "reply", build(a), label="T." + tname)
        if k:
            return
        acc.sample({"elem": "reply", "template": tname, "v": build({k: v[0] for k, v in fields.items()})})
    elif what == "bundles":
        _, kind, first = item
        mem = bundle_members(kind)
        elem = "request" if kind == "request" else "reply"
        for n in (1, 2, 3):
            for tail in itertools.product(range(len(mem)), repeat=n - 1):
                ms = [mem[first]] + [mem[i] for i in tail]
                if kind == "request":
                    _case(acc, elem, {"service": 0x0A, "path": R.MESSAGE_ROUTER, "requests": ms})
                else:
                    for st in ((0, 0x1E) if n < 3 else (0,)):
                        _case(acc, elem, {"service": 0x8A, "status": st, "ext": [], "replies": ms})
        if kind == "reply" and first == 0:
            for st, ext in ((8, []), (0xFF, [0x2105]), (5, [0, 1, 2])):
                _case(acc, elem, {"service": 0x8A, "status": st, "ext": ext})
    else:
        shard_encap(acc, item, tier, seed)


def split(item, n, per=400):
    K = max(1, -(-n // per))
    return [item + (k, K) for k in range(K)]


def sliced(it, k, K):
    return itertools.islice(it, k, None, K)


def run(ctx):
    items = [("scalars",), ("status",), ("typed",), ("segments",)]
    maxn = 3 if ctx.quick else 4
    for n in range(2, maxn + 1):
        for prefix in itertools.product(range(len(SEG34)), repeat=1 if n < 4 else 2):
            items.append(("paths", prefix, n))
    for t, (fields, _b) in request_templates().items():
        items += split(("requests", t), sum(1 for _ in deviations(fields, 2)))
    for t, (fields, _b) in reply_templates().items():
        items += split(("replies", t), sum(1 for _ in deviations(fields, 2)))
    for kind in ("request", "reply"):
        for first in range(len(bundle_members(kind))):
            items.append(("bundles", kind, first))
    items += encap_items(ctx)
    return ctx.pmap(__name__, "shard", items)


ALL_DISAGREE = ()


def guards(acc, ctx):
    g = []
    if acc.evaluations < 20000:
        g.append("fewer than 20000 cases evaluated (%d)" % acc.evaluations)
    agree = sum(v for k, v in acc.outcomes.items() if k.endswith(":agree"))
    if agree < 0.5 * acc.evaluations:
        g.append("library and reference agree on fewer than half of the cases (%d of %d): harness broken" % (agree, acc.evaluations))
    for elem in list(SCALARS) + ["SSTRING", "STRING", "IFACEADDRS", "EPATH", "route_path", "EPATH_single", "status",
                                 "typed_data", "request", "reply"]:
        if not acc.outcomes.get(elem + ":agree"):
            g.append("no agreeing case for element %s" % elem)
    for elem in ("frame", "command", "CPF", "message", "ncp"):
        if not acc.outcomes.get(elem + ":agree"):
            g.append("no agreeing case for element %s" % elem)
    for shape in ("refused", "promoted", "uniform"):
        if not acc.outcomes.get("fo-decoded:%s:agree" % shape):
            g.append("no agreeing Forward Open from decoded parameters of shape %s" % shape)
    if acc.outcomes.get("out-of-range:refused", 0) < 80:
        g.append("fewer than 80 out-of-range values were refused")
    if acc.outcomes.get("EPATH:agree", 0) < (40000 if ctx.quick else 1300000):
        g.append("too few agreeing EPATH cases (%d)" % acc.outcomes.get("EPATH:agree", 0))
    labels = ["T." + t for t in list(request_templates()) + list(reply_templates())]
    labels += ["I." + k for k in item_templates()]
    labels += ["M.%s.%s" % (i[3], i[1]) for i in encap_items(ctx) if i[0] == "messages"]
    for lab in sorted(set(labels)):
        if not acc.outcomes.get(lab + ":agree") and not acc.outcomes.get(lab + ":disagree"):
            g.append("template %s was not evaluated" % lab)
        elif not acc.outcomes.get(lab + ":agree") and lab not in ALL_DISAGREE:
            g.append("template %s: library and reference never agree" % lab)
    return g


def replay(case):
    v = eval(case["v"], {"inf": INF, "nan": NAN, "__builtins__": {}})
    if case["op"] == "value":
        bad = check_value(case["elem"], v)
    elif case["op"] == "refused":
        bad = check_refused(case["elem"], v, case["field"])
    elif case["op"] == "unsupported":
        bad = check_unsupported_epath(case["elem"], v)
    elif case["op"] == "ncp":
        bad = check_ncp(v)
    elif case["op"] == "fo-decoded":
        bad = check_fo_decoded(v)
    else:
        raise HarnessError("unknown replay op %r" % case.get("op"))
    return ["%s: %s" % b for b in bad]


# ------------------------------------------------------------------------------------------------
# encapsulation layer: frames, commands, CPF, unconnected send, composites

class Frame(Elem):
    """24-byte header + opaque payload: enip_machine / enip_encode"""
    name = "frame"

    def ref_encode(self, v):
        return R.enc_frame(v)

    def ref_decode(self, b):
        return R.dec_frame(b, parse=False)

    def lib_produce(self, v):
        e = A.frame_to_lib(v)
        e["length"] = 0x1234            # a stale .length (as left over from a request) must not matter
        return A.produce_frame(A.dd(e), structured=False)

    def lib_parse(self, b):
        return A.parse_frame(b, structured=False)

    def project(self, p):
        return A.frame_project(p, False)

    def lib_reproduce(self, p):
        return A.lib().parser.enip_encode(p["enip"])

    def tag(self, v):
        return "cmd%04x" % v["command"]


class Command(Elem):
    """a frame whose payload is structured by its command: CIP parser / CIP.produce on top of the header"""
    name = "command"

    def ref_encode(self, v):
        return R.enc_frame(v)

    def ref_decode(self, b):
        return R.dec_frame(b)

    def lib_produce(self, v):
        return A.produce_frame(A.dd(A.frame_to_lib(v)))

    def lib_parse(self, b):
        return A.parse_frame(b)

    def project(self, p):
        return A.frame_project(p, True)

    def lib_reproduce(self, p):
        A.strip_frame_inputs(p)
        return A.produce_frame(p["enip"])

    def tag(self, v):
        return "cmd%04x" % v["command"]

    def causes(self, v):
        pl = v.get("payload")
        c = cpf_causes(pl.get("cpf")) if isinstance(pl, dict) else []
        if v["command"] == 0x66:
            c.append("unregister-command-has-no-produce")
        return c


def cpf_causes(items):
    c = []
    for i, it in enumerate(items or []):
        known = it["type"] in (0, 1, 0x0C, 0xA1, 0xB1, 0xB2, 0x100)
        if not known and i < len(items) - 1 and it.get("data"):
            c.append("cpf-unrecognized-item-not-length-limited")
        if it["type"] == 0xB2 and it.get("data", b"")[:1] == b"\xd2" and len(it["data"]) == 5:
            c.append("unconnected_send-error-remaining_path_size-unsupported")
    return c


class Cpf(Elem):
    name = "CPF"

    def ref_encode(self, v):
        return R.enc_cpf(v)

    def ref_decode(self, b):
        return R.dec_cpf(b)

    def lib_produce(self, v):
        return A.lib().parser.CPF.produce(A.dd(A.cpf_to_lib(v)))

    def lib_parse(self, b):
        return A.run(A.machine("CPF", lambda: A.lib().parser.CPF(terminal=True)), b)

    def project(self, p):
        return A.cpf_project(p["CPF"])

    def lib_reproduce(self, p):
        A.strip_frame_inputs(p)
        return A.lib().parser.CPF.produce(p["CPF"])

    def causes(self, v):
        return cpf_causes(v)


class Message(Elem):
    """composite: frame . SendRRData/SendUnitData . CPF . [Unconnected Send] . CIP request or reply
    v = {session,status,context,options,command,interface,timeout,wrapper:None|{priority,timeout_ticks,route_path,path},
         connection,sequence,is_reply,cip}"""
    name = "message"

    def ref_encode(self, v):
        cip = R.enc_reply(v["cip"]) if v["is_reply"] else R.enc_request(v["cip"])
        w = v["wrapper"]
        if w is not None:
            cip = R.enc_unconnected_send(cip, w["route_path"], w["priority"], w["timeout_ticks"], w["path"])
        if v["command"] == 0x70:
            items = [{"type": 0xA1, "connection": v["connection"]}, {"type": 0xB1, "sequence": v["sequence"], "data": cip}]
        else:
            items = [{"type": 0, "data": b""}, {"type": 0xB2, "data": cip}]
        return R.enc_frame({"command": v["command"], "session": v["session"], "status": v["status"],
                            "context": v["context"], "options": v["options"],
                            "payload": {"interface": v["interface"], "timeout": v["timeout"], "cpf": items}})

    def ref_decode(self, b, v=None):
        f = R.decode_reply_frame(b) if v["is_reply"] else R.decode_request_frame(b)
        out = {k: f[k] for k in ("session", "status", "context", "options", "command")}
        out["interface"] = f["payload"]["interface"]
        out["timeout"] = f["payload"]["timeout"]
        out["wrapper"] = None
        if "unconnected_send" in f:
            u = f["unconnected_send"]
            out["wrapper"] = {k: u[k] for k in ("priority", "timeout_ticks", "route_path", "path")}
        out["connection"] = f.get("connection")
        out["sequence"] = f.get("sequence")
        out["is_reply"] = v["is_reply"]
        cip = dict(f["cip"])
        strip_alias(cip)
        out["cip"] = cip
        return out

    def cls(self, v):
        return A.req_class(v["cip"])

    def lib_produce(self, v):
        cls = self.cls(v)
        inner = cls.produce(A.dd(A.rpy_to_lib(v["cip"]) if v["is_reply"] else A.req_to_lib(v["cip"])))
        req = {"input": bytearray(inner)}
        if v["command"] == 0x70:
            items = [{"type_id": 0xA1, "connection_ID": {"connection": v["connection"]}},
                     {"type_id": 0xB1, "connection_data": {"sequence": v["sequence"], "request": req}}]
        else:
            w = v["wrapper"]
            us = {"request": req}
            if w is not None:
                us.update({"service": 0x52, "path": A.path_to_lib(w["path"]), "priority": w["priority"],
                           "timeout_ticks": w["timeout_ticks"], "route_path": A.path_to_lib(w["route_path"])})
            items = [{"type_id": 0}, {"type_id": 0xB2, "unconnected_send": us}]
        e = {"command": v["command"], "session_handle": v["session"], "status": v["status"],
             "sender_context": {"input": bytearray(v["context"])}, "options": v["options"],
             "CIP": {"send_data": {"interface": v["interface"], "timeout": v["timeout"], "CPF": {"item": items}}}}
        return A.produce_frame(A.dd(e))

    def _request(self, p):
        for item in p["enip.CIP.send_data.CPF.item"]:
            if "unconnected_send.request" in item:
                return item, item["unconnected_send.request"]
            if "connection_data.request" in item:
                return item, item["connection_data.request"]
        return None, None

    def lib_parse(self, b, v=None):
        p, ok = A.parse_frame(b)
        if not ok:
            return p, ok
        item, req = self._request(p)
        if req is None:
            return p, False
        _, ok = A.run(self.cls(v).parser, bytes(bytearray(req["input"])), data=req)
        return p, ok

    def project(self, p, v=None):
        e = p["enip"]
        sd = e["CIP.send_data"]
        out = {"session": e["session_handle"], "status": e["status"],
               "context": bytes(bytearray(e["sender_context.input"])), "options": e["options"], "command": e["command"],
               "interface": sd["interface"], "timeout": sd["timeout"], "wrapper": None, "connection": None,
               "sequence": None, "is_reply": v["is_reply"]}
        items = sd["CPF.item"]
        if sd["CPF.count"] != 2 or len(items) != 2:
            raise KeyError("CPF.count")
        item, req = self._request(p)
        if e["command"] == 0x70:
            if items[0]["type_id"] != 0xA1 or items[1]["type_id"] != 0xB1:
                raise KeyError("item types")
            out["connection"] = items[0]["connection_ID.connection"]
            out["sequence"] = items[1]["connection_data.sequence"]
        else:
            if items[0]["type_id"] != 0 or items[0]["length"] != 0 or items[1]["type_id"] != 0xB2:
                raise KeyError("item types")
            u = items[1]["unconnected_send"]
            if u.get("service") == 0x52:
                out["wrapper"] = {"priority": u["priority"], "timeout_ticks": u["timeout_ticks"],
                                  "route_path": A.path_project(u["route_path"]), "path": A.path_project(u["path"])}
                if u["length"] != len(req["input"]):
                    raise KeyError("unconnected_send.length")
        out["cip"] = A.rpy_project(req) if v["is_reply"] else A.req_project(req)
        return out

    def lib_reproduce(self, p, v=None):
        item, req = self._request(p)
        A.strip_frame_inputs(p)
        A.strip_inputs(req)
        req["input"] = bytearray(self.cls(v).produce(req))
        return A.produce_frame(p["enip"])

    def tag(self, v):
        return "%s-svc%02x" % (transport_of(v), v["cip"]["service"])

    def causes(self, v):
        c = list(ELEMS["reply" if v["is_reply"] else "request"].causes(v["cip"]))
        return c


def transport_of(v):
    return "unit" if v["command"] == 0x70 else ("wrapped" if v["wrapper"] is not None else "plain")


def strip_alias(cip):
    cip.pop("values", None)
    cip.pop("members", None)
    for m in cip.get("replies", []):
        strip_alias(m)


for _e in (Frame(), Command(), Cpf(), Message()):
    ELEMS[_e.name] = _e
NEEDS_V = NEEDS_V + ("message",)

IDENT = {"version": 1, "sin_family": 2, "sin_port": 44818, "sin_addr": "10.161.1.5", "vendor_id": 1, "device_type": 14,
         "product_code": 149, "product_revision": 0x0B1B, "status_word": 0x30, "serial_number": 0x1EC01D31,
         "product_name": "1769-L24ER-QB1B/A LOGIX5324ER", "state": 3}
IPS = ["0.0.0.0", "255.255.255.255", "1.2.3.4"]


def item_templates():
    """kind -> (fields, build)"""
    T = {}
    T["null"] = ({}, lambda a: {"type": 0, "data": b""})
    T["connected_address"] = ({"connection": [0x12345678] + U32}, lambda a: {"type": 0xA1, "connection": a["connection"]})
    T["connected_data"] = ({"sequence": [1] + U16, "data": [b"\xcc\x00\x00\x00", b"\x01", b"\x01\x02", bytes(range(255))]},
                           lambda a: {"type": 0xB1, "sequence": a["sequence"], "data": a["data"]})
    T["unconnected_data"] = ({"data": [b"\x0e\x03\x20\x01\x24\x01\x30\x01", b"\x01", b"\x4c\x02\x91\x01\x61\x00\x01\x00",
                                       bytes(range(1, 255))]},
                             lambda a: {"type": 0xB2, "data": a["data"]})
    idf = {"version": [1] + U16, "sin_family": [2, 0, -1, -32768, 32767], "sin_port": [44818] + U16,
           "sin_addr": ["10.161.1.5"] + IPS, "vendor_id": [1] + U16, "device_type": [14] + U16, "product_code": [149] + U16,
           "product_revision": [0x0B1B] + U16, "status_word": [0x30] + U16, "serial_number": [0x1EC01D31] + U32,
           "product_name": [IDENT["product_name"]] + STR_SHORT, "state": [3] + U8}
    T["identity"] = (idf, lambda a: {"type": 0x0C, "identity": dict(a)})
    T["services"] = ({"version": [1] + U16, "capability": [0x20, 0x120] + U16,
                      "name": ["Communications", "a", "ab", "x" * 15, "caf\xe9"]},
                     lambda a: {"type": 0x100, "version": a["version"], "capability": a["capability"], "name": a["name"]})
    T["legacy"] = ({"version": [1] + U16, "unknown_1": U16, "sin_family": [2, -1], "sin_port": [44818] + U16,
                    "sin_addr": ["192.168.5.253"] + IPS},
                   lambda a: dict(a, type=1, ip_address=a["sin_addr"]))
    T["unrecognized"] = ({"type": [0x8000, 0x0002, 0x00B3, 0xFFFF], "data": [b"xyz", b"", b"\x01", bytes(range(255))]},
                         lambda a: {"type": a["type"], "data": a["data"]})
    return T


def nominal_items():
    out = []
    for k, (fields, build) in item_templates().items():
        out.append(build({n: alts[0] for n, alts in fields.items()}))
    return out


FRAME_FIELDS = {"session": [0x11021E01] + U32, "status": U32, "context": CONTEXTS, "options": U32}


def command_cases(d):
    """structured frames: every command x header deviations x payload deviations"""
    nominal_cpf = {0x04: [{"type": 0x100, "version": 1, "capability": 0x20, "name": "Communications"}],
                   0x63: [{"type": 0x0C, "identity": dict(IDENT)}], 0x64: [],
                   0x01: [{"type": 1, "version": 1, "unknown_1": 0, "sin_family": 2, "sin_port": 44818,
                           "sin_addr": "192.168.5.253", "ip_address": "192.168.5.253"}]}
    for a, _ in deviations(FRAME_FIELDS, d):
        yield dict(a, command=0x66, payload=None)
        for cmd in (0x04, 0x63, 0x64):
            yield dict(a, command=cmd, payload=None)                             # requests: no body
        for cmd, items in nominal_cpf.items():
            yield dict(a, command=cmd, payload={"cpf": items})                    # replies: a CPF
    f = dict(FRAME_FIELDS)
    f.update({"protocol_version": [1] + U16, "reg_options": U16})
    for a, _ in deviations(f, d):
        pv, ro = a.pop("protocol_version"), a.pop("reg_options")
        yield dict(a, command=0x65, payload={"protocol_version": pv, "options": ro})
    f = dict(FRAME_FIELDS)
    f.update({"command": [0x6F, 0x70], "interface": U32, "timeout": [5] + U16,
              "cpf": [[{"type": 0, "data": b""}, {"type": 0xB2, "data": b"\x0e\x03\x20\x01\x24\x01\x30\x01"}], [],
                      [{"type": 0xA1, "connection": 1}, {"type": 0xB1, "sequence": 2, "data": b"\xcc\x00\x00\x00"}]]})
    for a, _ in deviations(f, d):
        yield {"command": a["command"], "session": a["session"], "status": a["status"], "context": a["context"],
               "options": a["options"], "payload": {"interface": a["interface"], "timeout": a["timeout"], "cpf": a["cpf"]}}
    # error frames: a status and no body
    for cmd in (0x65, 0x6F, 0x70):
        yield {"command": cmd, "session": 1, "status": 8, "context": CONTEXTS[1], "options": 0, "payload": None}


USEND_FIELDS = {"message": [b"\x0e\x03\x20\x01\x24\x01\x30\x01", b"\x01", b"\x01\x02", b"\x01\x02\x03",
                            bytes(range(254)), bytes(range(255))],
                "route_path": ROUTES, "priority": [5] + U8, "timeout_ticks": [157] + U8,
                "path": [R.CONNECTION_MANAGER]}


def usend_items(d):
    """0xB2 items holding an Unconnected Send request / error reply, inside [null, 0xB2]"""
    for a, _ in deviations(USEND_FIELDS, d):
        yield [{"type": 0, "data": b""}, {"type": 0xB2, "data": R.enc_unconnected_send(a["message"], a["route_path"], a["priority"],
                                                                           a["timeout_ticks"], a["path"])}]
    for st in (8, 1, 2, 0x0F):
        yield [{"type": 0, "data": b""}, {"type": 0xB2, "data": R.enc_unconnected_send_error(st)}]
    yield [{"type": 0, "data": b""}, {"type": 0xB2, "data": R.enc_unconnected_send_error(1, [], 2)}]


MSG_FIELDS = {"session": [0x11021E01, 0, 0xFFFFFFFF], "status": [0, 0xFFFFFFFF], "context": CONTEXTS,
              "options": [0, 0xFFFFFFFF], "interface": [0, 0xFFFFFFFF], "timeout": [5, 0, 0xFFFF]}
WRAP_FIELDS = {"priority": [5, 0, 0xFF], "timeout_ticks": [157, 0, 0xFF], "route_path": ROUTES[:4]}
UNIT_FIELDS = {"connection": [0x12345678, 0, 0xFFFFFFFF], "sequence": [1, 0, 0xFFFF]}


def trim(fields, n=5):
    """composites take at most n values per service field (nominal + the first alternatives)"""
    return {k: v[:n] for k, v in fields.items()}


def message_cases(tname, is_reply, transport, d):
    fields, build = (reply_templates() if is_reply else request_templates())[tname]
    f = dict(MSG_FIELDS)
    if transport == "wrapped":
        f.update(WRAP_FIELDS)
    elif transport == "unit":
        f.update(UNIT_FIELDS)
    svc_fields = trim(fields)
    f.update({"cip." + k: v for k, v in svc_fields.items()})
    for a, _ in deviations(f, d):
        cip = build({k[4:]: x for k, x in a.items() if k.startswith("cip.")})
        v = {k: a[k] for k in MSG_FIELDS}
        v["command"] = 0x70 if transport == "unit" else 0x6F
        v["wrapper"] = ({"priority": a["priority"], "timeout_ticks": a["timeout_ticks"], "route_path": a["route_path"],
                         "path": R.CONNECTION_MANAGER} if transport == "wrapped" else None)
        v["connection"] = a.get("connection")
        v["sequence"] = a.get("sequence")
        v["is_reply"] = is_reply
        v["cip"] = cip
        yield v


def check_ncp(v):
    """defaults.Connection encode/decode against the bit layout table"""
    C = A.lib().defaults.Connection
    bad = []
    large = v["large"]
    fields = {k: v[k] for k in ("size", "variable", "priority", "type", "redundant")}
    want = R.enc_ncp(fields, large)
    try:
        got = C(large=large, **fields).encoding
        if got != want:
            bad.append(("ncp-encode-differs", "Connection(%r, large=%r).encoding -> 0x%X, table -> 0x%X" % (fields, large, got, want)))
    except Exception as exc:
        bad.append(("ncp-encode-exception", "Connection(%r, large=%r) raised %r" % (fields, large, exc)))
    try:
        dec = dict(C(NCP=want, large=large).decoding)
        got = {k: dec[k] for k in fields}
        if got != fields or dec["NCP"] != want or dec["large"] != large:
            bad.append(("ncp-decode-differs", "Connection(NCP=0x%X, large=%r).decoding -> %r, table -> %r" % (want, large, dec, fields)))
    except Exception as exc:
        bad.append(("ncp-decode-exception", "Connection(NCP=0x%X, large=%r) raised %r" % (want, large, exc)))
    return bad


def shard_encap(acc, item, tier, seed):
    what = item[0]
    d = 1 if tier == "quick" else 2
    if what == "frames":
        f = dict(FRAME_FIELDS)
        f.update({"command": [0x6F] + U16 + [0x65, 0x70, 0x04], "payload": [b"\x01\x02\x03\x04", b"", b"\x01", bytes(range(255)),
                                                                            bytes(range(256))]})
        for a, _ in deviations(f, 2):
            _case(acc, "frame", a)
        if tier != "quick":
            _case(acc, "frame", {"command": 0x6F, "session": 1, "status": 0, "context": CONTEXTS[0], "options": 0,
                                 "payload": b"\xa5" * 65535})
        base = {"command": 0x6F, "session": 1, "status": 0, "context": CONTEXTS[0], "options": 0, "payload": b""}
        for fld, badv in (("command", 0x10000), ("command", -1), ("session", 2 ** 32), ("status", 2 ** 32),
                          ("options", -1), ("payload", b"\x00" * 65536)):
            _refused(acc, "frame", dict(base, **{fld: badv}), fld)
        acc.sample({"elem": "frame", "v": base})
    elif what == "commands":
        for v in command_cases(2):
            _case(acc, "command", v)
        acc.sample({"elem": "command", "v": {"command": 0x65, "payload": {"protocol_version": 1, "options": 0}}})
    elif what == "items":
        _, kind, k, K = item
        fields, build = item_templates()[kind]
        for a, _ in sliced(deviations(fields, 2), k, K):
            _case(acc, "CPF", [build(a)], label="I." + kind)
    elif what == "cpf-seq":
        _, first = item
        noms = nominal_items()
        if first is None:
            _case(acc, "CPF", [], trivial=True)
            acc.ev()
            if ELEMS["CPF"].lib_produce(None) != b"":
                acc.violation("produce-differs:CPF:absent", {"op": "value", "elem": "CPF", "v": "None"}, "absent CPF produced bytes")
            return
        for n in (1, 2, 3):
            for tail in itertools.product(noms, repeat=n - 1):
                _case(acc, "CPF", [noms[first]] + list(tail))
        acc.sample({"elem": "CPF", "v": [noms[first], noms[0]]})
    elif what == "usend":
        for items in usend_items(2):
            _case(acc, "CPF", items)
        _refused(acc, "CPF", [{"type": 0x10000, "data": b""}], "type")
        _refused(acc, "CPF", [{"type": 0x8000, "data": b"\x00" * 65536}], "length")
    elif what == "ncp":
        for large in (False, True):
            for size in ((1, 2, 510, 511) if not large else (1, 511, 512, 4000, 0xFFFF)):
                for var, prio, typ, red in itertools.product((0, 1), (0, 1, 2, 3), (0, 1, 2, 3), (0, 1)):
                    v = {"large": large, "size": size, "variable": var, "priority": prio, "type": typ, "redundant": red}
                    acc.ev()
                    acc.ntc()
                    bad = check_ncp(v)
                    acc.outcome("ncp:%s" % ("agree" if not bad else "disagree"))
                    for kind, msg in bad:
                        acc.count("viol:" + kind)
                        acc.violation(kind, {"op": "ncp", "v": repr(v)}, msg)
    elif what == "fo-decoded":
        for v in fod_cases():
            acc.ev()
            acc.ntc()
            bad = check_fo_decoded(v)
            any_large = v["O_T"]["size"] > 0x1FF or v["T_O"]["size"] > 0x1FF
            mixed = (v["O_T"]["size"] > 0x1FF) != (v["T_O"]["size"] > 0x1FF)
            shape = "refused" if (v["service"] == 0x54 and any_large) else ("promoted" if mixed else "uniform")
            acc.outcome("fo-decoded:%s:%s" % (shape, "agree" if not bad else "disagree"))
            for kind, msg in bad:
                acc.count("viol:" + kind)
                acc.violation(kind, {"op": "fo-decoded", "v": repr(v)}, msg)
        acc.sample({"elem": "forward_open from decoded parameters", "v": {"service": None, "O_T": {"size": 100}, "T_O": {"size": 4000}}})
    elif what == "messages":
        _, tname, is_reply, transport, k, K = item
        for v in sliced(message_cases(tname, is_reply, transport, d), k, K):
            _case(acc, "message", v, label="M.%s.%s" % (transport, tname))
        if tname in ("read_tag", "read_tag_reply") and not k:
            acc.sample({"elem": "message", "template": tname, "transport": transport})
    else:
        raise HarnessError("unknown shard %r" % (item,))


def encap_items(ctx):
    items = [("frames",), ("commands",), ("usend",), ("ncp",), ("fo-decoded",), ("cpf-seq", None)]
    d = 1 if ctx.quick else 2
    for kind, (fields, _b) in item_templates().items():
        items += split(("items", kind), sum(1 for _ in deviations(fields, 2)))
    for first in range(len(nominal_items())):
        items.append(("cpf-seq", first))
    for t in request_templates():
        if t == "generic_request":
            continue                   # no parser for it (see ASSUMPTIONS): element level, oracle (a) only
        if t.startswith("forward_"):
            trans = ("plain", "wrapped")
        elif t == "read_frag":
            trans = ("wrapped", "unit")   # a bare 0x52 in an unconnected data item is ambiguous with Unconnected Send
        else:
            trans = ("plain", "wrapped", "unit")
        for tr in trans:
            items += split(("messages", t, False, tr), sum(1 for _ in message_cases(t, False, tr, d)), 300)
    for t in reply_templates():
        if t == "read_frag_reply":
            trans = ("unit",)          # 0xD2 in an unconnected item is ambiguous with the Unconnected Send error (documented)
        elif t.startswith("forward_"):
            trans = ("plain",)
        else:
            trans = ("plain", "unit")
        for tr in trans:
            items += split(("messages", t, True, tr), sum(1 for _ in message_cases(t, True, tr, d)), 300)
    return items


# ------------------------------------------------------------------------------------------------
# Forward Open requests produced from DECODED connection parameters (the form cpppo's client builds)
#
# Documented rule (defaults.Connection docstring, Connection_Manager.produce comments): a connection given by its
# parameters is Large when size > 0x1FF (or large=True is supplied, required for a Large connection that would also fit
# the Small layout); if the service is not given it is deduced -- 0x5B when EITHER connection is Large, else 0x54 --
# and BOTH connections are re-encoded in that one layout; an explicit 0x54 with a Large connection is refused
# ("Forward Open service code incompatible with T_O or O_T connection size").

FOD_SIZES = [1, 100, 510, 511, 512, 513, 4000, 65535]
FOD_FLAGS = [((1, 0, 2, 0), (1, 0, 2, 0)), ((0, 3, 1, 1), (1, 2, 3, 0)), ((1, 1, 0, 0), (0, 0, 2, 1))]
FOD_KEYS = ("size", "variable", "priority", "type", "redundant")
FOD_FIXED = {"priority_time_tick": 5, "timeout_ticks": 157, "connection_serial": 0x1234, "O_vendor": 0x4321,
             "O_serial": 0x87654321, "connection_timeout_multiplier": 1, "transport_class_triggers": 0xA3}
FOD_PATH = [{"port": 1, "link": 0}, {"class": 2}, {"instance": 1}]


def fod_cases():
    for so, st in itertools.product(FOD_SIZES, repeat=2):
        for fo, ft in FOD_FLAGS:
            for svc in (None, 0x54, 0x5B):
                yield {"service": svc, "O_T": dict(zip(FOD_KEYS, (so,) + fo)), "T_O": dict(zip(FOD_KEYS, (st,) + ft))}


def check_fo_decoded(v):
    L = A.lib()
    CM = L.device.Connection_Manager
    bad = []
    any_large = v["O_T"]["size"] > 0x1FF or v["T_O"]["size"] > 0x1FF
    want_svc = v["service"] if v["service"] is not None else (0x5B if any_large else 0x54)
    refuse = v["service"] == 0x54 and any_large
    large = want_svc == 0x5B

    def conn(c, cid, rpi):
        d = dict(c, connection_ID=cid, RPI=rpi)
        if v["service"] == 0x5B and not any_large:
            d["large"] = True            # the documented way to ask for a Large connection that fits the Small layout
        return d
    req = {"path": A.path_to_lib(R.CONNECTION_MANAGER),
           "forward_open": dict(FOD_FIXED, O_T=conn(v["O_T"], 0x11111111, 2000000), T_O=conn(v["T_O"], 0x22222222, 1000000),
                                connection_path=A.path_to_lib(FOD_PATH))}
    if v["service"] is not None:
        req["service"] = v["service"]

    def add(oracle, msg):
        bad.append(("%s:forward_open-from-decoded-parameters" % oracle, "[%s] forward open %r: %s" % (oracle, v, msg)))
    try:
        lb = bytes(CM.produce(A.dd(req)))
    except Exception as exc:
        if not refuse:
            add("produce-exception", "produce raised %r" % (exc,))
        return bad
    if refuse:
        add("silent-truncation", "explicit Small Forward Open with a connection size > 511 was produced: %s" % hx(lb))
        return bad
    ref = dict(FOD_FIXED, service=want_svc, path=R.CONNECTION_MANAGER, O_T_connection_ID=0x11111111,
               T_O_connection_ID=0x22222222, O_T_RPI=2000000, T_O_RPI=1000000,
               O_T_NCP=R.enc_ncp(v["O_T"], large), T_O_NCP=R.enc_ncp(v["T_O"], large), connection_path=FOD_PATH)
    rb = R.enc_request(ref)
    if R.dec_request(rb) != ref:
        raise HarnessError("reference codec does not round-trip %r" % (ref,))
    if lb != rb:
        add("produce-differs", "produce -> %s, layout tables -> %s" % (hx(lb), hx(rb)))
    try:
        parsed, complete = A.run(CM.parser, rb)
    except Exception as exc:
        add("parse-exception", "parsing %s raised %r" % (hx(rb), exc))
        return bad
    if not complete:
        add("parse-incomplete", "parser stopped early on %s" % hx(rb))
        return bad
    try:
        if not same(A.req_project(parsed), ref):
            add("parse-field-differs", "parsed %s from %s" % (short(A.req_project(parsed)), hx(rb)))
        for side in ("O_T", "T_O"):
            got = {k: parsed["forward_open"][side][k] for k in FOD_KEYS}
            if got != v[side] or bool(parsed["forward_open"][side]["large"]) != large:
                add("parse-field-differs", "%s decoded as %r (large=%r) from %s" % (
                    side, got, parsed["forward_open"][side]["large"], hx(rb)))
    except (KeyError, AttributeError, TypeError) as exc:
        add("parse-field-missing", "field %r missing after parsing %s" % (exc, hx(rb)))
    try:
        rb2 = bytes(CM.produce(parsed))
        if rb2 != rb:
            add("reproduce-differs", "produce(parse(bytes)) -> %s, bytes were %s" % (hx(rb2), hx(rb)))
    except Exception as exc:
        add("reproduce-exception", "produce(parse(%s)) raised %r" % (hx(rb), exc))
    return bad
