"""C20 -- tnetstring serialisation round-trips; the streaming parser agrees with it (E-input, bounded exhaustive).

Subjects (real code, in-process):
  A. cpppo.server.tnetstrings.dump / parse                       (server/tnetstrings.py)
  B. cpppo.server.tnet.tnet_machine driven like tnet_from does   (server/tnet.py over cpppo.automata)
  C. cpppo.server.tnet.tnet_from with `network.recv` scripted     (the incremental receive loop)

Oracles (written from the property statement and the tnetstring grammar quoted in tnet.py's docstring; no cpppo code):
  * `ref_dump`  -- a from-the-spec encoder (SIZE ':' DATA TYPE; '#' int, '^' float, '!' true/false, '~' null,
                   ',' bytes, '$' text as UTF-8 [the library's documented extension], ']' list, '}' dict with
                   byte-string keys).  dump(v) must equal it byte for byte.
  * `same`      -- typed structural equality (bool is not int, bytes is not str, float is not int; dict keys str).
  * `ref_parse` -- a from-the-spec decoder, used only to self-check the reference (a disagreement is a broken
                   check, exit 2, never a VIOLATION).
  parse(dump(v)) must be (v', b'') with same(v, v').  The machine fed dump(v)+tail in any chunking must deliver a
  payload same() as v, have consumed exactly len(dump(v)) symbols when it stops, leave the tail untouched, and (when
  the tail is a message) deliver that message next, again stopping exactly at its end.

Representation facts read from the library (Python 3): str <-> '$' (UTF-8), bytes <-> ','; dict keys are dumped as
',' byte strings of str(key).encode('ascii') and come back as str; tuples are accepted by dump but are not in the
statement's domain (lists) and are not enumerated.
"""
import functools
import itertools

from mc.core import HarnessError

ID = "C20"
LEVEL = "exploration"

RULE = (
    "A (dump/parse): every tree SHAPE (list or dict at each container, 0..k children, container depth <= 3) x leaf "
    "assignments: the full product of the 22-value leaf alphabet for shapes with <= P leaf positions, and for every "
    "shape every assignment with exactly 1 (thorough: 1 or 2) positions -- leaf positions or dict key-tuples -- off the "
    "default; plus all containers of 1..k children over a 46-value extended alphabet and a 'wide' family (child counts / "
    "payload lengths crossing every 1->2->3->4(->5)-digit SIZE boundary). One evaluation = dump + byte compare with "
    "the from-the-grammar encoder + parse + typed compare. Distinct by construction ((shape, assignment) pairs; "
    "assignments already in a full product are skipped by the deviation pass); non-trivial = the value has >= 1 leaf. "
    "B (tnet_machine) / C (tnet_from): every payload of a supported type (, $ # ~) from the leaf alphabet, SIZE-boundary "
    "lengths, and byte/text payloads that are themselves tnetstrings (the dump of every depth<=1 value) x every tail "
    "(none, 0:~, second messages, junk strings) x every feeding (whole, every 2-way cut of message+tail, "
    "byte-at-a-time; thorough: every 3-way cut of streams <= 20 bytes); each is a distinct non-trivial case.")
BOUNDS = {
    "quick": "A: all 26,683 shapes of depth<=3 with <=2 children; full 22-leaf product for <=3 leaf positions (depth<=2) "
             "/ 1 leaf position (depth 3); 1 deviation on every shape over 21 leaf alternatives (depth<=2) / 7 core "
             "alternatives (depth 3) and 5 alternative key tuples; extended alphabet: containers of <=2 children; wide: "
             "0..40 children, payloads of 0..120 and 995..1005 bytes.  B: 27 leaf + 18 SIZE-boundary payloads x 20 "
             "tails, dumps of the 146 depth<=1 values over the 8-leaf core as byte payloads (those with <=1 child also "
             "as text) x 8 tails; feedings: whole, every 2-way cut, bytewise.  C: 13x13 message pairs and 13x12 "
             "message+junk streams through tnet_from, same feedings, with and without a 'nothing yet' recv before every chunk",
    "thorough": "A: same shapes with full product for <=4 leaf positions (depth<=2) / <=2 (depth 3), 1 deviation over 21 "
                "alternatives and 2 deviations over 4 alternatives (+ key tuples) on every shape; shapes with a "
                "3-children container: all 1,526 of depth<=2 (full product <=3 leaves, 1 and 2 deviations over 21 "
                "alternatives) and all 64,328 of depth 3 with <=8 nodes (full product 1 leaf, 1 deviation over 21); "
                "extended alphabet containers of <=3 children; wide: 0..130 and 1000 children, payloads to 10,005 "
                "bytes.  B: byte payloads = dumps of all 1,036 depth<=1 values over the 22-leaf alphabet, every 3-way "
                "cut for streams <= 20 bytes, 4- and 5-digit SIZE payloads (streams > 160 bytes: cuts within 6 bytes of "
                "start / DATA-TYPE boundary / end only).  C: 21x21 pairs and 21x12 message+junk streams",
}
ASSUMPTIONS = [
    "Python 3 representation: text is str ('$', UTF-8), byte strings are bytes (','); default encoding='utf-8' for dump and parse",
    "domain of the statement only: no NaN (nan != nan), no tuples, dict keys are distinct ASCII str",
    "the machine is driven the way tnet_from / tnet_test drive it: `with machine: for m,s in machine.run(source=chainable, data=dotdict)`, "
    "more input chained only when the machine reports a non-transition with an empty source; payload read at data.tnet.type.input",
    "tnet_from is run with timeout=None, latency=None, ignore=None and `network.recv` replaced by a script (chunks, optional None, then EOF)",
    "a machine object is re-used for the feedings of one (payload, tail) pair (as tnet_from re-uses its engine); any failure is re-judged on a fresh machine",
]

# ------------------------------------------------------------------------------------------------
# alphabets

INTS = [0, -1, 10, 255, 2 ** 63]
FLOATS = [0.0, -1.5, 1e300, float("inf")]
BOOLS = [True, False]
BYTES = [b"", b":", b"5:", b",", b"]", b"3:abc,", b"\x00\xff"]
TEXT = ["", "é", "€:"]
LEAVES = INTS + FLOATS + BOOLS + [None] + BYTES + TEXT          # 22
DEFAULT_INDEX = 2
DEFAULT = LEAVES[DEFAULT_INDEX]                                   # the int 10
CORE = [10, -1, float("inf"), True, None, b"5:", b"3:abc,", "€:"]  # one per type, default first
EXT = LEAVES + [-2 ** 63, 2 ** 64 + 1, 99999999999, float("-inf"), 1e-05, 0.1, 0.1 + 0.2, 123456789.125,
                b"0:~", b"#", b"}", b"$", b"~", b"^", b"!", b"12:", b"\n", b"4:true!",
                "1:a,", "true", "π is pi", "\U0001f600", "0:~", "#"]
PAIR_ALT = [2 ** 63, None, b"3:abc,", "€:"]                       # leaf alternatives when two positions deviate (thorough)
KEYS = {
    0: [()],
    1: [("a",), ("",), ("5:",), ("3:abc,",), ("k]",), ("0",)],
    2: [("a", "b"), ("b", "a"), ("", "0:~"), ("1:", ","), ("key", "Key"), ("}", "]")],
    3: [("a", "b", "c"), ("c", "b", "a"), ("", ":", "#"), ("1:a,", "a", "1")],
}

W_TAIL = [b"abc", 7, "é", b"", b"5:", -1]
JUNK = [b"junk", b"5", b":", b",", b"#", b"12:", b"\xff", b"~", b"0", b"\n", b"00", b"3:ab"]
PAIR_Q = [b"abc", 7, "é:", None, b"", b"5:", 2 ** 63, b"3:abc,", "€", -1, b",", b"0:~", b"\n a \r\n"]
PAIR_T = PAIR_Q + [0, "", b":", b"\x00\xff", "1:a,", b"#", 255, b"9:123456789"]

MISSING = ("<missing>",)


# ------------------------------------------------------------------------------------------------
# reference encoder / decoder / typed equality  (no cpppo)

def ref_dump(v):
    t = type(v)
    if v is None:
        return b"0:~"
    if t is bool:
        body, c = (b"true" if v else b"false"), b"!"
    elif t is int:
        body, c = b"%d" % v, b"#"
    elif t is float:
        body, c = repr(v).encode("ascii"), b"^"
    elif t is bytes:
        body, c = v, b","
    elif t is str:
        body, c = v.encode("utf-8"), b"$"
    elif t is list:
        body, c = b"".join(map(ref_dump, v)), b"]"
    elif t is dict:
        body, c = b"".join(ref_dump(k.encode("ascii")) + ref_dump(x) for k, x in v.items()), b"}"
    else:
        raise TypeError("reference encoder: %r outside the statement's domain" % (t,))
    return b"%d:%s%s" % (len(body), body, c)


def ref_parse(b):
    """-> (value, rest); raises ValueError on anything that is not a tnetstring."""
    i = b.index(b":")
    if not b[:i].isdigit():
        raise ValueError("SIZE")
    n = int(b[:i])
    body, c, rest = b[i + 1:i + 1 + n], b[i + 1 + n:i + 2 + n], b[i + 2 + n:]
    if len(body) != n or len(c) != 1:
        raise ValueError("short")
    if c == b"~":
        if n:
            raise ValueError("null with payload")
        return None, rest
    if c == b"!":
        return {b"true": True, b"false": False}[body], rest
    if c == b"#":
        if not (body[1:] if body[:1] == b"-" else body).isdigit():
            raise ValueError("integer")
        return int(body), rest
    if c == b"^":
        return float(body), rest
    if c == b",":
        return body, rest
    if c == b"$":
        return body.decode("utf-8"), rest
    if c == b"]":
        out = []
        while body:
            x, body = ref_parse(body)
            out.append(x)
        return out, rest
    if c == b"}":
        out = {}
        while body:
            k, body = ref_parse(body)
            x, body = ref_parse(body)
            out[k.decode("ascii")] = x
        return out, rest
    raise ValueError("type %r" % c)


def same(a, b):
    t = type(a)
    if t is not type(b):
        return False
    if t is list:
        return len(a) == len(b) and all(map(same, a, b))
    if t is dict:
        return a.keys() == b.keys() and all(type(k) is str and same(a[k], b[k]) for k in b)
    return a == b


def loosely_equal(a, b):
    try:
        return a == b
    except Exception:
        return False


# JSON-able, type-preserving encoding of values for replay files
def enc(v):
    t = type(v)
    if v is None:
        return ["n"]
    if t is bool:
        return ["t", bool(v)]
    if t is int:
        return ["i", str(v)]
    if t is float:
        return ["f", repr(v)]
    if t is bytes:
        return ["b", v.hex()]
    if t is str:
        return ["s", v.encode("utf-8").hex()]
    if t is list:
        return ["l", [enc(x) for x in v]]
    if t is dict:
        return ["d", [[k.encode("utf-8").hex(), enc(x)] for k, x in v.items()]]
    raise TypeError(t)


def dec(e):
    k = e[0]
    if k == "n":
        return None
    if k == "t":
        return bool(e[1])
    if k == "i":
        return int(e[1])
    if k == "f":
        return float(e[1])
    if k == "b":
        return bytes.fromhex(e[1])
    if k == "s":
        return bytes.fromhex(e[1]).decode("utf-8")
    if k == "l":
        return [dec(x) for x in e[1]]
    if k == "d":
        return {bytes.fromhex(kk).decode("utf-8"): dec(x) for kk, x in e[1]}
    raise ValueError(e)


# ------------------------------------------------------------------------------------------------
# A: dump / parse

_T = None


def _tnetstrings():
    global _T
    if _T is None:
        from cpppo.server import tnetstrings
        _T = tnetstrings
    return _T


def ref_selfcheck(v, want):
    try:
        back, rest = ref_parse(want)
    except Exception as exc:
        raise HarnessError("reference codec cannot decode its own encoding of %r: %r" % (v, exc))
    if rest != b"" or not same(v, back):
        raise HarnessError("reference codec does not round-trip %r -> %r -> %r" % (v, want, back))


def valid_encoding_of(got, v):
    """The grammar leaves the order of dictionary entries and the spelling of a float open: where dump() differs from
    the reference encoder's bytes, accept any byte string that is a tnetstring by the (strict) reference decoder,
    is consumed completely and decodes to a value same() as v."""
    try:
        val, rest = ref_parse(got)
    except Exception:
        return False
    return rest == b"" and same(v, val)


def check_value(v):
    """One evaluation.  -> (list of (kind, msg), dumped bytes or None)"""
    tnetstrings = _tnetstrings()
    want = ref_dump(v)
    bad = []
    try:
        got = tnetstrings.dump(v)
    except Exception as exc:
        return [("dump-exception", "dump(%r) raised %r" % (v, exc))], None
    if type(got) is not bytes:
        return [("dump-not-bytes", "dump(%r) = %r is not a byte string" % (v, got))], None
    if got != want:
        ref_selfcheck(v, want)          # before blaming the library, make sure the reference is sane here
        if not valid_encoding_of(got, v):
            bad.append(("dump-differs-from-spec", "dump(%r) = %r, the tnetstring grammar gives %r" % (v, got, want)))
    try:
        res = tnetstrings.parse(got)
        val, rem = res
    except Exception as exc:
        bad.append(("parse-exception", "parse(dump(%r)) = parse(%r) raised %r" % (v, got, exc)))
        return bad, got
    if rem != b"":
        bad.append(("parse-leftover", "parse(dump(%r)) = parse(%r) left %r unconsumed (value %r)" % (v, got, rem, val)))
    if not same(v, val):
        kind = "roundtrip-type-changed" if loosely_equal(v, val) else "roundtrip-value-changed"
        bad.append((kind, "parse(dump(%r)) = parse(%r) -> %r" % (v, got, val)))
    return bad, got


# -- shapes ---------------------------------------------------------------------------------------
# shape: 0 = leaf position | ('l', child, ...) | ('d', child, ...)

@functools.lru_cache(maxsize=None)
def _gen(depth, k, nmax):
    """dict size -> list of shapes with container depth <= depth, <= k children per container, exactly `size` nodes"""
    if depth == 0:
        return {1: [0]}
    sub = _gen(depth - 1, k, nmax)
    out = {1: [0]}
    seqs = {0: [()]}
    for n in range(0, k + 1):
        if n:
            new = {}
            for t in sorted(seqs):
                for s in sorted(sub):
                    if t + s + 1 <= nmax:
                        dst = new.setdefault(t + s, [])
                        for a in seqs[t]:
                            for b in sub[s]:
                                dst.append(a + (b,))
            seqs = new
        for t in sorted(seqs):
            dst = out.setdefault(t + 1, [])
            for kind in "ld":
                for a in seqs[t]:
                    dst.append((kind,) + a)
    return out


def sdepth(s):
    return 0 if s == 0 else 1 + max([sdepth(c) for c in s[1:]] or [0])


def snodes(s):
    return 1 if s == 0 else 1 + sum(snodes(c) for c in s[1:])


def sleaves(s):
    return 1 if s == 0 else sum(sleaves(c) for c in s[1:])


def sarities(s, out=None):
    """dict arities in the order build() consumes key tuples (pre-order)"""
    if out is None:
        out = []
    if s != 0:
        if s[0] == "d":
            out.append(len(s) - 1)
        for c in s[1:]:
            sarities(c, out)
    return out


def smaxkids(s):
    return 0 if s == 0 else max([len(s) - 1] + [smaxkids(c) for c in s[1:]])


@functools.lru_cache(maxsize=None)
def shape_set(name):
    if name == "k2":            # every shape: depth <= 3, <= 2 children
        g = _gen(3, 2, 15)
        return [s for n in sorted(g) for s in g[n]]
    if name == "k3d2":          # depth <= 2, some container with 3 children
        g = _gen(2, 3, 13)
        return [s for n in sorted(g) for s in g[n] if smaxkids(s) == 3]
    if name == "k3d3":          # depth exactly 3, <= 8 nodes, some container with 3 children
        g = _gen(3, 3, 8)
        return [s for n in sorted(g) for s in g[n] if smaxkids(s) == 3 and sdepth(s) == 3]
    raise KeyError(name)


def build(s, leaves, keys):
    if s == 0:
        return next(leaves)
    if s[0] == "l":
        return [build(c, leaves, keys) for c in s[1:]]
    ks = next(keys)
    return {k: build(c, leaves, keys) for k, c in zip(ks, s[1:])}


def p_full(tier, setname, s):
    """largest number of leaf positions for which shape s gets the full leaf-alphabet product"""
    deep = sdepth(s) >= 3
    if setname == "k2":
        if tier == "quick":
            return 1 if deep else 3
        return 2 if deep else 4
    if setname == "k3d3":
        return 1
    return 3


def dev_plan(tier, setname, s):
    """[(number of deviating positions, leaf alternatives)] applied to shape s of the set"""
    full_alt = [x for i, x in enumerate(LEAVES) if i != DEFAULT_INDEX]
    core_alt = CORE[1:]
    if setname == "k2":
        if tier == "quick":
            return [(1, core_alt if sdepth(s) >= 3 else full_alt)]
        return [(1, full_alt), (2, PAIR_ALT)]
    if setname == "k3d2":
        return [(1, full_alt), (2, full_alt)]
    return [(1, full_alt)]


def assignments_full(s, first):
    """full product over leaf positions (first position fixed to LEAVES[first] if given); default keys"""
    n = sleaves(s)
    keys = [KEYS[a][0] for a in sarities(s)]
    if n == 0:
        yield (), keys
        return
    heads = LEAVES if first is None else [LEAVES[first]]
    for h in heads:
        for rest in itertools.product(LEAVES, repeat=n - 1):
            yield (h,) + rest, keys


def assignments_dev(s, covered, plan):
    """all assignments with 1..d positions off the default (d, alternatives per `plan`); the all-default assignment
    and leaf-only deviations are skipped when `covered` (the full product already has them).  Deviation sets of
    different sizes / positions / values give different assignments, and plan entries with d == 2 emit only
    exactly-2 deviations with leaf values from their (smaller) alternative list -- those whose leaf values all lie in the
    alternatives of an earlier d>=2 entry cannot occur (single entry per d)."""
    n = sleaves(s)
    ar = sarities(s)
    base_l = [DEFAULT] * n
    base_k = [KEYS[a][0] for a in ar]
    if not covered:
        yield tuple(base_l), base_k
    pos = [("l", i) for i in range(n)] + [("k", j) for j in range(len(ar)) if len(KEYS[ar[j]]) > 1]
    for d, alts in plan:
        for combo in itertools.combinations(pos, d) if d > 1 else ((p,) for p in pos):
            if covered and all(p[0] == "l" for p in combo):
                continue
            choices = [alts if p[0] == "l" else KEYS[ar[p[1]]][1:] for p in combo]
            for vals in itertools.product(*choices):
                ls, ks = list(base_l), list(base_k)
                for p, x in zip(combo, vals):
                    if p[0] == "l":
                        ls[p[1]] = x
                    else:
                        ks[p[1]] = x
                yield tuple(ls), ks


def n_dev(s, covered, plan):
    n = sleaves(s)
    ar = [a for a in sarities(s) if len(KEYS[a]) > 1]
    tot = 0 if covered else 1
    for d, alts in plan:
        if d == 1:
            tot += (0 if covered else n * len(alts)) + sum(len(KEYS[a]) - 1 for a in ar)
        else:
            kk = sum(len(KEYS[a]) - 1 for a in ar)
            ll = 0 if covered else (n * (n - 1) // 2) * len(alts) ** 2
            lk = n * len(alts) * kk
            k2 = sum((len(KEYS[a]) - 1) * (len(KEYS[b]) - 1) for a, b in itertools.combinations(ar, 2))
            tot += ll + lk + k2
    return tot


def has_leaf(v):
    if type(v) is list:
        return any(has_leaf(x) for x in v)
    if type(v) is dict:
        return any(has_leaf(x) for x in v.values())
    return True


def _eval_value(acc, v, nontrivial):
    acc.ev()
    if nontrivial:
        acc.ntc()
    bad, got = check_value(v)
    if got is not None:
        acc.outcome("top-type %s" % got[-1:].decode("ascii"))
        acc.outcome("size-digits %d" % got.index(b":"))
        if not bad:
            acc.count("A_roundtrips_ok")
    for kind, msg in bad:
        acc.violation(kind, {"op": "roundtrip", "value": enc(v)}, msg)
    return got


def shard_A(acc, units, tier):
    for setname, idx, mode, first in units:
        s = shape_set(setname)[idx]
        n = sleaves(s)
        nt = n > 0
        depth = sdepth(s)
        P = p_full(tier, setname, s)
        if mode == "full":
            gen = assignments_full(s, first)
        else:
            gen = assignments_dev(s, n <= P, dev_plan(tier, setname, s))
        cnt = 0
        for ls, ks in gen:
            v = build(s, iter(ls), iter(ks))
            _eval_value(acc, v, nt)
            cnt += 1
        if mode == "dev" and cnt != n_dev(s, n <= P, dev_plan(tier, setname, s)):
            raise HarnessError("deviation pass of shape %r yielded %d assignments, planned %d"
                               % (s, cnt, n_dev(s, n <= P, dev_plan(tier, setname, s))))
        acc.count("A_%s_%s" % (setname, mode), cnt)
        acc.count("A_depth%d" % depth, cnt)
    if units:
        setname, idx, mode, first = units[0]
        s = shape_set(setname)[idx]
        ls, ks = next(iter(assignments_dev(s, False, dev_plan(tier, setname, s))))
        if sdepth(s) == 3:
            acc.sample({"op": "roundtrip", "shape": repr(s), "value": repr(build(s, iter(ls), iter(ks)))})


def ext_values(kind, n, first):
    """containers of exactly n >= 1 children over EXT (first child fixed to EXT[first]); dicts with keys in both
    orders.  Children tuples drawn only from LEAVES (the first 22 entries) are left to the shape families."""
    nl = len(LEAVES)
    for rest in itertools.product(range(len(EXT)), repeat=n - 1):
        idx = (first,) + rest
        if max(idx) < nl:
            continue
        kids = [EXT[i] for i in idx]
        if kind == "l":
            yield kids
        else:
            for ks in KEYS[n][:2]:
                yield dict(zip(ks, kids))


def wide_values(tier):
    """(label, n, value) -- payload lengths / child counts that cross every SIZE digit-count boundary.  Values with
    n < 7 may coincide with members of the shape / extended families and are not counted as distinct cases."""
    quick = tier == "quick"
    counts = list(range(0, 41)) if quick else list(range(0, 131)) + [1000]
    for x in (7, b"", None, "é", [b":"], {"a": 1.5}):
        for n in counts:
            yield "list*", n, [x] * n
            yield "dict*", n, {"k%d" % i: x for i in range(n)}
            yield "nested*", n, [[x] * n, {"a": [x] * n}]
    lens = list(range(0, 121)) + list(range(995, 1006))
    if not quick:
        lens += list(range(9995, 10006))
    pat = b"10:,#~]}$:9"
    for n in lens:
        b = (pat * (n // len(pat) + 1))[:n]
        yield "bytes", n, b
        yield "text", n, b.decode("ascii")
        yield "text-mb", n, "é" * (n // 2) + ":" * (n % 2)
        yield "in-list", n, [b, b.decode("ascii")]
        yield "in-dict", n, {"a": b, "b": [b]}
    for n in (9, 10, 99, 100, 999, 1000):
        yield "int-digits", n, 10 ** (n - 1) + 7
        yield "negint-digits", n, -(10 ** (n - 2)) - 7


# ------------------------------------------------------------------------------------------------
# B: tnet_machine, C: tnet_from

def split_chunks(s, cuts):
    out, prev = [], 0
    for c in cuts:
        out.append(s[prev:c])
        prev = c
    out.append(s[prev:])
    return out


def feedings(stream, dlen, tier):
    """-> list of (label, tuple of cut positions); `dlen` = length of the first message (for the long-stream rule)"""
    n = len(stream)
    out = [("whole", ())]
    if n > 160:
        body_end = dlen - 1
        near = set()
        for c in (0, body_end, dlen, n):
            near.update(range(c - 6, c + 7))
        cuts = sorted(c for c in near if 0 < c < n)
    else:
        cuts = list(range(1, n))
    out += [("cut2", (c,)) for c in cuts]
    if n > 1:
        out.append(("bytewise", tuple(range(1, n))))
    if tier != "quick" and 2 < n <= 20:
        out += [("cut3", cc) for cc in itertools.combinations(range(1, n), 2)]
    return out


def cut_class(c, d):
    """where does a cut at offset c fall relative to the first message d = SIZE ':' DATA TYPE"""
    colon = d.index(b":")
    if c < colon:
        return "in-SIZE"
    if c == colon:
        return "before-colon"
    if c == colon + 1:
        return "after-colon"
    if c < len(d) - 1:
        return "in-DATA"
    if c == len(d) - 1:
        return "before-TYPE"
    if c == len(d):
        return "after-TYPE"
    return "in-tail"


def run_machine(machine, msgs, junk, chunks):
    """Feed `chunks` to `machine` the way tnet_from does; expect the messages `msgs` (values) one after the other, each
    ending exactly at the end of its dump, and `junk` left over.  -> list of (kind, msg)."""
    import cpppo
    dumps = [ref_dump(v) for v in msgs]
    source = cpppo.chainable(chunks[0])
    pending = list(chunks[1:])
    total = sum(len(c) for c in chunks)
    consumed = 0
    for k, (v, d) in enumerate(zip(msgs, dumps)):
        data = cpppo.dotdict()
        steps = 0
        try:
            with machine:
                for mch, sta in machine.run(source=source, data=data):
                    steps += 1
                    if steps > 60 * (total + 10):
                        return [("machine-livelock", "message %d of %r fed as %r: no end after %d steps"
                                 % (k, dumps, chunks, steps))]
                    if sta is None and source.peek() is None:
                        if pending:
                            source.chain(pending.pop(0))
                        else:
                            break
                terminal = machine.terminal
        except Exception as exc:
            return [("machine-exception", "message %d (%r = %r) of stream %r fed as %r: %s: %s"
                     % (k, v, d, b"".join(chunks), chunks, type(exc).__name__, exc))]
        where = "message %d (%r = %r) of stream %r fed as %r" % (k, v, d, b"".join(chunks), chunks)
        if not terminal:
            return [("machine-not-terminal", "%s: all input fed, machine not terminal after %d symbols" % (where, source.sent))]
        got = data["tnet.type.input"] if "tnet.type.input" in data else MISSING
        bad = []
        if got is MISSING:
            bad.append(("machine-no-payload", "%s: terminal but no payload at data.tnet.type.input: %r" % (where, dict(data))))
        elif not same(v, got):
            bad.append(("machine-payload-differs", "%s: payload %r, expected %r" % (where, got, v)))
        consumed += len(d)
        if source.sent != consumed:
            bad.append(("machine-stops-at-wrong-offset", "%s: stopped after %d symbols, message ends at %d"
                        % (where, source.sent, consumed)))
        if bad:
            return bad
    rest = bytes(bytearray(source)) + b"".join(pending)
    if rest != junk:
        return [("machine-tail-disturbed", "stream %r fed as %r: after %d message(s) the remaining input is %r, expected %r"
                 % (b"".join(chunks), chunks, len(msgs), rest, junk))]
    return []


def run_tnet_from(msgs, junk, chunks, nones, ignore=None):
    """Real tnet_from over a scripted recv.  Expect exactly the messages (then, for junk, anything -- even an exception).
    ignore: the documented `ignore` symbols (skipped BETWEEN messages, e.g. the newline a line-oriented peer sends after each)."""
    import cpppo
    from cpppo.server import tnet
    script = []
    for c in chunks:
        if nones:
            script.append(None)
        script.append(c)

    def fake_recv(conn, *args, **kwds):
        return script.pop(0) if script else b""

    out = []
    exc = None
    source = cpppo.chainable()
    orig = tnet.network.recv
    tnet.network.recv = fake_recv
    try:
        try:
            for m in tnet.tnet_from(None, ("fake", 0), source=source, ignore=ignore):
                out.append(m)
                if len(out) > len(msgs) + 4:
                    break
        except Exception as e:
            exc = e
    finally:
        tnet.network.recv = orig
    where = "tnet_from%s over recv script %r" % ("" if ignore is None else "(ignore=%r)" % ignore, chunks)
    if len(out) < len(msgs) or not all(same(a, b) for a, b in zip(msgs, out)):
        return [("tnet_from-messages-differ", "%s yielded %r%s, expected %r"
                 % (where, out, (" then raised %r" % exc) if exc else "", msgs))]
    if not junk:
        if exc is not None:
            return [("tnet_from-exception", "%s yielded %r then raised %s: %s" % (where, out, type(exc).__name__, exc))]
        if len(out) != len(msgs):
            return [("tnet_from-extra-message", "%s yielded %r, expected %r" % (where, out, msgs))]
        want = sum(len(ref_dump(v)) for v in msgs)
        if source.sent != want and ignore is None:
            return [("tnet_from-consumed", "%s consumed %d symbols, the messages are %d long" % (where, source.sent, want))]
    return []


def machine_case(machine, history, msgs, junk, chunks):
    """judge one case on a machine that already ran `history` (earlier feedings of the same stream); a failure is
    re-judged on a fresh machine so that the recorded case replays: either it fails fresh too (plain case), or the
    case carries the history that makes the re-used machine fail.  -> (bad, machine to go on with, its history, prior)"""
    from cpppo.server import tnet
    bad = run_machine(machine, msgs, junk, chunks)
    if not bad:
        history.append(chunks)
        return [], machine, history, None
    fresh = run_machine(tnet.tnet_machine(), msgs, junk, chunks)
    if fresh:
        return fresh, tnet.tnet_machine(), [], None
    bad = [("machine-reuse-differs:" + bad[0][0],
            "a machine that had already parsed %d streams misbehaves where a fresh one does not: %s" % (len(history), bad[0][1]))]
    return bad, tnet.tnet_machine(), [], [[x.hex() for x in h] for h in history]


def mcase(via, msgs, junk, chunks, nones=False, prior=None):
    c = {"op": via, "msgs": [enc(v) for v in msgs], "junk": junk.hex(), "chunks": [x.hex() for x in chunks]}
    if nones:
        c["nones"] = True
    if prior is not None:
        c["prior"] = prior
    return c


def machine_payloads(tier):
    """[(label, value)] -- supported payload types only"""
    out = []
    for v in INTS + [-2 ** 63, None] + BYTES + [b"0:~", b"#", b"12:", b"~", b"$", b"}", b"\n"] + TEXT + ["π:", "1:a,", "true"]:
        out.append(("leaf", v))
    pat = b"10:,#~]}$:9"
    lens = [9, 10, 11, 99, 100, 101]
    if tier != "quick":
        lens += [999, 1000, 1001, 10000]
    for n in lens:
        b = (pat * (n // len(pat) + 1))[:n]
        out.append(("size-boundary", b))
        out.append(("size-boundary", b.decode("ascii")))
        if n < 10000:
            out.append(("size-boundary", "é" * (n // 2) + ":" * (n % 2)))
    core = [LEAVES.index(x) for x in CORE]
    leaves = core if tier == "quick" else list(range(len(LEAVES)))
    for kind in "ld":
        for n in (0, 1, 2):
            for idx in itertools.product(leaves, repeat=n):
                kids = [LEAVES[i] for i in idx]
                x = kids if kind == "l" else dict(zip(KEYS[n][0], kids))
                d = ref_dump(x)
                out.append(("nested-tnetstring", d))
                if all(i in core for i in idx) and (n < 2 or tier != "quick"):    # the same bytes as a text ('$') payload
                    out.append(("nested-tnetstring", d.decode("utf-8")))
    return out


def tails(label="leaf"):
    """every tail for leaf / SIZE-boundary payloads; 8 of the 20 for the (many) nested-tnetstring payloads"""
    short = label == "nested-tnetstring"
    out = [("none", [], b""), ("null", [None], b"")]
    out += [("message", [w], b"") for w in (W_TAIL[:2] if short else W_TAIL)]
    out += [("junk", [], j) for j in (JUNK[1:5] if short else JUNK)]
    return out


def shard_B(acc, idxs, tier):
    from cpppo.server import tnet
    vals = machine_payloads(tier)
    for i in idxs:
        label, v = vals[i]
        d = ref_dump(v)
        tag = d[-1:].decode("ascii")
        for tkind, more, junk in tails(label):
            msgs = [v] + more
            stream = b"".join(ref_dump(x) for x in msgs) + junk
            machine, history = tnet.tnet_machine(), []
            for flabel, cuts in feedings(stream, len(d), tier):
                chunks = split_chunks(stream, cuts)
                acc.ev()
                acc.ntc()
                bad, machine, history, prior = machine_case(machine, history, msgs, junk, chunks)
                acc.outcome("B %s tail=%s" % (tag, tkind))
                acc.count("B_feed_" + flabel)
                if flabel == "cut2":
                    acc.count("B_cut_" + cut_class(cuts[0], d))
                if not bad:
                    acc.count("B_ok")
                    if more:
                        acc.count("B_second_message_ok")
                for kind, msg in bad:
                    acc.violation(kind, mcase("machine", msgs, junk, chunks, prior=prior), msg)
        acc.count("B_payload_" + label)
    if idxs:
        label, v = vals[idxs[0]]
        acc.sample({"op": "machine", "payload": repr(v), "stream": repr(ref_dump(v) + b"0:~"), "feeding": "every 2-way cut"})


def shard_C(acc, pairs, tier):
    vals = PAIR_Q if tier == "quick" else PAIR_T
    for i, j in pairs:
        v = vals[i]
        if j >= 0:
            msgs, junk = [v, vals[j]], b""
        else:
            msgs, junk = [v], JUNK[-j - 1]
        stream = b"".join(ref_dump(x) for x in msgs) + junk
        for flabel, cuts in feedings(stream, len(ref_dump(v)), "quick"):
            chunks = split_chunks(stream, cuts)
            for nones in (False, True):
                acc.ev()
                acc.ntc()
                bad = run_tnet_from(msgs, junk, chunks, nones)
                acc.outcome("C tail=%s" % ("message" if j >= 0 else "junk"))
                if not bad:
                    acc.count("C_ok")
                for kind, msg in bad:
                    acc.violation(kind, mcase("tnet_from", msgs, junk, chunks, nones), msg)
        if j >= 0:
            # line-oriented peer: a newline after every message, tnet_from told to ignore newlines between messages (as the
            # tnet server does); payloads may themselves contain newlines; every chunking of the separated stream
            # separators: one newline; CR LF (both symbols ignored); a blank line (a run of separators may itself be cut)
            for sep, ign in ((b"\n", b"\n"), (b"\r\n", b"\r\n"), (b"\n\n", b"\n")):
                stream = b"".join(ref_dump(x) + sep for x in msgs)
                for flabel, cuts in feedings(stream, len(ref_dump(v)), "quick"):
                    chunks = split_chunks(stream, cuts)
                    acc.ev()
                    acc.ntc()
                    bad = run_tnet_from(msgs, b"", chunks, False, ignore=ign)
                    acc.outcome("C ignore-separated")
                    if not bad:
                        acc.count("C_ok")
                    for kind, msg in bad:
                        case = mcase("tnet_from", msgs, b"", chunks, False)
                        case["ignore"] = ign
                        acc.violation("ignore:" + kind, case, msg)


# ------------------------------------------------------------------------------------------------
# plumbing

def shard(acc, item, tier, seed):
    what = item[0]
    if what == "A":
        shard_A(acc, item[1], tier)
    elif what == "ext":
        _, kind, n, first = item
        for v in ext_values(kind, n, first):
            _eval_value(acc, v, True)
            acc.count("A_ext")
    elif what == "wide":
        _, lo, step = item
        for k, (label, n, v) in enumerate(wide_values(tier)):
            if k % step == lo:
                got = _eval_value(acc, v, n >= 7 and has_leaf(v))
                acc.count("A_wide")
                if got is not None:
                    acc.cmax("max_dump_bytes", len(got))
    elif what == "B":
        shard_B(acc, item[1], tier)
    elif what == "C":
        shard_C(acc, item[1], tier)
    else:
        raise ValueError(item)


def _pack(units, nshards):
    """greedy longest-processing-time packing of (cost, unit) into nshards lists"""
    import heapq
    units = sorted(units, key=lambda cu: -cu[0])
    heap = [(0, k, []) for k in range(nshards)]
    heapq.heapify(heap)
    for cost, u in units:
        tot, k, lst = heapq.heappop(heap)
        lst.append(u)
        heapq.heappush(heap, (tot + cost, k, lst))
    return [lst for _, _, lst in heap if lst]


def plan_A(tier):
    units = []
    sets = ["k2"] if tier == "quick" else ["k2", "k3d2", "k3d3"]
    for setname in sets:
        for idx, s in enumerate(shape_set(setname)):
            plan = dev_plan(tier, setname, s)
            n = sleaves(s)
            w = snodes(s) + 3
            P = p_full(tier, setname, s)
            if n <= P:
                if n >= 3:
                    for first in range(len(LEAVES)):
                        units.append((len(LEAVES) ** (n - 1) * w, (setname, idx, "full", first)))
                else:
                    units.append((len(LEAVES) ** n * w, (setname, idx, "full", None)))
            nd = n_dev(s, n <= P, plan)
            if nd:
                units.append((nd * w, (setname, idx, "dev", None)))
    return units


def run(ctx):
    tier = ctx.tier
    items = []
    units = plan_A(tier)
    for lst in _pack(units, 160 if ctx.quick else 400):
        items.append(("A", lst))
    kmax = 2 if ctx.quick else 3
    for kind in "ld":
        for n in range(1, kmax + 1):
            for first in range(len(EXT)):
                items.append(("ext", kind, n, first))
    step = 8 if ctx.quick else 48
    for lo in range(step):
        items.append(("wide", lo, step))
    vals = machine_payloads(tier)
    cost = [((len(ref_dump(v)) + 8) ** 2 if len(ref_dump(v)) < 160 else 40 * len(ref_dump(v)), i)
            for i, (_, v) in enumerate(vals)]
    for lst in _pack(cost, 64 if ctx.quick else 200):
        items.append(("B", lst))
    pv = PAIR_Q if ctx.quick else PAIR_T
    pairs = [(i, j) for i in range(len(pv)) for j in range(len(pv))] + \
            [(i, -1 - j) for i in range(len(pv)) for j in range(len(JUNK))]
    for k in range(0, len(pairs), 12):
        items.append(("C", pairs[k:k + 12]))
    return ctx.pmap(__name__, "shard", items)


def guards(acc, ctx):
    g = []
    c, o = acc.counters, acc.outcomes
    for tag in "#^!~,$]}":
        if not o.get("top-type %s" % tag):
            g.append("no top-level value of type %r was dumped" % tag)
    for nd in (1, 2, 3, 4):
        if not o.get("size-digits %d" % nd):
            g.append("no dump with a %d-digit SIZE" % nd)
    need = 1000000 if ctx.quick else 20000000
    if acc.evaluations < need:
        g.append("fewer than %d evaluations (%d)" % (need, acc.evaluations))
    clean = acc.violations_total == 0       # "ok" counters can only be demanded of a run that found nothing
    if clean and c.get("A_roundtrips_ok", 0) < need:
        g.append("fewer than %d clean round-trips (%d)" % (need, c.get("A_roundtrips_ok", 0)))
    for d in (0, 1, 2, 3):
        if not c.get("A_depth%d" % d):
            g.append("no value of container depth %d" % d)
    if c.get("A_depth3", 0) < 500000:
        g.append("fewer than 500000 depth-3 values")
    for name in ("A_k2_full", "A_k2_dev", "A_ext", "A_wide"):
        if not c.get(name):
            g.append("family %s not run" % name)
    for tag in "#~,$":
        for tk in ("none", "null", "message", "junk"):
            if not o.get("B %s tail=%s" % (tag, tk)):
                g.append("machine never fed a %r payload with tail kind %s" % (tag, tk))
    for cls in ("in-SIZE", "before-colon", "after-colon", "in-DATA", "before-TYPE", "after-TYPE", "in-tail"):
        if c.get("B_cut_" + cls, 0) < 100:
            g.append("fewer than 100 two-way cuts %s" % cls)
    for name, least in (("B_feed_whole", 100), ("B_feed_bytewise", 100), ("B_feed_cut2", 50000),
                        ("B_payload_leaf", 27), ("B_payload_size-boundary", 18), ("B_payload_nested-tnetstring", 160)):
        if c.get(name, 0) < least:
            g.append("counter %s below %d (%d)" % (name, least, c.get(name, 0)))
    if clean:
        for name, least in (("B_ok", 50000), ("B_second_message_ok", 1000), ("C_ok", 1000)):
            if c.get(name, 0) < least:
                g.append("counter %s below %d (%d)" % (name, least, c.get(name, 0)))
    for tk in ("message", "junk"):
        if not o.get("C tail=%s" % tk):
            g.append("tnet_from never run with tail kind %s" % tk)
    return g


def replay(case):
    op = case["op"]
    if op == "roundtrip":
        bad, _ = check_value(dec(case["value"]))
        return [m for _, m in bad]
    msgs = [dec(e) for e in case["msgs"]]
    junk = bytes.fromhex(case["junk"])
    chunks = [bytes.fromhex(x) for x in case["chunks"]]
    if op == "machine":
        from cpppo.server import tnet
        machine = tnet.tnet_machine()
        for h in case.get("prior") or []:
            if run_machine(machine, msgs, junk, [bytes.fromhex(x) for x in h]):
                return []       # the history passed during exploration: let the CLI report nondeterminism
        return [m for _, m in run_machine(machine, msgs, junk, chunks)]
    if op == "tnet_from":
        return [m for _, m in run_tnet_from(msgs, junk, chunks, bool(case.get("nones")), ignore=case.get("ignore"))]
    raise ValueError(op)
