"""C06 -- exactly one matching reply per request, delivered in request order (E-state + E-env).

Subject: the real main.enip_srv_tcp loop (mc.sim.Session: a thread parked in a scripted recv()), replies collected
from conn.send.  Part 1: explicit-state BFS over session states (alive, registered, open connections, tag store); a
state is the frame history that reaches it, rebuilt on a fresh simulator; from every state every frame of the alphabet.
Part 2: every sequence of <= N frames delivered one per recv() and again coalesced into a single chunk before any
reply is read (reply streams must be identical), plus runs of k = 1..64 pipelined requests.
Environment answers: randint -> 0 and -> an in-use session handle (retry loop), conn.send raising socket.error.
Configuration: a simulator started with the documented request size limit (--size) answers an over-limit request with exactly
one error frame, after the replies to the 0..2 requests before it.
"""
import itertools
import struct

from mc import core, refcip as R, sim, wire as W

ID = "C06"
LEVEL = "model_checking"
ISOLATE_SHARDS = True        # every shard runs in a forked child of a pristine worker (mc/core.py)
RULE = ("BFS over canonical session states (alive, registered?, #open connections, tag store), every frame of a 31-frame alphabet "
        "from every state; all frame sequences up to length N in two deliveries; pipelined runs k=1..64. non-trivial = distinct "
        "(state, frame) / sequences containing a failing or session-ending frame or a write")
BOUNDS = {"quick": "closure of the state graph (<= 2 open connections); all sequences of length <= 2 over 31 frames + length 3 over a 17-frame "
                   "sub-alphabet, x {one per recv, coalesced}; runs k in {1,2,3,8,64}",
          "thorough": "closure; all sequences of length <= 3 over 31 frames, length 4 over the 8-frame sub-alphabet; runs k = 1..64"}
ASSUMPTIONS = ["requests forwarded through a [UCMM] Route entry: the other device is a scripted transport that answers Register and each "
               "service with the reply a real simulator gave it, in time, late (after the Unconnected Send timeout) or never; "
               "all sequences of 3 (thorough 4) forwarded requests over {read, write, Get Attribute Single} x which reply is late",
               "the one malformed frame of the alphabet (bad CPF item count) is outside 'well-formed': for it only 'one error frame or a "
               "closed connection' is required (C08's rule)",
               "at most 2 simultaneously open Forward Open connections per session are explored"]

CFG = (("a", "INT", 2, None),)
CTX = [b"\x00" * 8, b"\xff" * 8, bytes(range(1, 9)), b"ab\x00cd\x00\x00e"]
ADDR = ("127.0.0.1", 10001)

# (name, supported?, ends_session?)   supported: True -> CIP reply expected; False -> non-zero enip status expected; None -> special
KINDS = [
    "register", "list_services", "list_identity", "list_interfaces", "legacy",
    "read_ok", "read_range", "write_v1", "write_v0", "write_type", "write_unholdable", "gas", "bundle2", "read_wrapped", "unknown_service", "unroutable_class",
    "unroutable_instance", "gas_bad_attribute", "sas_bad_size", "unknown_tag", "fwd_open", "fwd_open_large", "fwd_close", "unit_read", "unit_write", "bad_cpf", "bad_command", "read_session0",
    "read_wrong_session", "unregister", "unregister_stale",
]
SUB10 = ["register", "read_ok", "write_v1", "write_type", "bundle2", "unknown_service", "fwd_open", "unit_read", "bad_command", "unregister"]
SUB16 = SUB10[:-1] + ["unregister_stale", "unregister"] + ["unknown_tag", "gas_bad_attribute", "unit_write", "fwd_close", "read_range", "write_unholdable"]
SUB8 = ["register", "read_ok", "write_v1", "unknown_tag", "fwd_open", "unit_write", "fwd_close", "unregister"]


class Hist:
    """Harness-side knowledge while driving one session: handle, open connections (in creation order), sequence number."""

    def __init__(self):
        self.session = 0
        self.conns = []          # [(O_T id as seen by target to use in SendUnitData, serial triple)]
        self.seq = 0
        self.serial = 0


def build(kind, h, ctx):
    """-> (frame bytes or None if not applicable in this harness state, request summary dict)"""
    s = h.session
    rd = W.read_tag(W.tag_path("a"), 2)
    q = dict(kind=kind, ctx=ctx, session=s, command=0x6F, service=None, expect="cip")
    if kind == "register":
        q.update(command=0x65, session=0, expect="register")
        return W.register(ctx), q
    if kind == "unregister":
        q.update(command=0x66, expect="none")
        return W.unregister(s, ctx), q
    if kind == "unregister_stale":
        # an Unregister Session whose handle is not the connection's current one (0: never issued) is still an Unregister Session
        q.update(command=0x66, session=0, expect="none")
        return W.unregister(0, ctx), q
    if kind in ("list_services", "list_identity", "list_interfaces", "legacy"):
        cmd = {"list_services": 0x04, "list_identity": 0x63, "list_interfaces": 0x64, "legacy": 0x01}[kind]
        q.update(command=cmd, expect="list")
        return W.frame(cmd, b"", s, 0, ctx), q
    if kind == "bad_command":
        q.update(command=0x00FF, expect="enip-error")
        return W.frame(0x00FF, b"", s, 0, ctx), q
    if kind == "bad_cpf":
        good = W.send_rr_data(s, rd, ctx)
        body = bytearray(good[24:])
        body[6:8] = struct.pack("<H", 3)           # CPF item count says 3, only 2 items follow
        q.update(expect="malformed")
        return good[:24] + bytes(body), q
    if kind in ("unit_read", "unit_write"):
        if not h.conns:
            return None, q
        h.seq += 1
        cip = rd if kind == "unit_read" else W.write_tag(W.tag_path("a", 1), W.INT, [h.seq % 2])
        q.update(command=0x70, service=cip[0], conn=h.conns[-1][0], seq=h.seq)
        return W.send_unit_data(s, h.conns[-1][0], h.seq, cip, ctx), q
    if kind in ("fwd_open", "fwd_open_large"):
        if len(h.conns) >= 2:
            return None, q
        h.serial += 1
        cip = R.forward_open(connection_serial=h.serial, T_O_connection_ID=0x1000 + h.serial, large=(kind == "fwd_open_large"),
                             O_T_NCP=0x43F4 if kind == "fwd_open" else 0x42000FA0, T_O_NCP=0x43F4 if kind == "fwd_open" else 0x42000FA0)
        q.update(service=cip[0], expect="fwd_open", serial=h.serial)
        return W.send_rr_data(s, cip, ctx), q
    if kind == "fwd_close":
        if not h.conns:
            return None, q
        cip = R.forward_close(connection_serial=h.conns[-1][1])
        q.update(service=cip[0], expect="fwd_close")
        return W.send_rr_data(s, cip, ctx), q
    route = None
    if kind == "read_ok":
        cip = rd
    elif kind == "read_wrapped":
        cip, route = W.read_frag(W.tag_path("a"), 2, 0), [("port", (1, 0))]
    elif kind == "read_range":
        cip = W.read_tag(W.tag_path("a", 2), 1)
    elif kind == "write_v1":
        cip = W.write_tag(W.tag_path("a"), W.INT, [1, 1])
    elif kind == "write_v0":
        cip = W.write_tag(W.tag_path("a"), W.INT, [0, 0])
    elif kind == "write_type":
        cip = W.write_tag(W.tag_path("a"), W.DINT, [7])
    elif kind == "write_unholdable":                      # a compatible request type carrying a value the tag's type cannot hold
        cip = W.write_tag(W.tag_path("a"), W.UINT, [1, 40000])
    elif kind == "gas":
        cip = W.get_attribute_single(W.cia_path(2, 1, 1))
    elif kind == "bundle2":
        cip = W.multiple([rd, W.write_tag(W.tag_path("a", 1), W.INT, [1])])
    elif kind == "unknown_service":
        cip = W.generic(0x3F, W.cia_path(2, 1), b"\x01\x02")
        q.update(expect="unsupported")
    elif kind == "unroutable_class":
        cip = W.read_tag(W.cia_path(0x999, 1, 1), 1)
        q.update(expect="unsupported")
    elif kind == "unroutable_instance":                   # same class and path length as "gas" (2/1/1), an instance that does not exist
        cip = W.get_attribute_single(W.cia_path(2, 9, 1))
        q.update(expect="unsupported")
    elif kind == "gas_bad_attribute":                     # a supported service that fails INSIDE the (existing) target object
        cip = W.get_attribute_single(W.cia_path(2, 1, 99))
        q.update(expect="unsupported")
    elif kind == "sas_bad_size":                          # Set Attribute Single carrying 1 byte for a 4-byte attribute
        cip = W.generic(0x10, W.cia_path(2, 1, 1), b"\x07")
        q.update(expect="unsupported")
    elif kind == "unknown_tag":
        cip = W.read_tag(W.tag_path("nosuch"), 1)
        q.update(expect="unsupported")
    elif kind == "read_session0":
        cip, s = rd, 0
    elif kind == "read_wrong_session":
        cip, s = rd, 0xDEADBEEF
    else:
        raise ValueError(kind)
    q.update(service=cip[0], session=s)
    return W.send_rr_data(s, cip, ctx, route_path=route), q


def judge(q, replies, h, alive_after, exc):
    """Oracle for one request given the reply frames it produced.  Updates h.  -> [(kind,msg)], ended?"""
    bad = []
    name = q["kind"]
    frames = []
    for b in replies:
        try:
            fs = W.split_frames(b)
        except W.WireError as e:
            return [("reply-not-a-frame", "%s: sent bytes %s do not frame: %s" % (name, b.hex(), e))], not alive_after
        frames += fs
    if q["expect"] == "none":
        if frames:
            bad.append(("unregister-answered", "Unregister Session was answered: %r" % (frames,)))
        if alive_after:
            bad.append(("unregister-did-not-end-session", "session still alive after Unregister"))
        return bad, True
    if q["expect"] == "malformed":
        if len(frames) > 1:
            bad.append(("malformed-multiple-replies", "malformed frame produced %d replies" % len(frames)))
        if frames and frames[0]["status"] == 0:
            bad.append(("malformed-answered-ok", "malformed CPF frame answered with status 0: %r" % (frames[0],)))
        if not frames and alive_after:
            bad.append(("malformed-ignored", "malformed frame neither answered nor connection closed"))
        return bad, not alive_after
    if len(frames) == 0 and q["expect"] == "enip-error" and not alive_after:
        bad.append(("unsupported-encapsulation-command-dropped-without-reply",
                    "a complete frame with unsupported encapsulation command 0x%04x got no reply frame at all; the connection was "
                    "closed (%s)" % (q["command"], exc)))
        return bad, True
    if len(frames) != 1:
        bad.append(("reply-count", "%s: %d reply frames for one complete request (session %s afterwards%s)"
                    % (name, len(frames), "alive" if alive_after else "ended", ", exception %s" % exc if exc else "")))
        return bad, not alive_after
    f = frames[0]
    if f["context"] != q["ctx"]:
        bad.append(("wrong-context", "%s: reply context %r, request context %r" % (name, f["context"], q["ctx"])))
    if f["command"] != q["command"]:
        bad.append(("wrong-command", "%s: reply command 0x%04x, request 0x%04x" % (name, f["command"], q["command"])))
    if q["expect"] == "register":
        if f["status"] == 0:
            if not f["session"]:
                bad.append(("register-zero-handle", "Register Session returned handle 0"))
            h.session = f["session"]
    elif f["session"] != q["session"]:
        bad.append(("wrong-session", "%s: reply session 0x%x, request 0x%x" % (name, f["session"], q["session"])))
    ended = not alive_after
    if f["status"] != 0:
        if q["expect"] in ("cip", "register", "list", "fwd_open", "fwd_close") and name not in ("read_session0", "read_wrong_session"):
            bad.append(("supported-request-enip-error", "%s: answered with encapsulation status 0x%x" % (name, f["status"])))
        return bad, ended
    # status 0
    if q["expect"] in ("enip-error", "unsupported"):
        # an unsupported service may legitimately be answered with a CIP error reply inside the normal framing
        if q["expect"] == "enip-error":
            bad.append(("unsupported-command-status-0", "%s answered with encapsulation status 0" % name))
            return bad, ended
    if ended:
        bad.append(("session-dropped-after-ok-reply", "%s: reply status 0 but the session ended (%s)" % (name, exc)))
    if q["command"] in (0x6F, 0x70):
        try:
            sd = W.dec_send_data(f)
        except W.WireError as e:
            bad.append(("reply-framing", "%s: reply payload: %s" % (name, e)))
            return bad, ended
        want_kind = "unconnected" if q["command"] == 0x6F else "connected"
        if sd["kind"] != want_kind:
            bad.append(("reply-framing", "%s: reply CPF items %r are not the %s framing" % (name, sd["items"], want_kind)))
            return bad, ended
        if want_kind == "connected" and sd["seq"] != q["seq"]:
            bad.append(("wrong-sequence", "%s: reply sequence %d, request %d" % (name, sd["seq"], q["seq"])))
        cip = sd["cip"]
        if not cip or cip[0] != (q["service"] | 0x80):
            bad.append(("wrong-reply-service", "%s: reply service %s, expected 0x%02x" % (name, cip[:1].hex(), q["service"] | 0x80)))
            return bad, ended
        try:
            rr = R.dec_reply(cip)
        except R.RefDecodeError as e:
            bad.append(("reply-undecodable", "%s: CIP reply %s: %s" % (name, cip.hex(), e)))
            return bad, ended
        if q["expect"] == "fwd_open" and rr["status"] == 0:
            h.conns.append((rr["O_T_connection_ID"], q["serial"]))
        if q["expect"] == "fwd_close" and rr["status"] == 0 and h.conns:
            h.conns.pop()
        if q["expect"] == "unsupported" and rr["status"] == 0:
            bad.append(("unsupported-answered-ok", "%s answered with CIP status 0" % name))
    return bad, ended


def play(seq, coalesced=False, rnd_script=None, send_error_after=None, frames_override=None):
    """Run one history on a fresh simulator.  seq: [(kind, ctx_index)].  -> dict(results, bad, key, replies, frames)"""
    S = sim.Sim(CFG)
    if rnd_script:
        S.rnd.script = list(rnd_script)
    ss = sim.Session(S, ADDR)
    if send_error_after is not None:
        ss.conn.send_error_after = send_error_after
    h = Hist()
    bad, frames, per_req, qs = [], [], [], []
    ended = False
    if coalesced:
        blob = b"".join(frames_override)
        replies = ss.feed(blob) if ss.alive else []
        guard = 0
        while ss.alive and guard < 5:        # the server asks for more input after draining the chunk
            more = ss.feed(None)
            replies += more
            guard += 1
            if not more:
                break
        out = dict(replies=b"".join(replies), alive=ss.alive)
        ss.close()
        out["store"] = S.store()
        return out
    applicable = []
    for kind, ci in seq:
        if ended or not ss.alive:
            break
        fr, q = build(kind, h, CTX[ci])
        if fr is None:
            continue
        applicable.append((kind, ci))
        frames.append(fr)
        replies = ss.feed(fr)
        b, e = judge(q, replies, h, ss.alive, ss.exc)
        bad += b
        per_req.append(b"".join(replies))
        ended = e or not ss.alive
    key = (ss.alive and not ended, bool(h.session), len(h.conns), S.store())
    alive = ss.alive
    ss.close()
    M = sim.mods()
    leaked = [k for k in M.device.Connection_Manager.forwards]
    return dict(bad=bad, key=key, frames=frames, replies=b"".join(per_req), alive=alive and not ended, store=S.store(),
                applicable=applicable, leaked=leaked, h=h)


def check_seq(seq, both=True):
    a = play(seq)
    bad = list(a["bad"])
    if both and a["frames"]:
        b = play(seq, coalesced=True, frames_override=a["frames"])
        if b["replies"] != a["replies"]:
            bad.append(("pipelined-replies-differ", "frames %r written in one chunk: reply stream %s, one-per-recv: %s"
                        % ([k for k, _ in a["applicable"]], b["replies"].hex(), a["replies"].hex())))
        if b["store"] != a["store"]:
            bad.append(("pipelined-store-differs", "frames %r coalesced: store %r vs %r" % (seq, b["store"], a["store"])))
    return bad, a


def expand(acc, item, tier, seed):
    """BFS expansion: states are histories"""
    _, hists, (k_, K_) = item
    for hist in hists:
        for kind in KINDS[k_::K_]:
            seq = tuple(hist) + ((kind, len(hist) % len(CTX)),)
            acc.ev()
            acc.count("transitions")
            bad, a = check_seq(seq, both=False)
            if len(a["applicable"]) != len(seq):
                acc.outcome("not-applicable")
                continue
            acc.ntc()
            acc.outcome("%s:%s" % (kind, "alive" if a["alive"] else "ended"))
            for k, m in bad:
                acc.violation(k, {"op": "seq", "seq": seq, "both": False}, m)
            if a["alive"]:
                acc.succ.add(("s", (a["key"], seq)))
    acc.sample({"op": "seq", "seq": hists[0] + (("read_ok", 0),), "both": False})


def shard(acc, item, tier, seed):
    what = item[0]
    if what == "seqs":
        _, first, alphabet, n = item
        for rest in itertools.product(alphabet, repeat=n - 1):
            kinds = (first,) + rest
            seq = tuple((k, i % len(CTX)) for i, k in enumerate(kinds))
            acc.ev()
            bad, a = check_seq(seq, both=True)
            acc.count("transitions", 2 * len(a["applicable"]))
            if any(k in ("write_v1", "bundle2", "unregister", "bad_command", "unknown_service", "unknown_tag", "unroutable_class", "unroutable_instance", "gas_bad_attribute", "sas_bad_size", "bad_cpf")
                   for k in kinds):
                acc.ntc()
            acc.outcome("seqlen=%d" % n)
            for k, m in bad:
                acc.violation(k, {"op": "seq", "seq": seq, "both": True}, m)
        acc.sample({"op": "seq", "seq": [(first, 0), (alphabet[1], 1)], "both": True})
    elif what == "run":
        _, k, pattern = item
        kinds = ["register"] + [pattern[i % len(pattern)] for i in range(k)]
        S = sim.Sim(CFG)
        ss = sim.Session(S, ADDR)
        h = Hist()
        fr, q = build("register", h, CTX[0])
        rp = ss.feed(fr)
        bad, _ = judge(q, rp, h, ss.alive, ss.exc)
        qs, blob = [], b""
        for i in range(k):
            fr, q = build(pattern[i % len(pattern)], h, struct.pack("<Q", i + 1))
            qs.append(q)
            blob += fr
        replies = ss.feed(blob)
        guard = 0
        while ss.alive and guard < 3:
            more = ss.feed(None)
            replies += more
            guard += 1
        acc.ev()
        acc.ntc()
        acc.count("transitions", k + 1)
        acc.outcome("run")
        try:
            frames = W.split_frames(b"".join(replies))
        except W.WireError as e:
            frames = []
            bad.append(("reply-not-a-frame", "run of %d: %s" % (k, e)))
        if len(frames) != k:
            bad.append(("reply-count", "%d pipelined requests %r written before reading: %d replies" % (k, pattern, len(frames))))
        for i, (q, f) in enumerate(zip(qs, frames)):
            b, _ = judge(q, [W.frame(f["command"], f["payload"], f["session"], f["status"], f["context"], f["options"])], h, True, None)
            bad += [(kk, "request %d of %d pipelined: %s" % (i, k, m)) for kk, m in b]
        ss.close()
        for kk, m in bad:
            acc.violation(kk, {"op": "run", "k": k, "pattern": list(pattern)}, m)
        acc.sample({"op": "run", "k": k, "pattern": list(pattern)})
    elif what == "routed":
        _, k, K = item
        for i, (order, late, then) in enumerate(routed_cases(tier)):
            if i % K != k:
                continue
            acc.ev()
            if late is not None:
                acc.ntc()
            acc.outcome("routed:%s" % ("healthy" if late is None else then))
            acc.count("transitions", len(order))
            for kk, m in check_routed(order, late, then):
                acc.violation(kk, {"op": "routed", "order": list(order), "late": late, "then": then}, m)
        acc.sample({"op": "routed", "order": ["rd", "wr", "gas"], "late": 0, "then": "stall"})
    elif what == "env":
        _, which = item
        acc.ev()
        acc.ntc()
        acc.outcome("env:" + which)
        bad = check_env(which)
        for kk, m in bad:
            acc.violation(kk, {"op": "env", "which": which}, m)


def other_session_scenario(b_script):
    """Session A (127.0.0.1:10001) registers and opens a connection; then session B FROM THE SAME HOST (other port) runs b_script;
    then A continues with connected and unconnected requests.  Returns A's reply bytes after B's activity."""
    S = sim.Sim(CFG)
    a = sim.Session(S, ("127.0.0.1", 10001))
    ha = Hist()
    out = []
    for kind in ("register", "fwd_open"):
        fr, q = build(kind, ha, CTX[0])
        judge(q, a.feed(fr), ha, a.alive, a.exc)
    if b_script is not None:
        b = sim.Session(S, ("127.0.0.1", 10002))
        hb = Hist()
        hb.serial = ha.serial - 1 if "same-serial" in b_script else 10      # Forward Close matches on the connection serial triple
        for kind in b_script:
            if kind == "same-serial":
                continue
            if kind == "eof":
                b.close()
                break
            if not b.alive:
                break
            fr, q = build(kind, hb, CTX[1])
            if fr is None:
                continue
            judge(q, b.feed(fr), hb, b.alive, b.exc)
        if b.alive:
            b.close()
    for kind in ("unit_read", "unit_unknown_tag", "unit_write", "read_ok", "fwd_close", "unit_read"):
        if not a.alive:
            out.append(b"<session ended>")
            break
        if kind == "unit_unknown_tag":
            ha.seq += 1
            fr = W.send_unit_data(ha.session, ha.conns[-1][0], ha.seq, W.read_tag(W.tag_path("nosuch"), 1), CTX[2]) if ha.conns else None
            q = None
        else:
            fr, q = build(kind, ha, CTX[2])
        if fr is None:
            out.append(b"<not applicable>")
            continue
        rp = a.feed(fr)
        out.append(b"".join(rp))
        if q is not None:
            judge(q, rp, ha, a.alive, a.exc)
    a.close()
    return out


def check_env(which):
    bad = []
    if which.startswith("other-session:"):
        script = which.split(":", 1)[1].split(",")
        base = other_session_scenario(None)
        got = other_session_scenario(script)
        if got != base:
            k = next(i for i, (x, y) in enumerate(zip(base, got)) if x != y) if len(base) == len(got) else -1
            bad.append(("other-session-interference", "a second session from the same host doing %r changed what the first session is "
                        "answered: reply %d is %s instead of %s" % (script, k, got[k].hex() if k >= 0 else got, base[k].hex() if k >= 0 else base)))
        return bad
    if which.startswith("size-limit"):
        # a simulator configured with the documented request size limit (-s/--size): a well-formed request over the limit is still a
        # request -- exactly one reply frame (context and session echoed; an error status is expected), nothing for it is executed, and
        # the requests before it are answered first, in order
        limit = int(which.split("=")[1])
        for pre in (0, 1, 2):
            for coalesced in (False, True):
                S = sim.Sim(CFG)
                S.kwds["size"] = limit
                ss = sim.Session(S, ADDR)
                h = Hist()
                fr, q = build("register", h, CTX[0])
                rp = ss.feed(fr)
                b, _ = judge(q, rp, h, ss.alive, ss.exc)
                bad += b
                small = [build("read_ok", h, struct.pack("<Q", 100 + i)) for i in range(pre)]
                big_cip = W.multiple([W.write_tag(W.tag_path("a"), W.INT, [5, 6])] * 6)
                big_ctx = struct.pack("<Q", 777)
                big = W.send_rr_data(h.session, big_cip, big_ctx)
                if len(big) - 24 <= limit or any(len(f) - 24 > limit for f, _ in small):
                    raise core.HarnessError("size-limit scenario: frames %d / %r do not straddle the limit %d"
                                            % (len(big), [len(f) for f, _ in small], limit))
                before = S.store()
                frames_in = [f for f, _ in small] + [big]
                replies = ss.feed(b"".join(frames_in)) if coalesced else [x for f in frames_in if ss.alive for x in ss.feed(f)]
                guard = 0
                while ss.alive and guard < 3 and coalesced:
                    replies += ss.feed(None)
                    guard += 1
                try:
                    frames = W.split_frames(b"".join(replies))
                except W.WireError as e:
                    bad.append(("reply-not-a-frame", "size limit %d: %s" % (limit, e)))
                    ss.close()
                    continue
                what = "size limit %d, %d small request(s) then one of %d bytes (%s)" % (limit, pre, len(big) - 24,
                                                                                       "one chunk" if coalesced else "one per recv")
                if len(frames) != pre + 1:
                    bad.append(("reply-count", "%s: %d reply frames for %d requests" % (what, len(frames), pre + 1)))
                else:
                    for i, ((f_, q_), fr_) in enumerate(zip(small, frames)):
                        b, _ = judge(q_, [W.frame(fr_["command"], fr_["payload"], fr_["session"], fr_["status"], fr_["context"], fr_["options"])], h, True, None)
                        bad += [(kk, "%s: request %d: %s" % (what, i, m)) for kk, m in b]
                    last = frames[-1]
                    if last["command"] != 0x6F or last["context"] != big_ctx or last["session"] != h.session:
                        bad.append(("reply-mismatch", "%s: the over-limit request was answered by command 0x%x session %r context %r"
                                    % (what, last["command"], last["session"], last["context"])))
                    if last["status"] == 0:
                        bad.append(("over-limit-request-accepted", "%s: answered with encapsulation status 0" % what))
                if S.store() != before:
                    bad.append(("over-limit-request-executed", "%s: store %r -> %r" % (what, before, S.store())))
                ss.close()
        return bad
    if which == "randint":
        # first session gets a handle; second Register is offered 0, then the in-use handle, then a fresh value
        S = sim.Sim(CFG)
        s1 = sim.Session(S, ("127.0.0.1", 10001))
        f1 = W.split_frames(b"".join(s1.feed(W.register())))[0]
        S.rnd.script = [0, f1["session"], 0, f1["session"]]
        s2 = sim.Session(S, ("127.0.0.1", 10002))
        f2 = W.split_frames(b"".join(s2.feed(W.register())))[0]
        # (the statement only promises a non-zero handle; cpppo's "handle already in use" test looks at the table's keys
        # (peer addresses), so a duplicate value is not retried -- noted in DESIGN.md, not demanded here)
        if not f2["session"]:
            bad.append(("register-zero-handle", "second session was given handle 0 although randint offered a non-zero value next"))
        r1 = s1.feed(W.send_rr_data(f1["session"], W.read_tag(W.tag_path("a"), 2)))
        if len(r1) != 1:
            bad.append(("reply-count", "first session broken after second registration: %r" % (r1,)))
        s1.close(); s2.close()
    else:
        n = int(which.split("=")[1])
        S = sim.Sim(CFG)
        ss = sim.Session(S, ADDR)
        ss.conn.send_error_after = n
        h = Hist()
        for i, kind in enumerate(["register", "read_ok", "write_v1", "read_ok"]):
            if not ss.alive:
                break
            fr, q = build(kind, h, CTX[i])
            ss.feed(fr)
            if i < n and not h.session:
                try:
                    h.session = W.split_frames(ss.conn.sent[0])[0]["session"]
                except Exception:
                    pass
        if ss.alive and len(ss.conn.sent) >= n:
            # after a failed send the session must end (client abandoned)
            bad.append(("send-error-ignored", "conn.send raised socket.error at reply %d but the session kept running" % n))
        exc = ss.close()
        if exc is not None and not isinstance(exc, Exception):
            bad.append(("non-exception-escape", "enip_srv_tcp raised %r" % (exc,)))
        # the simulator must still serve a new session
        s2 = sim.Session(S, ("127.0.0.1", 10003))
        f = W.split_frames(b"".join(s2.feed(W.register())))
        if len(f) != 1 or not f[0]["session"]:
            bad.append(("server-broken-after-send-error", "new session could not register: %r" % (f,)))
        s2.close()
    return bad


# ------------------------------------------------------------------------------------------------------
# requests FORWARDED through a [UCMM] Route entry to another device: the real UCMM with its real client.connector on a scripted
# transport (mc.clientenv); the other device is reduced to "answers each service with the reply a real simulator gave it"
ROUTED = {"rd": lambda: W.read_tag(W.tag_path("a"), 2), "wr": lambda: W.write_tag(W.tag_path("a"), W.INT, [1, 1]),
          "gas": lambda: W.get_attribute_single(W.cia_path(2, 1, 1))}
_routed = {}


def routed_target():
    """replies of a real simulator (the 'other device') to Register and to each request of ROUTED, sent to it directly"""
    if not _routed:
        T = sim.Sim(CFG)
        peer = ("127.0.0.1", 20001)
        reg, _, _ = T.frame(W.register(b"ctx-trg0"), peer)
        sess = W.dec_frame(reg)[0]["session"]
        by = {}
        for name, mk in ROUTED.items():
            cip = mk()
            body = struct.pack("<IH", 0, 5) + W.cpf([(0x0000, b""), (0x00B2, cip)])
            rp, _, _ = T.frame(W.frame(0x6F, body, sess, 0, b"ctx-trg1"), peer)
            by[cip[0]] = bytes(rp)
        _routed.update(reg=bytes(reg), by=by)
    return _routed


def check_routed(order, late, then):
    """order: request kinds forwarded one after the other on one session; late: ordinal of the forwarded request whose reply the
    other device delays beyond the Unconnected Send timeout (None: healthy), then: 'stall' (the reply arrives after the timeout) or
    'silence' (never).  Every request that is not the late one must get exactly the other device's reply for ITS service."""
    from mc import clientenv as CE
    M = sim.mods()
    tgt = routed_target()
    reg, by = tgt["reg"], tgt["by"]

    class U(M.ucmm.UCMM):
        route = {"1/2": "127.0.0.1:44819"}

    F = sim.Sim(CFG, ucmm_class=U)
    session = F.register(ADDR)
    plan = {}
    if late is not None:
        plan = {"cut_s": len(reg) + sum(len(by[ROUTED[k]()[0]]) for k in order[:late]), "then": then}
    bad = []
    factory = lambda: CE.ServiceBackend(reg, by)
    with CE.Env(None, plans=[plan], recorded=[factory]) as env:
        for i, kind in enumerate(order):
            cip = ROUTED[kind]()
            ctx = b"rt%02d-%-3s" % (i, kind.encode())
            desc = "forwarded request %d (%s) of %r, reply %r of the other device %s" % (i, kind, list(order), late, then if late is not None else "healthy")
            try:
                rpy, proceed, status = F.frame(W.send_rr_data(session, cip, ctx, route_path=[("port", (1, 2))]), ADDR)
            except CE.Hang as exc:
                bad.append(("routed:hang", "%s: the UCMM waits without a timeout: %s" % (desc, exc)))
                break
            except Exception as exc:
                bad.append(("routed:exception", "%s: logix.process raised %s: %s" % (desc, type(exc).__name__, exc)))
                break
            if rpy is None:
                bad.append(("routed:no-reply", "%s: no reply frame" % desc))
                break
            try:
                f = W.split_frames(rpy)
            except W.WireError as e:
                bad.append(("routed:reply-not-a-frame", "%s: %s" % (desc, e)))
                break
            if len(f) != 1:
                bad.append(("routed:reply-count", "%s: %d frames" % (desc, len(f))))
                break
            f = f[0]
            if f["context"] != ctx or f["session"] != session or f["command"] != 0x6F:
                bad.append(("routed:wrong-echo", "%s: reply command 0x%x session 0x%x context %r" % (desc, f["command"], f["session"], f["context"])))
            if f["status"] != 0:
                if i != late:
                    bad.append(("routed:supported-request-enip-error", "%s: answered with encapsulation status 0x%x although the other device "
                                "answers this request in time (on a new connection, if need be)" % (desc, f["status"])))
                continue
            try:
                got = W.dec_send_data(f)["cip"]
            except W.WireError as e:
                bad.append(("routed:reply-framing", "%s: %s" % (desc, e)))
                continue
            want = W.dec_send_data(W.split_frames(by[cip[0]])[0])["cip"]
            if not got or got[0] != (cip[0] | 0x80):
                bad.append(("routed:wrong-reply-service", "%s: reply service %s, expected 0x%02x" % (desc, got[:1].hex(), cip[0] | 0x80)))
            elif bytes(got) != bytes(want):
                bad.append(("routed:wrong-reply", "%s: reply %s, the other device answered %s" % (desc, bytes(got).hex(), bytes(want).hex())))
    return bad


def routed_cases(tier):
    kinds = sorted(ROUTED)
    n = 3 if tier == "quick" else 4
    for order in itertools.product(kinds, repeat=n):
        yield order, None, "stall"
        for late in range(n):
            for then in ("stall", "silence"):
                yield order, late, then


def run(ctx):
    from mc import explore
    # Part 1: BFS over session states.  State key = canonical; representative = history.
    total = core.Acc()
    seen = {}
    frontier = [()]
    root_key = (True, False, 0, None)
    seen[root_key] = ()
    total.state(root_key)
    depth = 0
    while frontier:
        items = []
        for hst in frontier:
            for k in range(4):
                items.append(("bfs", [hst], (k, 4)))
        level = ctx.pmap(__name__, "expand", items)
        succ = level.succ
        level.succ = set()
        total.merge(level)
        frontier = []
        for _, (key, seq) in sorted(succ, key=repr):
            if key not in seen:
                seen[key] = seq
                total.state(key)
                frontier.append(tuple(seq))
        depth += 1
        total.cmax("max_depth", depth)
        if depth > 12:
            total.count("cap_hit")
            total.note("session-state BFS stopped at depth 12")
            break
    # Part 2: sequences in two deliveries
    items = []
    if ctx.quick:
        for first in KINDS:
            items.append(("seqs", first, KINDS, 1))
            items.append(("seqs", first, KINDS, 2))
        for first in SUB16:
            for second in SUB16:
                items.append(("seqs3y", first, second))
        ks = [1, 2, 3, 8, 64]
    else:
        for first in KINDS:
            for n in (1, 2):
                items.append(("seqs", first, KINDS, n))
            for second in KINDS:
                items.append(("seqs3", first, second))
        for first in SUB8:
            items.append(("seqs", first, SUB8, 4))
        ks = list(range(1, 65))
    items = [it for it in items if it[0] != "seqs3"] + [("seqs3x", it[1], it[2]) for it in items if it[0] == "seqs3"]
    for k in ks:
        items.append(("run", k, ("read_ok",)))
        items.append(("run", k, ("read_ok", "write_v1", "read_range", "write_v0")))
    for which in ("size-limit=60", "randint", "send=0", "send=1", "send=2",
                  "other-session:register,eof", "other-session:register,fwd_open,eof", "other-session:register,fwd_open,unregister",
                  "other-session:register,fwd_open,fwd_close", "other-session:same-serial,register,fwd_open,fwd_close",
                  "other-session:register,fwd_open,fwd_open,unit_read,eof", "other-session:register,bad_command",
                  "other-session:register,fwd_open,unknown_tag"):
        items.append(("env", which))
    for k in range(4):
        items.append(("routed", k, 4))
    total.merge(ctx.pmap(__name__, "shard2", items))
    total.count("traces_validated_against_impl", total.counters.get("transitions", 0))
    return total


def shard2(acc, item, tier, seed):
    if item[0] in ("seqs3x", "seqs3y"):
        _, first, second = item
        for third in (KINDS if item[0] == "seqs3x" else SUB16):
            kinds = (first, second, third)
            seq = tuple((k, i % len(CTX)) for i, k in enumerate(kinds))
            acc.ev()
            bad, a = check_seq(seq, both=True)
            acc.count("transitions", 2 * len(a["applicable"]))
            acc.ntc()
            acc.outcome("seqlen=3")
            for k, m in bad:
                acc.violation(k, {"op": "seq", "seq": seq, "both": True}, m)
        return
    shard(acc, item, tier, seed)


def guards(acc, ctx):
    g = []
    if len(acc.states) < 8:
        g.append("fewer than 8 session states (%d)" % len(acc.states))
    for k in ("register:alive", "unregister:ended", "read_ok:alive", "fwd_open:alive", "unit_read:alive", "unknown_service:ended", "run", "seqlen=2", "routed:healthy", "routed:stall", "routed:silence"):
        if not acc.outcomes.get(k):
            g.append("outcome %s never observed" % k)
    return g


def replay(case):
    if case["op"] == "seq":
        seq = tuple((k, i) for k, i in case["seq"])
        bad, _ = check_seq(seq, both=case.get("both", True))
        return [m for k, m in bad]
    if case["op"] == "run":
        a = core.Acc()
        shard(a, ("run", case["k"], tuple(case["pattern"])), "quick", 0)
        return [v["msg"] for v in a.violations]
    if case["op"] == "routed":
        return [m for k, m in check_routed(tuple(case["order"]), case["late"], case["then"])]
    return [m for k, m in check_env(case["which"])]


def preload():
    """import the code under test once in the (pristine) worker; shard children are forked from it"""
    from mc import sim as _sim
    _sim.mods()
