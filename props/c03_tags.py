"""C03 -- tags behave as typed arrays (E-state: explicit-state search to closure over the real simulator).

State  = contents of the tag store (all Attribute values), canonicalised by value.
Moves  = every well-formed request of the alphabet (Read/Write Tag [Fragmented], Get/Set Attribute Single x every
         addressing mode x every start index, count and value vector), executed by the REAL request path
         (Connection_Manager.request -> parser -> Logix/Object.request, or the whole frame through logix.process).
Oracle = mc.refmodel.TagModel (array model) judging the reply bytes and the resulting store.
States are always (re-)established by real Write Tag requests from the live simulator, never by poking values in.
"""
from mc import explore, wire as W
from props import tagstore as TS

ID = "C03"
LEVEL = "model_checking"
ISOLATE_SHARDS = True        # every shard runs in a forked child of a pristine worker (mc/core.py)
RULE = ("BFS to closure over tag-store states; from every state every request of the alphabet (reads/writes by symbolic "
        "name in two cases, by class/instance/attribute, by default attribute; every start index, count and value vector "
        "over the per-type value alphabet; attribute services; fragmented forms; cross-type writes as read-back probes). "
        "non-trivial = distinct (state, request) whose request is a write that changed the store or a read of a non-initial store")
BOUNDS = {
    "quick": "INT on config std = a[3], s, b[2]@0x401/1/1, c[2]@0x401/1/2 (2 values per element: closure 2^8 states); USINT, REAL, "
             "LINT, SSTRING, BOOL on config small = a[2], s, b[1]@0x401/1/1, c[2]@0x401/1/2 (closure 2^6 states), object-level "
             "seam; DINT small through whole frames (logix.process) on a simulator configured by main()'s tag arguments",
    "thorough": "all 13 element types on std with 2 values (256 states each); SINT, UDINT, LREAL, STRING on small with 3 values "
                "(3^6=729 states, configured through main()); alias config (two names on one attribute, 16-bit instance id, "
                "dotted tag name) for 5 types through whole frames",
}
ASSUMPTIONS = [
    "values outside the per-type boundary alphabets and tags longer than 3 elements are covered only through C04",
    "Get/Set Attribute Single addressed by symbolic name is not offered by the simulator (answered 0x08): 'refused without "
    "effect, or correct' is accepted there, as the statement does not oblige every service x addressing pair to exist",
]

_rig = {}


def get_rig(cfgkey):
    """A FRESH simulator for every state expansion: whatever hidden state a (broken) simulator accumulates is then a function
    of the requests logged in rig.log, which is what a violation's replay file carries."""
    typ, variant, nvals, seam, via_main = cfgkey
    r = TS.Rig(TS.config(typ, variant), seam=seam, via_main=via_main)
    if _rig.get("key") != cfgkey:
        _rig["key"] = cfgkey
        _rig["alphabet"] = list(TS.valid_requests(r.cfg, r.sim.addr_of, nvals))
    return r, _rig["alphabet"]


def expand(acc, item, tier, seed):
    cfgkey, states, (k_, K_) = item
    alphabet = None
    for state in states:
        rig, alphabet = get_rig(cfgkey)
        alphabet = alphabet[k_::K_]
        if k_ == 0 and state is states[0]:
            for msg in rig.config_problems:
                acc.violation("tag-configuration-aliased", {"cfg": cfgkey, "state": state, "history": []}, msg)

        def viol(k, m):
            case = {"cfg": cfgkey, "state": state, "history": list(rig.log)}
            if k.startswith("seat"):
                case["seat_check"] = True        # the violation is about the state after the history, not about its last reply
            acc.violation(k, case, m)

        for k, m in rig.seat(state):
            viol(k, m)
        base = rig.state()
        initial = all(v == type(v)() for _, vals in base for v in vals)
        for req, closed in alphabet:
            acc.ev()
            acc.count("transitions")
            bad = rig.step(req)
            after = rig.state()
            changed = after != base
            acc.outcome("%s:%s" % (req[0], "changed" if changed else "same"))
            if changed or (not initial and req[0] in ("rd", "rf", "gas")):
                acc.ntc()
            for k, m in bad:
                viol(k, m)
            if changed:
                # the new contents must show through every read view before the state is put back (a view that lags behind
                # the store -- a stale rendering -- is invisible once the store equals the rendering again)
                for vreq in rig.views_of(req):
                    acc.count("transitions")
                    acc.count("post_write_views")
                    for k, m in rig.step(vreq):
                        viol("view-after-write:" + k, m)
                if closed:
                    if TS.representable(after):
                        acc.succ.add((cfgkey, TS.norm_state(after)))
                else:
                    acc.count("probe_successors")
                    # read the written tag back through the real read path before undoing the probe
                    name = req[1][1]
                    n = len(dict(after)[name])
                    for k, m in rig.step(("rd", ("sym", name, None), n)):
                        viol("probe-readback:" + k, m)
                    acc.count("transitions")
                for k, m in rig.seat(state):
                    viol(k, m)
    if alphabet:
        acc.sample({"cfg": cfgkey, "state": states[0], "history": [alphabet[len(alphabet) // 2][0]]})


def roots_for(ctx, many=False):
    if many:
        keys = [("INT", "many", 2, "cm", False), ("INT", "latin", 2, "rr", False)] if ctx.quick else \
            [("INT", "many", 2, "cm", True), ("SSTRING", "many", 2, "cm", False), ("DINT", "latin", 2, "cm", True), ("INT", "latin", 2, "rr", False)]
    elif ctx.quick:
        keys = [(t, "small", 2, "cm", False) for t in ("USINT", "REAL", "LINT", "SSTRING", "BOOL")]
        keys += [("INT", "std", 2, "cm", False), ("DINT", "small", 2, "rr", True)]
    else:
        keys = [(t, "std", 2, "cm", False) for t in TS.TYPES]
        keys += [(t, "small", 3, "cm", True) for t in ("SINT", "UDINT", "LREAL", "STRING")]
        keys += [(t, "alias", 2, "rr", True) for t in ("INT", "ULINT", "REAL", "SSTRING", "BOOL")]
        keys += [("DINT", "small", 2, "rr", False)]
    roots = []
    for k in keys:
        cfg = TS.config(k[0], k[1])
        zero = "" if k[0] in ("SSTRING", "STRING") else (0.0 if k[0] in ("REAL", "LREAL") else 0)
        st = tuple((name, tuple([zero] * (1 if ln is None else ln))) for name, _, ln, _ in cfg)
        roots.append((k, st))
    return roots


def run(ctx):
    acc = explore.bfs(ctx, __name__, "expand", roots_for(ctx), chunk=1, splits=4)
    # more than ten auto-allocated tags in one instance: 2^19 store states do not close; explored to depth 2 (every pair of writes
    # followed by every read), which is what aliasing between tags needs
    many = [(k, st) for k, st in roots_for(ctx, many=True)]
    acc.merge(explore.bfs(ctx, __name__, "expand", many, chunk=1, splits=2, max_depth=2 if ctx.quick else 3))
    acc.counters.pop("cap_hit", None)
    acc.note("config 'many' (12 auto-allocated tags) is depth-bounded (2 quick / 3 thorough), all other configurations closed")
    acc.count("traces_validated_against_impl", acc.counters.get("transitions", 0))
    return acc


def guards(acc, ctx):
    g = []
    if len(acc.states) < 200:
        g.append("fewer than 200 states reached (%d)" % len(acc.states))
    for k in ("wt:changed", "wf:changed", "sas:changed", "rd:same", "rf:same", "gas:same"):
        if not acc.outcomes.get(k):
            g.append("outcome %s never observed" % k)
    if acc.counters.get("post_write_views", 0) < 1000:
        g.append("fewer than 1000 read views taken straight after a write")
    if not acc.counters.get("probe_successors"):
        g.append("no cross-type write was ever accepted")
    return g


def replay(case):
    cfgkey = tuple(case["cfg"])
    rig = TS.Rig(TS.config(cfgkey[0], cfgkey[1]), seam=cfgkey[3], via_main=cfgkey[4])
    msgs = list(rig.config_problems)
    msgs += TS.replay_history(rig, case.get("history", []))
    msgs += TS.seat_check(rig, case)
    return msgs


def preload():
    """import the code under test once in the (pristine) worker; shard children are forked from it"""
    from mc import sim as _sim
    _sim.mods()
