"""C18 -- history replay delivers every logged record exactly once, in order, on time (E-state, model checking).

Subject   : the real cpppo.history logger / opener / reader.open / loader.load and misc.natural, driven in-process.
            Histories are written with the real `logger` (and compressed with the real `opener`) into a
            tempfile.mkdtemp() directory and replayed by the real `loader` under a VIRTUAL clock
            (`cpppo.history.files.timer` and `cpppo.history.times.timer` are replaced by the harness).
Transition: one `loader.load(limit=, upcoming=)` call after one clock advance.  A state is a schedule prefix; live
            generators cannot be copied, so every schedule is rebuilt by replay on a fresh loader.
Oracle    : a sorted-list model written from the property statement and the loader/reader docstrings (time mapping
            historical = start + (now - basis) * factor; look-ahead in historical seconds; replay begins at the
            newest file whose first record is at or before the start point, else the oldest file).  Shares no code
            with cpppo.
"""
import itertools
import os
import shutil
import tempfile
import warnings

ID = "C18"
LEVEL = "model_checking"
RULE = ("a case = (history: n records, tie/increase pattern, composition into 1..3 rotated files, file naming scheme, "
        "per-file storage plain/gz/bz2/plain+gz, <=1 injected comment/corrupt line) x (start point, factor, look-ahead, "
        "limit, upcoming) x (schedule of clock advances, one per load() call).  Every case is enumerated once "
        "(schedule deviations placed after the replay has completed are pruned, so executed schedules are distinct by "
        "construction).  non-trivial = >=2 records to replay and (the replay crosses a file boundary or is spread over "
        ">=2 load() calls that return records).  states are canonicalised as (history, layout, start, factor, "
        "look-ahead | loader state name, records delivered, records queued, clock); transitions = executed load() calls")
BOUNDS = {
    "quick": ("histories: n in {4,5} records with every tie/increase pattern (gap 0 or 0.5 s) x every composition into 1..3 "
              "files, plus n=6 as 2+2+2 (264 base histories).  block main (default layout): joint deviation bound 2 over "
              "{start point: before first / on every record time / 0.25 s after every record time (incl. after last), factor "
              "{0.5,[1],2}, look-ahead {[None],0.5,2}, limit {[None],1,2}, upcoming {[off],on}, schedule: load at t0 then 8 steps, "
              "advance menu {0,0.25,[0.5],1,10} s} + finishing loads; for n=4 additionally every start x factor x look-ahead x limit "
              "x upcoming combination under the default schedule.  block layout: naming schemes (h,.0,.1 / .8,.9,.10 / h,.9,.10 / "
              ".9,.10,.11 / .99,.100,.101 and the 1- and 2-file analogues) x per-file storage (full product of {plain,gz,plain+gz} "
              "for the first two schemes; <=1 file of {gz,bz2,plain+gz} otherwise) x 3 start points + one-shot schedule.  block "
              "inject: one injected line of 10 kinds (comment, blank, truncated JSON same/later stamp, null, string, bad value, "
              "stale-stamped record, corrupt timestamp, no TABs) after every record x 2 start points + one-shot"),
    "thorough": ("histories: n in {4,5,6}, every pattern x every composition into 1..3 files (744 base histories).  block main: "
                 "joint deviation bound 3 for n in {4,5} (2 for n=6) over the same slots; every start x factor x look-ahead x limit "
                 "x upcoming combination x every schedule with <=1 deviation (n=4) / default schedule (n=5).  block layout (n<=5): "
                 "every naming scheme x full product of {plain,gz,bz2,plain+gz} per file, plus single plain+bz2 (and xz for n=4), x "
                 "all start points (first two schemes; 3 otherwise) + one-shot + (factor 2, look-ahead 0.5, limit 1); n=6 as quick.  "
                 "block inject (n<=5): 15 kinds after every record x all start points + 3 parameter variants; n=6 as quick"),
}
ASSUMPTIONS = [
    "the clock is virtual and advances only between load() calls (files.timer and times.timer patched); all instants are "
    "binary fractions of a second, so no comparison falls inside the 1 ms equality window of cpppo timestamps",
    "replay begins at the newest file whose first record is at or before the historical clock of the first load(), else at "
    "the oldest file (reader docstring); records of older files are not part of the replay",
    "the live file (no numeric suffix) is never stored compressed (documented layout); history files are globally sorted by "
    "timestamp; the first record of every file is intact (the documented iframe requirement)",
    "look-ahead is judged in historical seconds (clock + look-ahead), as the statement words it",
    "a load() that returns `limit` records, or that was given `upcoming`, may leave due records (at/after `upcoming`) for the "
    "next call (documented); promptness is demanded of every other load()",
    "an otherwise intact line stamped 0.5 s earlier than its predecessor (clock stepped back) counts as a corrupt record: it "
    "must be skipped (documented: 'ignoring out-of-order timestamp'), not delivered out of order",
    "a load() call that performs more than 40 file opens (the histories have <= 6 files on disk) is judged as never returning; "
    "after the 8 scheduled steps the clock jumps 1000 s and load() is repeated (<= 2n+6 times) until the loader is falsy",
    "duration= and values= arguments of loader, on_bad_iframe/on_bad_data other than the defaults, and the realtime stamps "
    "inside loader.values are not examined",
]

E_HIST = 1300000000.137          # historical epoch of the first record (ms part exercises the ms rendering)
T0 = 1400000000.0                # virtual wall clock origin == basis
STEP = 0.5
MENU = (0.0, 0.25, 1.0, 10.0)
HORIZON = 8
TOL = 0.0005
REGS = (40001, 40002)
FACTORS = (0.5, 2.0)
LOOKAHEADS = (0.5, 2.0)
LIMITS = (1, 2)

NAMES = {
    1: (("",), (".10",)),
    2: (("", ".0"), (".9", ".10"), ("", ".10"), (".99", ".100"), ("", ".2"), (".1", ".12")),
    3: (("", ".0", ".1"), (".8", ".9", ".10"), ("", ".9", ".10"), (".9", ".10", ".11"), (".99", ".100", ".101"),
        ("", ".1", ".2"), (".1", ".2", ".12")),     # suffix digits that are also characters of '.gz'/'.bz2'/'.xz' extensions
}
FMT_EXT = {"p": ("",), "g": (".gz",), "b": (".bz2",), "pg": ("", ".gz"), "x": (".xz",), "pb": ("", ".bz2")}

BENIGN = ("comment", "blank", "trunc-json", "trunc-json+", "null-json", "str-json", "badval", "stale-stamped")
BENIGN_T = BENIGN + ("list-json", "empty-json", "badkey+", "empty-dict")
TSCORRUPT = ("bad-ts", "no-tabs")
TSCORRUPT_T = TSCORRUPT + ("bad-serial",)

STATES = ("INITIAL", "SWITCHING", "STREAMING", "AWAITING", "EXHAUSTED", "COMPLETE")
EXPECT_TRANSITIONS = (
    "INITIAL->AWAITING", "INITIAL->STREAMING", "AWAITING->STREAMING", "STREAMING->SWITCHING", "STREAMING->AWAITING",
    "SWITCHING->STREAMING", "SWITCHING->AWAITING", "SWITCHING->EXHAUSTED", "EXHAUSTED->COMPLETE",
)

MAX_OPENS_PER_LOAD = 40

CLOCK = [T0]
LOCAL_STATES = set()
_env = {}


class Runaway(BaseException):
    """Raised by the harness from inside load() (not an Exception: the loader's blanket handler must not absorb it)."""


# ------------------------------------------------------------------------------------------------------------------
# environment: virtual clock, spying loader

def env():
    if _env:
        return _env
    warnings.filterwarnings("ignore")
    from cpppo.history import files as F, times as TM
    F.timer = lambda: CLOCK[0]
    TM.timer = lambda: CLOCK[0]

    class Spy(F.loader):
        """Observes the loader's own state machine (no behaviour change) and bounds the file opens of one load()."""
        trans = None
        opens = 0

        def open(self, *args, **kwds):
            self.opens += 1
            if self.opens > MAX_OPENS_PER_LOAD:
                raise Runaway("more than %d file opens inside one load() call" % MAX_OPENS_PER_LOAD)
            return F.loader.open(self, *args, **kwds)

        @property
        def state(self):
            return self._state

        @state.setter
        def state(self, value):
            old = self._state
            F.loader.state.fset(self, value)
            if self._state != old and self.trans is not None:
                self.trans.append((old, self._state))

    _env.update(F=F, TM=TM, Spy=Spy, timestamp=TM.timestamp, logger=F.logger, opener=F.opener)
    return _env


# ------------------------------------------------------------------------------------------------------------------
# histories (model side: plain lists)

def offsets(gaps):
    offs = [0.0]
    for g in gaps:
        offs.append(offs[-1] + (0.5 if g else 0.0))
    return offs


def model_files(gaps, comp):
    """oldest -> newest list of files; a file is a list of (offset, regs) records.  Every record carries values that
    no other record carries; the first record of a file is an initial frame with both registers."""
    offs = offsets(gaps)
    files, i = [], 0
    for size in comp:
        f = []
        for k in range(size):
            if k == 0:
                regs = {REGS[0]: 10 * (i + 1) + 1, REGS[1]: 10 * (i + 1) + 2}
            else:
                r = i % 2
                regs = {REGS[r]: 10 * (i + 1) + 1 + r}
            f.append((offs[i], regs))
            i += 1
        files.append(f)
    return files


def all_starts(gaps):
    d = sorted(set(offsets(gaps)))
    out = [-0.5]
    for x in d:
        out.append(x)
        out.append(x + 0.25)
    return out


def compositions(n, kmax=3):
    out = []
    for k in range(1, kmax + 1):
        for cuts in itertools.combinations(range(1, n), k - 1):
            b = (0,) + cuts + (n,)
            out.append(tuple(b[i + 1] - b[i] for i in range(k)))
    return out


def junk_line(kind, ts_str):
    body = {
        "blank": "\n",
        "trunc-json": '%s\tnull\t{"40001": 7\n',
        "trunc-json+": '%s\tnull\t{"40001": 7\n',
        "empty-json": "%s\tnull\t\n",
        "list-json": "%s\tnull\t[1, 2]\n",
        "null-json": "%s\tnull\tnull\n",
        "str-json": '%s\tnull\t"a note"\n',
        "badval": '%s\tnull\t{"40001": "x"}\n',
        "badkey+": '%s\tnull\t{"r": 1}\n',
        "empty-dict": "%s\tnull\t{}\n",
        "bad-ts": '20x4-13-45 99:00\tnull\t{"40001": 7}\n',
        "no-tabs": "garbage without any tab\n",
        "bad-serial": '%s\tnu\t{"40001": 7}\n',
        "stale-stamped": '%s\tnull\t{"40001": 7}\n',          # intact line stamped BEFORE its predecessor (clock stepped back)
    }[kind]
    return body % ts_str if "%s" in body else body


def build(dirpath, files, names, fmts, inject):
    """Write the history with the real logger; names[i] / fmts[i] belong to files[i] (oldest -> newest)."""
    e = env()
    base = os.path.join(dirpath, "h.hst")
    for fi, recs in enumerate(files):
        plain = base + names[fi]
        with e["logger"](plain) as l:
            for ri, (off, regs) in enumerate(recs):
                l.write(dict(regs), now=E_HIST + off)
                if inject and inject[0] == fi and inject[1] == ri:
                    kind = inject[2]
                    if kind == "comment":
                        l.comment("rotated / operator note")
                    else:
                        joff = off + (0.25 if kind.endswith("+") else -0.5 if kind == "stale-stamped" else 0.0)
                        l._append(junk_line(kind, str(e["timestamp"](E_HIST + joff))))
            if l.error:
                raise RuntimeError("logger failed writing %s" % plain)
        exts = FMT_EXT[fmts[fi]]
        for ext in exts:
            if ext:
                with e["opener"](plain + ext, mode="wb") as fd:
                    with open(plain, "rb") as rd:
                        fd.write(rd.read())
        if "" not in exts:
            os.unlink(plain)
    return base


# ------------------------------------------------------------------------------------------------------------------
# running one case against the real loader

def run_case(base, files, start, factor, la, limit, upc, sched):
    """Returns (trace, steps_executed, final).  trace[j] = dict(trel, limit, U, events[(ts_off, values)], state, vmap,
    nfut, trans, exc)."""
    e = env()
    Spy, timestamp = e["Spy"], e["timestamp"]
    CLOCK[0] = T0
    ld = Spy(base, historical=E_HIST + start, basis=T0, factor=factor, lookahead=la)
    ld.trans = []
    n_all = sum(len(f) for f in files)
    U = None
    if upc:
        flat = [r for f in files for r in f]
        U = flat[n_all // 2][0]
    u_on = U is not None
    trace = []
    dead = []
    fin_max = 2 * n_all + 6

    def one(adv):
        CLOCK[0] += adv
        up = timestamp(E_HIST + U) if u_on else None
        ld.trans = []
        ld.opens = 0
        exc = None
        try:
            cur, events = ld.load(limit=limit, upcoming=up)
        except Runaway as x:            # load() would never return
            dead.append(str(x))
            cur, events, exc = None, [], "RUNAWAY " + str(x)
        except Exception as x:          # library exception: part of the oracle
            cur, events, exc = None, [], repr(x)
        evs = []
        for ev in events:
            try:
                vals = dict((int(k), int(v)) for k, v in ev["values"].items())
            except Exception:
                vals = {"unparsable": repr(ev.get("values"))}
            evs.append((ev["timestamp"].value - E_HIST, vals))
        try:
            vmap = dict((int(r), tv[1]) for r, tv in ld.values.items())
        except Exception:
            vmap = {"unparsable": repr(ld.values)}
        trace.append(dict(trel=CLOCK[0] - T0, limit=limit, U=U if u_on else None, events=evs,
                          state=ld.statename.get(ld.state, str(ld.state)), vmap=vmap, nfut=len(ld.future),
                          trans=[(ld.statename[a], ld.statename[b]) for a, b in ld.trans], exc=exc))
        return events

    steps = 0
    events = one(0.0)
    for p, adv in enumerate(sched):
        if not ld or dead:
            break
        if u_on and not events and ld.state < ld.AWAITING:
            u_on = False                   # documented: nothing returned and not AWAITING -> advance `upcoming`
        events = one(adv)
        steps = p + 1
    fin = 0
    while ld and not dead and fin < fin_max:            # finishing phase: far future, keep calling until history is exhausted
        if u_on and not events and ld.state < ld.AWAITING:
            u_on = False
        events = one(1000.0 if fin == 0 else 0.0)
        fin += 1
    final = dict(alive=bool(ld), state=ld.statename.get(ld.state, str(ld.state)), runaway=bool(dead))
    return trace, steps, final


# ------------------------------------------------------------------------------------------------------------------
# oracle (sorted list model)

def _flat(f):
    return all(abs(r[0] - f[0][0]) < TOL for r in f)


def _cmp_guard(a, b):
    d = abs(a - b)
    if 1e-4 < d < 0.1:
        raise AssertionError("harness: comparison %r vs %r falls inside the dead zone" % (a, b))


K_LATER_JUNK = "flat-file-followed-by-later-stamped-corrupt-line-is-reopened"
K_OTHER_ROOT_CAUSES = ("duplicate-record:flat-file-reopened-after-waiting-for-its-first-record",
                       "lost-record:file-starts-at-timestamp-of-flat-predecessor")


def oracle(files, inject, start, factor, la, trace, final):
    """Returns ([(kind, msg)], expected, delivered_at).  One input pattern gets a single root-cause kind: a file whose
    valid records all carry one timestamp, followed by a corrupt line stamped later (symptoms vary: endless re-opening,
    duplicates, an older file replayed, wrong final map)."""
    bad, expected, delivered_at = _oracle(files, inject, start, factor, la, trace, final)
    if bad and inject and inject[2].endswith("+") and _flat(files[inject[0]]):
        own = [b for b in bad if b[0] in K_OTHER_ROOT_CAUSES]          # explained by their own input pattern
        rest = [b for b in bad if b[0] not in K_OTHER_ROOT_CAUSES]
        bad = own + ([(K_LATER_JUNK, "symptoms: " + " || ".join("%s: %s" % b for b in rest))] if rest else [])
    return bad, expected, delivered_at


def _oracle(files, inject, start, factor, la, trace, final):
    bad = []
    lookahead = la or 0.0
    H = [start + t["trel"] * factor for t in trace]

    # which part of the history is to be replayed
    init = 0
    for idx in range(len(files) - 1, -1, -1):
        _cmp_guard(files[idx][0][0], H[0])
        if files[idx][0][0] <= H[0] + TOL:
            init = idx
            break
    expected = []                                    # (file index, record index, off, regs)
    for fi in range(init, len(files)):
        for ri, (off, regs) in enumerate(files[fi]):
            expected.append((fi, ri, off, regs))
    by_vals = {}
    for x, (fi, ri, off, regs) in enumerate(expected):
        by_vals[tuple(sorted(regs.items()))] = x
    older = set()
    for fi in range(0, init):
        for off, regs in files[fi]:
            older.add(tuple(sorted(regs.items())))

    delivered_at = {}                                # expected index -> load index of first delivery
    seq = []                                         # raw delivered sequence [(load j, expected index or None, off_model, vals)]
    dups = []
    last_off = None
    for j, t in enumerate(trace):
        if t["exc"]:
            if t["exc"].startswith("RUNAWAY"):
                bad.append(("load-never-returns", "load() #%d: %s (re-opening history files without end)" % (j, t["exc"])))
                break
            bad.append(("load-raised", "load() #%d raised %s" % (j, t["exc"])))
        horizon = H[j] + lookahead
        if t["limit"] is not None and len(t["events"]) > t["limit"]:
            bad.append(("limit-exceeded", "load(limit=%r) #%d returned %d records" % (t["limit"], j, len(t["events"]))))
        for ts_off, vals in t["events"]:
            key = tuple(sorted(vals.items()))
            x = by_vals.get(key)
            if x is None:
                if key in older:
                    bad.append(("record-before-start-file", "load #%d delivered %r @%+.3f which belongs to a file older than "
                                "the one containing the start point" % (j, vals, ts_off)))
                else:
                    bad.append(("unknown-record", "load #%d delivered %r @%+.3f: no logged record has these values"
                                % (j, vals, ts_off)))
                seq.append((j, None, ts_off, vals))
                continue
            fi, ri, off, regs = expected[x]
            if abs(ts_off - off) >= TOL:
                bad.append(("timestamp-mismatch", "record %r logged @%+.3f delivered with timestamp %+.6f" % (regs, off, ts_off)))
            if x in delivered_at:
                dups.append((j, x))
            else:
                delivered_at[x] = j
            if last_off is not None and off < last_off - TOL:
                bad.append(("out-of-order", "load #%d delivered record @%+.3f after a record @%+.3f" % (j, off, last_off)))
            last_off = off if last_off is None else max(last_off, off)
            _cmp_guard(off, horizon)
            if off > horizon + TOL:
                bad.append(("early-delivery", "load #%d at historical %+.3f (+look-ahead %.2f) delivered record @%+.3f"
                            % (j, H[j], lookahead, off)))
            seq.append((j, x, off, vals))

        # register map: equals the map after some prefix of what was delivered, never ahead of the clock (no look-ahead)
        if t["U"] is None and not any(k == "unparsable" for k in t["vmap"]):
            m, ok, upto = {}, (t["vmap"] == {}), None
            if not ok:
                for p, (_, x, off, vals) in enumerate(seq):
                    m.update(vals)
                    if m == t["vmap"]:
                        ok, upto = True, off
                        break
            if not ok:
                bad.append(("values-map-inconsistent", "after load #%d register map %r is not the result of applying any "
                            "prefix of the delivered records" % (j, t["vmap"])))
            elif upto is not None:
                _cmp_guard(upto, H[j])
                if upto > H[j] + TOL:
                    bad.append(("values-ahead-of-clock", "after load #%d at historical %+.3f the register map already "
                                "holds the record @%+.3f" % (j, H[j], upto)))

    # lost / late
    lost = [x for x in range(len(expected)) if x not in delivered_at]
    for j, t in enumerate(trace):
        if t["limit"] is not None and len(t["events"]) >= t["limit"]:
            continue
        horizon = H[j] + lookahead
        for x, (fi, ri, off, regs) in enumerate(expected):
            if x in lost or delivered_at[x] <= j:
                continue
            if t["U"] is not None and off >= t["U"] - TOL:
                continue
            if off <= horizon + TOL:
                bad.append(("late-delivery", "record @%+.3f was due at load #%d (historical %+.3f, look-ahead %.2f, returned %d "
                            "records) but was delivered by load #%d" % (off, j, H[j], lookahead, len(t["events"]), delivered_at[x])))
                break

    failed = final["state"] == "FAILED"
    runaway = bool(final.get("runaway"))
    ts_corrupt = bool(inject) and inject[2] in TSCORRUPT_T
    if runaway:
        # the harness stopped a load() that keeps re-opening files; what follows in the history was not attempted
        bad = [b for b in bad if b[0] != "load-never-returns"]
        bad.append(("load-never-returns", "load() #%d does not return: more than %d file opens inside one call (re-opens the same history "
                    "file without end, appending its records again each time)" % (len(trace) - 1, MAX_OPENS_PER_LOAD)))
        return bad, expected, delivered_at
    if failed and ts_corrupt:
        bad.append(("replay-FAILED-at-line-with-corrupt-timestamp-or-serial",
                    "injected %r line put the loader into FAILED; never delivered: %s"
                    % (inject[2], [(expected[x][0], expected[x][1], expected[x][2]) for x in lost])))
        return bad, expected, delivered_at
    if lost:
        kinds = {}
        for x in lost:
            fi, ri, off, regs = expected[x]
            if fi > 0 and _flat(files[fi - 1]) and abs(files[fi][0][0] - files[fi - 1][-1][0]) < TOL:
                k = "lost-record:file-starts-at-timestamp-of-flat-predecessor"
            else:
                k = "lost-record"
            kinds.setdefault(k, []).append((fi, ri, off))
        for k, recs in kinds.items():
            bad.append((k, "never delivered: %s (file index oldest=0, record index, offset); final loader state %s"
                        % (recs, final["state"])))
    if dups:
        kinds = {}
        for j, x in dups:
            fi, ri, off, regs = expected[x]
            first = None
            for xx, e in enumerate(expected):
                if e[0] == fi and e[1] == 0:
                    first = xx
            j1 = delivered_at.get(first)
            waited = j1 is not None and j1 > 0 and files[fi][0][0] > H[j1 - 1] + lookahead + TOL
            if _flat(files[fi]) and waited:
                k = "duplicate-record:flat-file-reopened-after-waiting-for-its-first-record"
            else:
                k = "duplicate-record"
            kinds.setdefault(k, []).append((fi, ri, off, j))
        for k, recs in kinds.items():
            bad.append((k, "delivered more than once: %s (file index oldest=0, record index, offset, load #)" % (recs,)))

    if final["alive"]:
        bad.append(("replay-did-not-complete", "loader still evaluates True in state %s after the clock passed the end "
                    "of history and %d further load() calls" % (final["state"], len(trace))))
    elif failed:
        bad.append(("replay-FAILED", "loader ended in FAILED"))
    elif not lost:
        want = {}
        for fi, ri, off, regs in expected:
            want.update(regs)
        got = trace[-1]["vmap"]
        if got != want:
            bad.append(("final-map-mismatch", "at COMPLETE the register map is %r, last logged values are %r" % (got, want)))
    return bad, expected, delivered_at


# ------------------------------------------------------------------------------------------------------------------
# one case end to end

def case_dict(n, gaps, comp, scheme, fmts, inject, start, factor, la, limit, upc, sched):
    return {"n": n, "gaps": list(gaps), "comp": list(comp), "scheme": scheme, "fmts": list(fmts),
            "inject": list(inject) if inject else None, "start": start, "factor": factor, "la": la, "limit": limit,
            "upc": upc, "sched": list(sched)}


def names_for(comp, scheme):
    # NAMES are newest -> oldest; files are oldest -> newest
    return tuple(reversed(NAMES[len(comp)][scheme]))


class Layout:
    """A history on disk (built lazily, removed by close())."""

    def __init__(self, root, gaps, comp, scheme=0, fmts=None, inject=None):
        self.gaps, self.comp, self.scheme = tuple(gaps), tuple(comp), scheme
        self.fmts = tuple(fmts) if fmts else ("p",) * len(comp)
        self.inject = tuple(inject) if inject else None
        self.files = model_files(self.gaps, self.comp)
        self.dir = tempfile.mkdtemp(dir=root)
        self.base = build(self.dir, self.files, names_for(self.comp, scheme), self.fmts, self.inject)
        self.key = (self.gaps, self.comp, scheme, self.fmts, self.inject)

    def close(self):
        shutil.rmtree(self.dir, True)


def execute(acc, lay, start, factor, la, limit, upc, sched):
    """Run + judge one case; returns number of scheduled steps executed."""
    trace, steps, final = run_case(lay.base, lay.files, start, factor, la, limit, upc, sched)
    bad, expected, delivered_at = oracle(lay.files, lay.inject, start, factor, la, trace, final)
    acc.ev()
    acc.count("transitions", len(trace))
    nd = 0
    loads_with_events = 0
    acc.outcome("state:INITIAL")
    for t in trace:
        nd += len(t["events"])
        if t["events"]:
            loads_with_events += 1
        LOCAL_STATES.add((lay.key, start, factor, la, t["state"], nd, t["nfut"], t["trel"]))
        acc.outcome("state:" + t["state"])
        for a, b in t["trans"]:
            acc.outcome("tr:%s->%s" % (a, b))
            if a == "SWITCHING" or b == "SWITCHING":
                acc.outcome("state:SWITCHING")
    if len(expected) >= 2 and (loads_with_events >= 2 or len(set(e[0] for e in expected)) >= 2):
        acc.ntc()
    acc.outcome("final:" + final["state"])
    if limit is not None and any(len(t["events"]) >= limit for t in trace):
        acc.outcome("limit-capped-load")
    if upc and any(t["U"] is not None for t in trace):
        acc.outcome("upcoming-in-force")
    if lay.inject:
        acc.outcome("inject:" + lay.inject[2])
    for fm in set(lay.fmts):
        acc.outcome("storage:" + fm)
    acc.outcome("files:%d" % len(lay.comp))
    if len(lay.comp) == 3:
        acc.outcome("naming:" + ",".join(NAMES[3][lay.scheme]))
    if bad:
        case = case_dict(len(lay.gaps) + 1, lay.gaps, lay.comp, lay.scheme, lay.fmts, lay.inject, start, factor, la,
                         limit, upc, sched)
        seen = set()
        for kind, msg in bad:
            if kind in seen:
                continue
            seen.add(kind)
            acc.violation(kind, case, "%s | case %r | loads: %s" % (msg, case, brief(trace)))
    return steps


def brief(trace):
    return "; ".join("#%d t=%+.2f %s %s" % (j, t["trel"], t["state"], [(round(o, 3), sorted(v.values())) for o, v in t["events"]])
                     for j, t in enumerate(trace))[:1200]


def sched_from(devs, horizon=HORIZON):
    s = [STEP] * horizon
    for p, a in devs:
        s[p] = a
    return tuple(s)


def explore_sched(acc, lay, P, devs, budget):
    steps = execute(acc, lay, P["start"], P["factor"], P["la"], P["limit"], P["upc"], sched_from(devs))
    if budget > 0:
        last = devs[-1][0] if devs else -1
        for p in range(last + 1, steps):
            for a in MENU:
                explore_sched(acc, lay, P, devs + ((p, a),), budget - 1)


PDEF = {"start": -0.5, "factor": 1.0, "la": None, "limit": None, "upc": 0}


def p_devsets(starts, D):
    slots = [("start", [s for s in starts if s != -0.5]), ("factor", FACTORS), ("la", LOOKAHEADS),
             ("limit", LIMITS), ("upc", (1,))]
    for k in range(0, D + 1):
        for combo in itertools.combinations(range(len(slots)), k):
            for alts in itertools.product(*[slots[s][1] for s in combo]):
                P = dict(PDEF)
                for s, a in zip(combo, alts):
                    P[slots[s][0]] = a
                yield P, k


def p_cross(starts):
    for start in starts:
        for factor in (1.0,) + FACTORS:
            for la in (None,) + LOOKAHEADS:
                for limit in (None,) + LIMITS:
                    for upc in (0, 1):
                        yield {"start": start, "factor": factor, "la": la, "limit": limit, "upc": upc}


def fmt_products(names_newest_first, full, alphabet):
    """per-file storage tuples (oldest -> newest).  The live file ('' suffix) is always plain."""
    k = len(names_newest_first)
    names = tuple(reversed(names_newest_first))
    choices = [("p",) if names[i] == "" else alphabet for i in range(k)]
    for fm in itertools.product(*choices):
        nonplain = sum(1 for x in fm if x != "p")
        if full or nonplain <= 1:
            yield fm


def three_starts(gaps, comp):
    offs = offsets(gaps)
    mid_file = len(comp) // 2
    first_of_mid = offs[sum(comp[:mid_file])]
    return [-0.5, first_of_mid, offs[-1] + 0.25]


# ------------------------------------------------------------------------------------------------------------------
# shards

ONE_SHOT = (10.0,) + (STEP,) * (HORIZON - 1)
DEFAULT = (STEP,) * HORIZON


def block_main(acc, root, gaps, comp, D, cross_sdev):
    """default layout: joint deviation bound D over start/factor/look-ahead/limit/upcoming/schedule, then the full
    product of the five parameters x schedules with <= cross_sdev deviations (None: skip)."""
    starts = all_starts(gaps)
    lay = Layout(root, gaps, comp)
    try:
        done = set()
        for P, k in p_devsets(starts, D):
            explore_sched(acc, lay, P, (), D - k)
            if cross_sdev is not None and D - k >= cross_sdev:
                done.add(tuple(sorted(P.items(), key=str)))
        if cross_sdev is not None:
            for P in p_cross(starts):
                if tuple(sorted(P.items(), key=str)) in done:
                    continue                              # already explored with at least this schedule budget
                explore_sched(acc, lay, P, (), cross_sdev)
        acc.sample(case_dict(len(gaps) + 1, gaps, comp, 0, lay.fmts, None, -0.5, 1.0, None, None, 0, DEFAULT))
    finally:
        lay.close()


def block_layout(acc, root, gaps, comp, rich, with_xz):
    k = len(comp)
    for scheme, nm in enumerate(NAMES[k]):
        seen = set()
        prods = []
        if rich:
            prods.append(fmt_products(nm, True, ("p", "g", "b", "pg")))
            prods.append(fmt_products(nm, False, ("p", "pb") + (("x",) if with_xz else ())))
        else:
            if scheme <= 1:
                prods.append(fmt_products(nm, True, ("p", "g", "pg")))
            prods.append(fmt_products(nm, False, ("p", "g", "b", "pg")))
        for fm in itertools.chain(*prods):
            if fm in seen or (scheme == 0 and all(x == "p" for x in fm)):
                continue                                  # the default layout is what block main explores
            seen.add(fm)
            lay = Layout(root, gaps, comp, scheme, fm)
            try:
                for start in (all_starts(gaps) if (rich and scheme <= 1) else three_starts(gaps, comp)):
                    execute(acc, lay, start, 1.0, None, None, 0, DEFAULT)
                execute(acc, lay, -0.5, 1.0, None, None, 0, ONE_SHOT)
                if rich:
                    execute(acc, lay, -0.5, 2.0, 0.5, 1, 0, DEFAULT)
            finally:
                lay.close()
    acc.sample(case_dict(len(gaps) + 1, gaps, comp, len(NAMES[k]) - 1, ("g",) + ("p",) * (k - 1), None, -0.5, 1.0, None,
                         None, 0, DEFAULT))


def block_inject(acc, root, gaps, comp, rich):
    files = model_files(gaps, comp)
    kinds = (BENIGN_T + TSCORRUPT_T) if rich else (BENIGN + TSCORRUPT)
    for fi, f in enumerate(files):
        for ri in range(len(f)):
            for kind in kinds:
                if kind.endswith("+"):                    # keep the history sorted: a later-stamped line needs room
                    if ri + 1 < len(f) and f[ri + 1][0] < f[ri][0] + 0.25:
                        continue
                    if ri + 1 == len(f) and fi + 1 < len(files) and files[fi + 1][0][0] < f[ri][0] + 0.25:
                        continue
                lay = Layout(root, gaps, comp, 0, None, (fi, ri, kind))
                try:
                    for start in (all_starts(gaps) if rich else three_starts(gaps, comp)[:2]):
                        execute(acc, lay, start, 1.0, None, None, 0, DEFAULT)
                    execute(acc, lay, -0.5, 1.0, None, None, 0, ONE_SHOT)
                    if rich:
                        execute(acc, lay, -0.5, 2.0, 0.5, 1, 0, DEFAULT)
                        execute(acc, lay, -0.5, 0.5, 2.0, None, 1, DEFAULT)
                finally:
                    lay.close()
    acc.sample(case_dict(len(gaps) + 1, gaps, comp, 0, ("p",) * len(comp), (0, 0, "trunc-json"), -0.5, 1.0, None, None, 0,
                         DEFAULT))


def shard(acc, item, tier, seed):
    """item = (blocks, gaps, comp, options).  Canonical states are de-duplicated inside the shard; different shards
    explore different (history, layout) pairs, so their state sets are disjoint by construction."""
    blocks, gaps, comp, opt = item[0], tuple(item[1]), tuple(item[2]), item[3]
    root = tempfile.mkdtemp(prefix="c18-")
    LOCAL_STATES.clear()
    try:
        if "main" in blocks:
            block_main(acc, root, gaps, comp, opt["D"], opt["cross"])
        if "files" in blocks:
            block_layout(acc, root, gaps, comp, opt["rich"], opt.get("xz", False))
            block_inject(acc, root, gaps, comp, opt["rich"])
    finally:
        shutil.rmtree(root, True)
    if tier == "quick":
        for k in LOCAL_STATES:
            acc.state(k)
    else:
        acc.count("states", len(LOCAL_STATES))
    LOCAL_STATES.clear()


def base_histories(tier):
    out = []
    for n in (4, 5, 6):
        for comp in compositions(n):
            if tier == "quick" and n == 6 and comp != (2, 2, 2):
                continue
            for gaps in itertools.product((0, 1), repeat=n - 1):
                out.append((gaps, comp))
    return out


def run(ctx):
    items = []
    for gaps, comp in base_histories(ctx.tier):
        n = len(gaps) + 1
        if ctx.quick:
            items.append((("main",), gaps, comp, {"D": 2, "cross": 0 if n == 4 else None}))
            items.append((("files",), gaps, comp, {"rich": False}))
        elif n <= 5:
            items.append((("main",), gaps, comp, {"D": 3, "cross": 1 if n == 4 else 0}))
            items.append((("files",), gaps, comp, {"rich": True, "xz": n == 4}))
        else:
            items.append((("main", "files"), gaps, comp, {"D": 2, "cross": None, "rich": False}))
    return ctx.pmap(__name__, "shard", items)


def guards(acc, ctx):
    g = []
    for s in STATES:
        if not acc.outcomes.get("state:" + s):
            g.append("loader state %s never observed" % s)
    for tr in EXPECT_TRANSITIONS:
        if not acc.outcomes.get("tr:" + tr):
            g.append("loader transition %s never observed" % tr)
    for k in (("limit-capped-load", "upcoming-in-force", "final:COMPLETE", "files:1", "files:2", "files:3",
               "storage:p", "storage:g", "storage:b", "storage:pg")
              + tuple("inject:" + x for x in BENIGN + TSCORRUPT)
              + tuple("naming:" + ",".join(x) for x in NAMES[3])):
        if not acc.outcomes.get(k):
            g.append("outcome %s never observed" % k)
    if acc.n_nontrivial < 1000:
        g.append("fewer than 1000 non-trivial cases")
    if acc.counters.get("transitions", 0) < 3 * max(1, acc.evaluations):
        g.append("fewer than 3 load() calls per case on average")
    return g


def replay(case):
    root = tempfile.mkdtemp(prefix="c18-replay-")
    try:
        lay = Layout(root, case["gaps"], case["comp"], case["scheme"], case["fmts"], case["inject"])
        trace, steps, final = run_case(lay.base, lay.files, case["start"], case["factor"], case["la"], case["limit"],
                                       case["upc"], tuple(case["sched"]))
        bad, _, _ = oracle(lay.files, lay.inject, case["start"], case["factor"], case["la"], trace, final)
        return ["%s: %s | loads: %s" % (k, m, brief(trace)) for k, m in bad]
    finally:
        shutil.rmtree(root, True)
