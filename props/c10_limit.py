"""C10 -- a length limit bounds what a nested parser may consume (E-input, bounded exhaustive).

Subject: the real cpppo machines (cpppo.automata state/dfa run/transition/delegate, peeking/chaining, every parser
class of cpppo.server.enip.parser and every service machine registered on Object / Message_Router / Logix /
Connection_Manager), driven in-process through `machine.run(source=..., data=..., path=...)`.

Oracle (written from the property statement; shares no code with cpppo):
  * a run that ends terminal has consumed at most the limit;  the unread remainder is exactly input[sent:];
  * `source.sent` == symbols pulled from an instrumented raw iterator - symbols still pending in the source;
  * a limit that shows the parser a complete sentence (k >= len(w)) gives the result of the unlimited parse of the
    window input[:k];
  * a terminal repeat ran the sub-grammar exactly n times.
Nothing is demanded of the value of a run the limit cut short nor of the source position after a failure.

Parts (shards):  lim  = machine x sentence x limit form x k x tail x chunking
                 emb  = real grammars with their own length field set to every value (SSTRING, STRING, EPATH, CPF items,
                        CIP commands, Forward Open/Close reply application data)
                 rep  = repeat counts (synthetic sub-grammars, octets/words, CPF count, status size, attribute list,
                        enip_machine payload, Unconnected Send message length)
                 iter = every short sequence of next/peek/push/chain against a list model
"""
import itertools
import struct

ID = "C10"
LEVEL = "exploration"
RULE = ("lim: every (parser machine, valid sentence w, limit form, k in 0..len(w)+2, tail in {none, 3 sentinels}, chunking) "
        "run on the real machine, plus the unlimited reference parse of the window; non-trivial = the input extends "
        "beyond the limit (the limit can bind).  emb: every value of an embedded length/size field 0..natural+2 over a "
        "fixed body, x tail x chunking; non-trivial = field differs from the natural length.  rep: every (sub-grammar "
        "size j, count n in 0..4, count form, input length n*j-2..n*j+3, chunking); non-trivial = n>=1 or surplus input. "
        "iter: every sequence of <=D operations over {next,peek,push,chain(0|1|2 symbols)} x initial block of 0..2 "
        "symbols x {peeking,chaining}; non-trivial = contains a push or chain and a next.  All cases are distinct by "
        "construction (enumerated once).")
BOUNDS = {
    "quick": "102 machine specs (every state class of parser.py, typed_data per type, CIP per command, the 19+6 registered "
             "service machines, Object/Connection_Manager parsers) with 214 sentences; k 0..len(w)+2; 6 limit forms (ctor int / "
             "data path with parsed length prefix / callable at offset 2 / enclosing dfa / enclosing smaller / enclosing "
             "larger), 4 for registered service machines; tail {none, 3 sentinels}; chunkings {whole peekable (tail none), "
             "whole chainable, byte-wise, 2-way split at the limit}; 52 embedded-length templates, field 0..natural+2; "
             "repeat n 0..4 x j 1..3 x {int, data path, parsed prefix} x supplied n*j-2..n*j+3; iterator op sequences of "
             "depth <=6 (chaining) / <=8 (peeking)",
    "thorough": "as quick plus every 2-way split of every input and a third tail (a second "
                "copy of the sentence follows; quick chunkings only); iterator op sequences of depth <=7 / <=9",
}
ASSUMPTIONS = [
    "sentences are hand-written valid messages with consistent length fields (inputs, not oracle); each is confirmed "
    "to parse completely on the tree under test, a rejection is reported as kind valid-sentence-rejected",
    "a limit k >= len(w) is compared with the unlimited parse of input[:k] (same machine shape, same cuts) only when "
    "that reference parse is terminal; below len(w) only 'terminal => consumed <= k' and the accounting are demanded",
    "any exception raised by the library during a limited run counts as 'it fails' (allowed by the statement)",
    "device.dialect = logix.Logix and a Logix Message Router instance 1 exist (needed by Multiple Service Packet parsers)",
    "chunks are chained whenever the machine yields a non-transition (the way enip_srv_tcp feeds received blocks)",
    "HART and PCCC parsers are not imported (not part of the property's quantifier)",
]

TAIL = b"\xf5\xf6\xf7"
JUNK = b"\xe1\xe2"
CAP = 50000

_ENV = {}


def env():
    if _ENV:
        return _ENV
    import cpppo
    from cpppo.server.enip import parser, device, logix
    device.dialect = logix.Logix
    if not device.lookup(device.Message_Router.class_id, 1):
        logix.Logix(instance_id=1)
    _ENV.update(cpppo=cpppo, parser=parser, device=device, logix=logix)
    return _ENV


# ------------------------------------------------------------------------------------------------
# instrumented source + driver

class Raw(object):
    """raw iterator under the cpppo source: counts every symbol handed out"""
    __slots__ = ("it", "cnt")

    def __init__(self, seq, cnt):
        self.it = iter(seq)
        self.cnt = cnt

    def __iter__(self):
        return self

    def __next__(self):
        v = next(self.it)
        self.cnt[0] += 1
        return v

    next = __next__


class Res(object):
    __slots__ = ("exc", "msg", "terminal", "sent", "drained", "unfed", "pulled", "steps", "capped", "value", "events", "lens")

    @property
    def ok(self):
        return self.exc is None and bool(self.terminal) and not self.capped

    def outcome(self):
        if self.capped:
            return "capped"
        if self.exc is not None:
            return "fail:" + self.exc
        return "terminal" if self.terminal else "nonterminal-end"


def norm(v):
    import array
    if isinstance(v, dict):
        return {str(k): norm(x) for k, x in v.items()}
    if isinstance(v, (list, tuple)):
        return [norm(x) for x in v]
    if isinstance(v, array.array):
        return ["array", v.typecode, list(v)]
    if isinstance(v, (bytes, bytearray)):
        return ["bytes", bytes(v).hex()]
    if isinstance(v, float):
        return ["float", repr(v)]
    if isinstance(v, (int, str, bool)) or v is None:
        return v
    return ["obj", type(v).__name__]


def split_chunks(x, ch):
    """ch: ('P',) whole peekable | ('C',) whole chainable | ('B',) byte-wise | ('S', i) split after i symbols"""
    if ch[0] in ("P", "C"):
        return [x]
    if ch[0] == "B":
        return [x[i:i + 1] for i in range(len(x))] or [b""]
    i = ch[1]
    return [x[:i], x[i:]]


def drive(machine, x, ch, pre=0, path=None, seed=None, watch=None, lens=()):
    """Run `machine` over bytes x delivered per chunking ch; `pre` symbols are consumed by the harness first.
    watch: optional (which, state) pair to count in the event stream (repeat cycles)."""
    cpppo = env()["cpppo"]
    chunks = split_chunks(x, ch)
    cnt = [0]
    raws = [Raw(c, cnt) for c in chunks]
    src = cpppo.peekable(raws[0]) if ch[0] == "P" else cpppo.chainable(raws[0])
    nxt = 1
    data = cpppo.dotdict()
    for k, v in (seed or {}).items():
        data[k] = v
    r = Res()
    r.exc = r.msg = None
    r.terminal = None
    r.capped = False
    r.steps = 0
    r.events = 0
    while pre:
        if nxt < len(raws) and src.peek() is None:
            src.chain(raws[nxt])
            nxt += 1
            continue
        next(src)
        pre -= 1
    try:
        with machine:
            engine = machine.run(source=src, data=data, path=path)
            try:
                for m, s in engine:
                    r.steps += 1
                    if watch is not None and m is watch[0] and s is watch[1]:
                        r.events += 1
                    if r.steps > CAP:
                        r.capped = True
                        break
                    if s is None and nxt < len(raws):
                        src.chain(raws[nxt])
                        nxt += 1
            finally:
                engine.close()
            r.terminal = bool(machine.terminal)
    except Exception as exc:                      # a failure of the parse: part of the oracle ("or it fails")
        r.exc = type(exc).__name__
        r.msg = str(exc)[:300]
    r.sent = src.sent
    out = []
    while True:
        try:
            out.append(next(src))
        except StopIteration:
            break
        if len(out) > len(x) + 64:
            break
    r.drained = bytes(bytearray(b & 0xFF for b in out)) if all(isinstance(b, int) for b in out) else None
    r.unfed = b"".join(chunks[nxt:])
    r.pulled = cnt[0]
    r.value = norm(dict(data))
    r.lens = {}
    for key in lens:
        v = data.get(key)
        r.lens[key] = len(v) if hasattr(v, "__len__") else (0 if v is None else -1)
    return r


def accounting(r, x):
    """`sent` equals what was really taken: pulled - pending, and the pending symbols are exactly x[sent:]."""
    bad = []
    fed = len(x) - len(r.unfed)
    if r.drained is None:
        return [("sent-accounting", "source delivered non-symbols while draining")]
    if r.sent + len(r.drained) != r.pulled or r.pulled != fed:
        bad.append(("sent-accounting", "sent=%d but %d symbols were pulled from the raw input (%d fed) and %d are still "
                    "pending in the source" % (r.sent, r.pulled, fed, len(r.drained))))
    elif not (0 <= r.sent <= len(x)) or x[r.sent:] != r.drained + r.unfed:
        bad.append(("remainder-mismatch", "sent=%d, unread remainder %r != input[sent:] %r"
                    % (r.sent, (r.drained + r.unfed).hex(), x[max(r.sent, 0):].hex())))
    return bad


# ------------------------------------------------------------------------------------------------
# catalogue of machines and sentences

class Spec(object):
    def __init__(self, name, kind, make, sentences, extra=(), subpath=None, seed=None):
        self.name = name
        self.kind = kind            # 'class': make(limit) -> fresh terminal machine;  'inst': make() -> registered machine
        self.make = make
        self.sentences = list(sentences)     # [(bytes, selfdelimiting)]
        self.extra = list(extra)             # thorough-only sentences
        self.subpath = subpath
        self.seed = seed            # f(parent_path, w) -> {key: value}

    def sents(self, tier):
        return self.sentences + self.extra


def _join(a, b):
    return (a + "." + b) if (a and b) else (a or b or None)


IDENTITY = (b"\x01\x00" b"\x00\x02" b"\xaf\x12" b"\x0a\x00\x00\x01" + b"\x00" * 8 +
            b"\x01\x00\x0e\x00\x36\x00\x14\x0b\x60\x31\x1a\x06\x6c\x00" + b"\x03abc")
LEGACY1 = (b"\x01\x00\x00\x00" b"\x00\x02" b"\xaf\x12" b"\x0a\x00\x00\x01" + b"\x00" * 8 + b"10.0.0.1" + b"\x00" * 8)
COMMSVC = b"\x01\x00\x20\x00Comm\x00"
HDR0 = b"\x65\x00\x00\x00" + b"\x01\x02\x03\x04" + b"\x00\x00\x00\x00" + b"ctx45678" + b"\x00\x00\x00\x00"
HDR4 = b"\x65\x00\x04\x00" + HDR0[4:]
USEND = b"\x52\x02\x20\x06\x24\x01\x05\x9d" + b"\x06\x00" + b"\x01\x02\x20\x66\x24\x01" + b"\x01\x00\x01\x00"
USEND_ODD = b"\x52\x02\x20\x06\x24\x01\x05\x9d" + b"\x03\x00" + b"\x0e\x00\x07" + b"\x00" + b"\x01\x00\x01\x00"
GAA = b"\x01\x02\x20\x66\x24\x01"
CPF_UNC = b"\x02\x00" + b"\x00\x00\x00\x00" + b"\xb2\x00\x06\x00" + GAA
CPF_CON = b"\x02\x00" + b"\xa1\x00\x04\x00\x11\x22\x33\x44" + b"\xb1\x00\x06\x00" + b"\x07\x00\x0e\x03\x20\x01"
CPF_UNK = b"\x01\x00\x34\x12\x03\x00\xaa\xbb\xcc"
CPF_SVC = b"\x01\x00\x00\x01" + struct.pack("<H", len(COMMSVC)) + COMMSVC
CPF_IDN = b"\x01\x00\x0c\x00" + struct.pack("<H", len(IDENTITY) + 1) + IDENTITY + b"\x03"
CPF_LEG = b"\x01\x00\x01\x00" + struct.pack("<H", len(LEGACY1)) + LEGACY1
CPF_USEND = b"\x02\x00" + b"\x00\x00\x00\x00" + b"\xb2\x00" + struct.pack("<H", len(USEND)) + USEND
SEND_DATA = b"\x00\x00\x00\x00\x05\x00" + CPF_UNC
FWD_OPEN = bytes(bytearray([
    0x54, 0x02, 0x20, 0x06, 0x24, 0x01, 0x07, 0xf9, 0x11, 0x00, 0x00, 0x80, 0x10, 0x00, 0xfe, 0x80, 0x11, 0x00,
    0x4d, 0x00, 0x0f, 0x7f, 0x3d, 0x1e, 0x00, 0x00, 0x00, 0x00, 0x00, 0x12, 0x7a, 0x00, 0xf4, 0x43,
    0x00, 0x12, 0x7a, 0x00, 0xf4, 0x43, 0xa3, 0x03, 0x01, 0x00, 0x20, 0x02, 0x24, 0x01]))
FWD_OPEN_LG = bytes(bytearray([
    0x5b, 0x02, 0x20, 0x06, 0x24, 0x01, 0x07, 0xf9, 0x11, 0x00, 0x00, 0x80, 0x10, 0x00, 0xfe, 0x80, 0x11, 0x00,
    0x4d, 0x00, 0x0f, 0x7f, 0x3d, 0x1e, 0x00, 0x00, 0x00, 0x00, 0x00, 0x12, 0x7a, 0x00, 0xf4, 0x43, 0x00, 0x00,
    0x00, 0x12, 0x7a, 0x00, 0xf4, 0x43, 0x00, 0x00, 0xa3, 0x03, 0x01, 0x00, 0x20, 0x02, 0x24, 0x01]))
FWD_RPY_HEAD = bytes(bytearray([
    0xd4, 0x00, 0x00, 0x00, 0x26, 0x40, 0xa3, 0xff, 0x10, 0x00, 0xfe, 0x80, 0x11, 0x00, 0x4d, 0x00, 0x0f, 0x7f,
    0x3d, 0x1e, 0x00, 0x12, 0x7a, 0x00, 0x00, 0x12, 0x7a, 0x00]))          # ... + application_size, pad, data
FWD_RPY_FAIL = b"\xd4\x00\x01\x01\x11\x03\x00\x00\xff\xff\x78\x56\x34\x12\x01\x00"
FWD_RPY_FAIL0 = b"\xd4\x00\x01\x01\x11\x03\x00\x00\xff\xff\x78\x56\x34\x12"
FWD_CLOSE = b"\x4e\x02\x20\x06\x24\x01\x07\xf9\x01\x00\x4d\x00\x0f\x7f\x3d\x1e\x03\x00\x01\x00\x20\x02\x24\x01"
FWD_CLOSE_RPY_HEAD = b"\xce\x00\x00\x00\x01\x00\x4d\x00\x0f\x7f\x3d\x1e"     # ... + application_size, pad, data
MULTI = (b"\x0a\x02\x20\x02\x24\x01" + b"\x02\x00" + b"\x06\x00\x0c\x00" + GAA + b"\x4c\x02\x20\x66\x24\x01\x01\x00")
MULTI_RPY = (b"\x8a\x00\x00\x00" + b"\x02\x00" + b"\x06\x00\x0a\x00" + b"\xcd\x00\x00\x00" + b"\xd3\x00\x00\x00")
TAGP = b"\x02\x91\x01a\x00"          # EPATH: 2 words, symbolic 'a' + pad


def _types(P):
    return [
        ("TYPE", P.TYPE, b"\x01"), ("BOOL", P.BOOL, b"\x01"), ("USINT", P.USINT, b"\x01"), ("SINT", P.SINT, b"\x81"),
        ("UINT", P.UINT, b"\x01\x02"), ("INT", P.INT, b"\x01\x82"), ("WORD", P.WORD, b"\x01\x02"),
        ("UDINT", P.UDINT, b"\x01\x02\x03\x04"), ("DWORD", P.DWORD, b"\x01\x02\x03\x04"),
        ("DINT", P.DINT, b"\x01\x02\x03\x84"), ("ULINT", P.ULINT, b"\x01\x02\x03\x04\x05\x06\x07\x08"),
        ("LINT", P.LINT, b"\x01\x02\x03\x04\x05\x06\x07\x88"), ("REAL", P.REAL, b"\x00\x00\x80\x3f"),
        ("LREAL", P.LREAL, b"\x00\x00\x00\x00\x00\x00\xf0\x3f"),
        ("UINT_network", P.UINT_network, b"\x01\x02"), ("INT_network", P.INT_network, b"\x81\x02"),
        ("UDINT_network", P.UDINT_network, b"\x01\x02\x03\x04"), ("DINT_network", P.DINT_network, b"\x81\x02\x03\x04"),
        ("REAL_network", P.REAL_network, b"\x3f\x80\x00\x00"),
        ("IPADDR", P.IPADDR, b"\x02\x01\x00\x0a"), ("IPADDR_network", P.IPADDR_network, b"\x0a\x00\x01\x02"),
    ]


_CAT = {}


def catalog():
    if _CAT:
        return _CAT
    e = env()
    cpppo, P, device = e["cpppo"], e["parser"], e["device"]
    specs = []

    covered = set()

    def cls(name, klass, sentences, extra=(), subpath=None, seed=None, **kw):
        def make(limit, klass=klass, kw=kw):
            return klass(limit=limit, terminal=True, **kw)
        covered.add(klass)
        specs.append(Spec(name, "class", make, sentences, extra, subpath, seed))

    for name, klass, w in _types(P):
        cls(name, klass, [(w, True)])
    cls("octets*3", P.octets, [(b"\x01\x02\x03", True)], repeat=3)
    cls("octets_drop*2", P.octets_drop, [(b"\x01\x02", True)], repeat=2)
    cls("octets_noop", P.octets_noop, [(b"", True)])
    cls("octets_struct<H", P.octets_struct, [(b"\x01\x02", True)], format="<H")
    cls("words*2", P.words, [(b"\x01\x02\x03\x04", True)], repeat=2)
    cls("unregister", P.unregister, [(b"", True)])
    cls("STRUCT", P.STRUCT, [(b"\x99\x88", False), (b"\x99\x88\x01\x02\x03", False)])
    cls("STRUCT(tag)", P.STRUCT, [(b"\x01\x02", False)], structure_tag=0x1234)
    cls("SSTRING", P.SSTRING, [(b"\x00", True), (b"\x03abc", True)], [(b"\x01a", True), (b"\x06abcdef", True)])
    cls("STRING", P.STRING, [(b"\x00\x00", True), (b"\x03\x00abc\x00", True), (b"\x02\x00ab", True)],
        [(b"\x01\x00a\x00", True)])
    cls("IFACEADDRS", P.IFACEADDRS, [(b"\x0a\x00\x01\x02" * 5 + b"\x03\x00abc\x00", True)])
    cls("enip_header", P.enip_header, [(HDR0, True), (b"", False)])
    cls("enip_machine", P.enip_machine, [(HDR0, True), (HDR4 + b"\x01\x00\x00\x00", True), (b"", False)])
    cls("EPATH", P.EPATH, [(b"\x00", True), (b"\x02\x20\x02\x24\x01", True), (b"\x04\x91\x05SCADA\x00", True),
                           (b"\x03\x29\x00\x01\x02\x28\x07", True), (b"\x03\x11\x03abc\x00", True)],
        [(b"\x01\x01\x00", True), (b"\x03\x91\x04abcd", True), (b"\x02\x0f\x34\x12\x05", True),
         (b"\x04\x1f\x02\x34\x12ab\x30\x03", True), (b"\x03\x2a\x00\x01\x02\x03\x04", True)])
    cls("EPATH_padded", P.EPATH_padded, [(b"\x00\x00", True), (b"\x01\x00\x01\x00", True),
                                         (b"\x02\x00\x20\x02\x24\x01", True)])
    cls("route_path", P.route_path, [(b"\x00\x00", True), (b"\x01\x00\x01\x00", True)],
        [(b"\x04\x00\x11\x04abcd\x20\x02", True)])
    cls("EPATH_single", P.EPATH_single, [(b"\x01\x00", True), (b"\x20\x02", True), (b"\x91\x03abc\x00", True),
                                         (b"\x25\x00\x01\x02", True), (b"\x0f\x34\x12\x05", True)],
        [(b"\x11\x04abcd", True), (b"\x91\x02ab", True), (b"\x2c\x01", True), (b"\x31\x00\x01\x02", True)])
    cls("status", P.status, [(b"\x00\x00", True), (b"\x05\x01\x34\x12", True), (b"\xff\x02\x01\x00\x02\x00", True)])
    for tname, elems in (
            ("BOOL", [b"\x01", b"\x00", b"\xff"]), ("SINT", [b"\x01", b"\x82", b"\x03"]),
            ("USINT", [b"\x01", b"\x82", b"\x03"]), ("INT", [b"\x01\x02", b"\x03\x84", b"\x05\x06"]),
            ("UINT", [b"\x01\x02", b"\x03\x84", b"\x05\x06"]), ("DINT", [b"\x01\x02\x03\x84", b"\x05\x06\x07\x08"]),
            ("UDINT", [b"\x01\x02\x03\x84", b"\x05\x06\x07\x08"]),
            ("LINT", [b"\x01\x02\x03\x04\x05\x06\x07\x88", b"\x11\x12\x13\x14\x15\x16\x17\x18"]),
            ("ULINT", [b"\x01\x02\x03\x04\x05\x06\x07\x88", b"\x11\x12\x13\x14\x15\x16\x17\x18"]),
            ("REAL", [b"\x00\x00\x80\x3f", b"\x00\x00\x00\x40"]),
            ("LREAL", [b"\x00\x00\x00\x00\x00\x00\xf0\x3f", b"\x00\x00\x00\x00\x00\x00\x00\x40"]),
            ("SSTRING", [b"\x01a", b"\x02bc", b"\x00"]), ("STRING", [b"\x01\x00a\x00", b"\x02\x00bc", b"\x00\x00"])):
        tt = getattr(P, tname).tag_type
        sents = [(b"", False), (elems[0], False), (elems[0] + elems[1], False)]
        extra = [(b"".join(elems), False)] if len(elems) > 2 else []
        cls("typed_data:" + tname, P.typed_data, sents, extra, tag_type=tt)
    cls("typed_data:STRUCT", P.typed_data, [(b"\x99\x88\x01", False), (b"\x99\x88\x01\x02", False)],
        tag_type=P.STRUCT.tag_type)
    cls("typed_data:STRUCT(tag)", P.typed_data, [(b"\x01\x02", False)],
        tag_type=P.STRUCT.tag_type, structure_tag=0x1234)
    cls("CPF", P.CPF, [(b"", False), (b"\x00\x00", True), (CPF_UNC, True), (CPF_CON, True), (CPF_UNK, False)],
        [(CPF_SVC, True), (CPF_IDN, True), (CPF_LEG, True), (CPF_USEND, True)])
    cls("unconnected_send", P.unconnected_send, [(USEND, True), (USEND_ODD, True), (GAA, False), (b"\xd2\x00\x05\x00", True)],
        [(b"\xd2\x00\x00\x00\xc3\x00\x01\x00", False), (b"\xd2\x00\x05\x01\x34\x12", False)],
        seed=lambda parent, w: {_join(parent, "length"): len(w)})
    cls("communications_service", P.communications_service, [(COMMSVC, True)])
    cls("identity_object", P.identity_object, [(IDENTITY, False), (IDENTITY + b"\x03", False)],
        [(IDENTITY + b"\x03\xaa\xbb", False)])
    cls("legacy_CPF_0x0001", P.legacy_CPF_0x0001, [(LEGACY1, False)], [(LEGACY1[:28], False)])
    cls("connection_ID", P.connection_ID, [(b"\x11\x22\x33\x44", True)])
    cls("connection_data", P.connection_data, [(b"\x01\x00\xaa", False), (b"\x01\x00\xaa\xbb\xcc", False)])
    cls("send_data", P.send_data, [(SEND_DATA, True)], [(b"\x00\x00\x00\x00\x05\x00" + CPF_CON, True)])
    cls("register", P.register, [(b"\x01\x00\x00\x00", True)])
    cls("CPF_service", P.CPF_service, [(b"", False), (CPF_SVC, True)])
    cls("list_interfaces", P.list_interfaces, [(b"", False), (b"\x00\x00", True)])
    cls("list_identity", P.list_identity, [(b"", False)], [(CPF_IDN, True)])
    cls("list_services", P.list_services, [(b"", False), (CPF_SVC, True)])
    cls("legacy", P.legacy, [(b"", False)], [(CPF_LEG, True)])
    for cname, cmd, sents, extra in (
            ("register", 0x65, [(b"\x01\x00\x00\x00", True)], []), ("unregister", 0x66, [(b"", True)], []),
            ("send_data", 0x6f, [(SEND_DATA, True)], [(b"\x00\x00\x00\x00\x05\x00" + CPF_CON, True)]),
            ("list_services", 0x04, [(b"", True), (CPF_SVC, True)], []),
            ("list_identity", 0x63, [(b"", True)], [(CPF_IDN, True)]),
            ("legacy", 0x01, [], [(CPF_LEG, True)])):
        if sents or extra:
            cls("CIP:" + cname, P.CIP, sents, extra, subpath="enip",
                seed=lambda parent, w, cmd=cmd: {_join(parent, "command"): cmd, _join(parent, "length"): len(w)})

    def inst(name, get, sentences, extra=()):
        specs.append(Spec(name, "inst", get, sentences, extra))

    OBJ = {
        -1: [(b"\xcb\x00\x00\x00", False), (b"\xcb\x00\x00\x00\x01\x02", False), (b"\xcb\x00\x08\x00", False)],
        0x01: [(GAA, True)],
        0x81: [(b"\x81\x00\x00\x00", False), (b"\x81\x00\x00\x00\x01\x02\x03", False)],
        0x03: [(b"\x03\x02\x20\x01\x24\x01" + b"\x02\x00" + b"\x01\x00\x07\x00", True)],
        0x83: [(b"\x83\x00\x00\x00", False), (b"\x83\x00\x00\x00\x01\x00\x02\x00", False)],
        0x0e: [(b"\x0e\x03\x20\x01\x24\x01\x30\x07", True)],
        0x8e: [(b"\x8e\x00\x00\x00\x01\x02", False), (b"\x8e\x00\x05\x01\x00\x00", False)],
        0x10: [(b"\x10\x03\x20\x01\x24\x01\x30\x07" + b"\x01\x02", False)],
        0x90: [(b"\x90\x00\x00\x00", True)],
        0x0a: [(MULTI, False)],
        0x8a: [(MULTI_RPY, False), (b"\x8a\x00\x08\x00", True)],
        0x4c: [(b"\x4c" + TAGP + b"\x01\x00", True)],
        0xcc: [(b"\xcc\x00\x00\x00" + b"\xc3\x00" + b"\x01\x02\x03\x04", False), (b"\xcc\x00\x05\x01\x00\x00", True)],
        0x52: [(b"\x52" + TAGP + b"\x02\x00" + b"\x04\x00\x00\x00", True)],
        0xd2: [(b"\xd2\x00\x06\x00" + b"\xc4\x00" + b"\x01\x02\x03\x04", False), (b"\xd2\x00\x00\x00\xa0\x02\x99\x88\x01\x02", False)],
        0x4d: [(b"\x4d" + TAGP + b"\xc3\x00" + b"\x02\x00" + b"\x01\x02\x03\x04", False),
               (b"\x4d" + TAGP + b"\xa0\x02" + b"\x99\x88" + b"\x01\x00" + b"\x01\x02", False)],
        0xcd: [(b"\xcd\x00\x00\x00", True), (b"\xcd\x00\xff\x01\x07\x21", True)],
        0x53: [(b"\x53" + TAGP + b"\xc4\x00" + b"\x01\x00" + b"\x00\x00\x00\x00" + b"\x01\x02\x03\x04", False)],
        0xd3: [(b"\xd3\x00\x00\x00", True)],
    }
    CM = {
        0x54: [(FWD_OPEN, True)], 0x5b: [(FWD_OPEN_LG, True)],
        0xd4: [(FWD_RPY_HEAD + b"\x00\x00", True), (FWD_RPY_HEAD + b"\x01\x00\xaa\xbb", True), (FWD_RPY_FAIL, True),
               (FWD_RPY_FAIL0, False)],
        0xdb: [(b"\xdb" + FWD_RPY_HEAD[1:] + b"\x01\x00\xaa\xbb", True)],
        0x4e: [(FWD_CLOSE, True)],
        0xce: [(FWD_CLOSE_RPY_HEAD + b"\x00\x00", True), (FWD_CLOSE_RPY_HEAD + b"\x01\x00\xaa\xbb", True),
               (b"\xce\x00\x00\x00", False)],
    }
    obj_init = device.Object.parser.initial
    for enc, sub in sorted(obj_init.items()):
        if not isinstance(sub, cpppo.state) or enc not in OBJ:
            raise_harness("unexpected service %r registered on Object.parser; add sentences" % (enc,))
        inst("svc:%s:%s" % ("ANY" if enc < 0 else "0x%02x" % enc, sub.name.split(".")[0]),
             (lambda enc=enc: device.Object.parser.initial[enc]), OBJ[enc])
    cm_init = device.Connection_Manager.parser.initial
    for enc, sub in sorted(cm_init.items()):
        if enc not in CM:
            raise_harness("unexpected service %r registered on Connection_Manager.parser" % (enc,))
        inst("cm:0x%02x:%s" % (enc, sub.name.split(".")[0]),
             (lambda enc=enc: device.Connection_Manager.parser.initial[enc]), CM[enc])
    inst("Object.parser", lambda: device.Object.parser,
         [(OBJ[0x52][0][0], True), (GAA, True), (MULTI, False), (b"\xcb\x00\x00\x00\x01", False)])
    inst("Connection_Manager.parser", lambda: device.Connection_Manager.parser, [(FWD_CLOSE, True), (CM[0xd4][1][0], True)])
    inst("CM.parser_service_path", lambda: device.Connection_Manager.parser_service_path, [(b"\x54\x02\x20\x06\x24\x01", True)])

    # every machine class defined by parser.py must be in the catalogue (a new class must get sentences)
    import inspect
    for cname, klass in inspect.getmembers(P, inspect.isclass):
        if klass.__module__ == P.__name__ and issubclass(klass, cpppo.state) and klass not in covered:
            raise_harness("parser class %s has no catalogue entry" % cname)
    for s in specs:
        if s.name in _CAT:
            raise_harness("duplicate spec " + s.name)
        _CAT[s.name] = s
    return _CAT


def raise_harness(msg):
    from mc.core import HarnessError
    raise HarnessError(msg)


# ------------------------------------------------------------------------------------------------
# limit forms

CLASS_FORMS = ["ctor-int", "ctor-path", "ctor-call", "outer-int", "outer-shrinks", "inner-shrinks"]
INST_FORMS = ["outer-int", "outer-path", "outer-call", "outer2"]


def _cfgk(path=None, data=None, **kw):
    return data["cfgk"]


class Built(object):
    __slots__ = ("machine", "prefix", "pre", "path", "parent", "seed", "entry")


def build(spec, form, k, w, limited=True):
    """The machine for one limit form.  limited=False builds the same shape with every limit removed (the reference)."""
    e = env()
    cpppo, P = e["cpppo"], e["parser"]
    b = Built()
    b.prefix, b.pre, b.seed = b"", 0, {}
    top = None

    def H(inner, limit=None, context=None, name="H"):
        return cpppo.dfa(name, initial=inner, limit=limit if limited else None, context=context, terminal=True)

    def M(limit):
        return spec.make(limit if limited else None) if spec.kind == "class" else spec.make()

    def prefixed(inner):
        leng = P.USINT("hlen", context="hlen")
        leng[None] = inner
        return cpppo.dfa("HP", initial=leng, terminal=True)

    if spec.kind == "class":
        if form == "ctor-int":
            b.machine = M(k)
        elif form == "ctor-path":
            b.machine = prefixed(M("..hlen"))
            b.prefix, top = bytes(bytearray([k])), "top"
        elif form == "ctor-call":
            b.machine = M(_cfgk)
            b.prefix, b.pre, b.seed = JUNK, 2, {"cfgk": k}
        elif form == "outer-int":
            b.machine = H(M(None), limit=k)
        elif form == "outer-shrinks":
            b.machine = H(M(k + 2), limit=k)
        elif form == "inner-shrinks":
            b.machine = H(M(k), limit=k + 2)
        else:
            raise_harness("unknown form " + form)
        inner_ctx = None
    else:
        inner_ctx = None
        if form == "outer-int":
            b.machine = H(M(None), limit=k)
        elif form == "outer-path":
            b.machine = prefixed(H(M(None), limit="..hlen", context="w"))
            b.prefix, top, inner_ctx = bytes(bytearray([k])), "top", "w"
        elif form == "outer-call":
            b.machine = H(M(None), limit=_cfgk)
            b.prefix, b.pre, b.seed = JUNK, 2, {"cfgk": k}
        elif form == "outer2":
            b.machine = H(H(M(None), limit=k, name="Hi"), limit=k + 2)
        else:
            raise_harness("unknown form " + form)
    b.path = _join(top, spec.subpath)
    b.parent = _join(b.path, inner_ctx)
    b.entry = len(b.prefix)
    b.seed = build_seed(spec, form, k, w, b)
    return b


def build_seed(spec, form, k, w, b):
    seed = {"cfgk": k} if form in ("ctor-call", "outer-call") else {}
    if spec.seed:
        seed.update(spec.seed(b.parent, w))
    return seed


def lim_chunkings(n, boundary, tier, peekable=True):
    out = [("P",), ("C",)] if peekable else [("C",)]
    if n >= 2:
        out.append(("B",))
    if tier == "thorough":
        out += [("S", i) for i in range(1, n)]
    elif 0 < boundary < n:
        out.append(("S", boundary))
    return out


def lim_tails(w, tier):
    """0: nothing follows; 1: three sentinel bytes follow; 2 (thorough): a second copy of the sentence follows"""
    return (0, 1, 2) if (tier == "thorough" and w) else (0, 1)


def lim_group(acc, spec, si, form, k, tier, only=None, refcache=None):
    """All runs of one (spec, sentence, form, k) on one fresh machine, in fixed order.  only=(tail,chunk): report
    just that run (replay).  Returns the violation messages of the `only` run."""
    w, selfdelim = spec.sents(tier)[si]
    b = build(spec, form, k, w)
    if refcache is None:
        ref = build(spec, form, k, w, limited=False)
    else:                                   # the limit-free reference shape does not depend on k: one per shard
        if "ref" not in refcache:
            refcache["ref"] = build(spec, form, k, w, limited=False)
        ref = refcache["ref"]
        ref.seed = build_seed(spec, form, k, w, ref)
    msgs = []
    for tail in lim_tails(w, tier):
        x = b.prefix + w + (b"", TAIL, w)[tail]
        boundary = b.entry + k
        refs = {}
        for ch in lim_chunkings(len(x), boundary, "quick" if tail == 2 else tier, peekable=(tail == 0 or tier == "thorough")):
            tres = None
            if k >= len(w):
                # reference: the same shape without any limit, shown only the window input[:k], fed with the same cuts
                rch = ("C",) if (ch[0] == "S" and ch[1] >= boundary) else ch
                if rch not in refs:
                    refs[rch] = drive(ref.machine, x[:boundary], rch, pre=ref.pre, path=ref.path, seed=ref.seed)
                    if acc is not None:
                        acc.count("reference_runs")
                tres = refs[rch]
            r = drive(b.machine, x, ch, pre=b.pre, path=b.path, seed=b.seed)
            bad = accounting(r, x)
            if r.capped:
                bad.append(("run-does-not-terminate", "no end after %d events" % r.steps))
            if r.ok and r.sent > boundary:
                bad.append(("overrun:%s" % spec.name, "terminal having consumed %d symbols, limit %d (form %s, entry offset %d)"
                            % (r.sent - b.entry, k, form, b.entry)))
            if tres is not None and tres.ok:
                if not r.ok:
                    bad.append(("nonbinding-limit-rejects:%s" % spec.name,
                                "limit %d shows the complete sentence (%d symbols); unlimited parse of input[:%d] is terminal "
                                "after %d, the limited parse ends %s %s" % (k, len(w), k, tres.sent - b.entry, r.outcome(), r.msg or "")))
                elif r.sent != tres.sent:
                    bad.append(("nonbinding-limit-changes-consumption:%s" % spec.name,
                                "limit %d >= sentence %d: consumed %d, unlimited parse of the window consumed %d"
                                % (k, len(w), r.sent - b.entry, tres.sent - b.entry)))
                elif r.value != tres.value:
                    bad.append(("nonbinding-limit-changes-value:%s" % spec.name,
                                "limit %d >= sentence %d: value %r != unlimited %r" % (k, len(w), r.value, tres.value)))
            case = {"part": "lim", "spec": spec.name, "si": si, "form": form, "k": k, "tail": tail, "chunk": list(ch), "tier": tier}
            if acc is not None:
                acc.ev()
                if boundary < len(x):
                    acc.ntc()
                    acc.count("limit_inside_input")
                    if r.ok:
                        acc.count("terminal_under_binding_limit")
                        if r.sent == boundary:
                            acc.count("terminal_exactly_at_limit")
                    elif r.exc:
                        acc.count("failed_under_binding_limit")
                acc.outcome(form + ":" + r.outcome())
                if tres is not None and tres.ok:
                    acc.count("compared_with_reference")
                for kind, msg in bad:
                    acc.violation(kind, case, "%s sentence %s: %s" % (spec.name, w.hex(), msg))
            if only is not None and only == (tail, tuple(ch)):
                return ["%s: %s" % (kd, m) for kd, m in bad]
    return msgs


def lim_validity(acc, spec, si, tier):
    """The catalogue sentence must be a sentence: unlimited parse of w is terminal and consumes len(w); a
    self-delimiting sentence followed by other bytes is consumed to exactly its end (its inner limits/repeats stop)."""
    w, selfdelim = spec.sents(tier)[si]
    out = []
    for tail in (0, 1):
        if tail and not selfdelim:
            continue
        b = build(spec, "ctor-int" if spec.kind == "class" else "outer-int", 0, w, limited=False)
        x = w + (TAIL if tail else b"")
        for ch in [("C",), ("P",)]:
            r = drive(b.machine, x, ch, path=b.path, seed=b.seed)
            bad = accounting(r, x)
            if not r.ok:
                bad.append(("valid-sentence-rejected:%s" % spec.name, "unlimited parse of a valid sentence%s ends %s %s"
                            % (" followed by 3 bytes" if tail else "", r.outcome(), r.msg or "")))
            elif r.sent > len(w):
                bad.append(("embedded-length-overrun:%s" % spec.name, "self-delimiting sentence of %d symbols: parse consumed %d"
                            % (len(w), r.sent)))
            elif r.sent < len(w):
                bad.append(("valid-sentence-rejected:%s" % spec.name, "unlimited parse stopped after %d of %d symbols" % (r.sent, len(w))))
            case = {"part": "valid", "spec": spec.name, "si": si, "tail": tail, "chunk": list(ch), "tier": tier}
            if acc is not None:
                acc.ev()
                acc.count("validity_runs")
                for kind, msg in bad:
                    acc.violation(kind, case, "%s sentence %s: %s" % (spec.name, w.hex(), msg))
            out.append((case, ["%s: %s" % (kd, m) for kd, m in bad]))
    return out


def shard_lim(acc, spec_name, si, form, tier):
    spec = catalog()[spec_name]
    w, _ = spec.sents(tier)[si]
    forms = CLASS_FORMS if spec.kind == "class" else INST_FORMS
    if form == forms[0]:
        lim_validity(acc, spec, si, tier)
        acc.count("machines_sentences")
        if si == 0:
            acc.sample({"part": "lim", "spec": spec_name, "sentence": w, "forms": forms, "k": "0..%d" % (len(w) + 2)})
    refcache = {}
    for k in range(0, len(w) + 3):
        lim_group(acc, spec, si, form, k, tier, refcache=refcache)


# ------------------------------------------------------------------------------------------------
# emb: the grammar's own length field set to every value

def emb_templates():
    """name -> (make() -> machine, [(label, bytes, bound, nontrivial)], path, seedf(label)->dict).  bound = the most a
    terminal parse may have consumed given the length field value (header + what the field allows + mandated pad)."""
    e = env()
    P, device = e["parser"], e["device"]
    T = {}

    def add(name, make, cases, path=None, seedf=None):
        T[name] = (make, cases, path, seedf)

    body = b"abcdef"
    for tl in (b"", TAIL):
        sfx = "+tail" if tl else ""
        add("SSTRING.length" + sfx, lambda: P.SSTRING(terminal=True),
            [("L=%d" % L, bytes(bytearray([L])) + b"abcd" + tl, 1 + L, L != 4) for L in range(0, 9)])
        add("STRING.length" + sfx, lambda: P.STRING(terminal=True),
            [("L=%d" % L, struct.pack("<H", L) + b"abcd" + tl, 2 + L + (L & 1), L != 4) for L in range(0, 9)])
        segs = b"\x20\x02\x24\x01\x30\x03"
        add("EPATH.size" + sfx, lambda: P.EPATH(terminal=True),
            [("S=%d" % S, bytes(bytearray([S])) + segs + tl, 1 + 2 * S, S != 3) for S in range(0, 7)])
        add("EPATH_padded.size" + sfx, lambda: P.EPATH_padded(terminal=True),
            [("S=%d" % S, bytes(bytearray([S, 0])) + segs + tl, 2 + 2 * S, S != 3) for S in range(0, 7)])
        add("EPATH.size16" + sfx, lambda: P.EPATH(terminal=True),
            [("S=%d" % S, bytes(bytearray([S])) + b"\x21\x00\x02\x01\x25\x00\x01\x02" + tl, 1 + 2 * S, S != 4) for S in range(0, 7)])
        add("EPATH.size+symbolic.length" + sfx, lambda: P.EPATH(terminal=True),
            [("S=%d,L=%d" % (S, L), bytes(bytearray([S, 0x91, L])) + body + tl, 1 + 2 * S, (S, L) != (4, 6))
             for S in range(0, 7) for L in range(0, 9)])
        add("EPATH_single.symbolic.length" + sfx, lambda: P.EPATH_single(terminal=True),
            [("L=%d" % L, bytes(bytearray([0x91, L])) + body + tl, 2 + L + (L & 1), L != 6) for L in range(0, 10)])
        add("EPATH_single.link.length" + sfx, lambda: P.EPATH_single(terminal=True),
            [("L=%d" % L, bytes(bytearray([0x11, L])) + body + tl, 2 + L + (L & 1), L != 6) for L in range(0, 10)])
        add("EPATH_single.xlink.length" + sfx, lambda: P.EPATH_single(terminal=True),
            [("L=%d" % L, bytes(bytearray([0x1f, L, 0x34, 0x12])) + body + tl, 4 + L + (L & 1), L != 6) for L in range(0, 10)])
        for tname, typ, ibody in (("null", 0x0000, b""), ("legacy", 0x0001, LEGACY1), ("conn_id", 0x00a1, b"\x11\x22\x33\x44"),
                                  ("conn_data", 0x00b1, b"\x07\x00\x0e\x03\x20\x01"), ("unc_other", 0x00b2, GAA),
                                  ("unc_send", 0x00b2, USEND), ("unc_err", 0x00b2, b"\xd2\x00\x05\x00"),
                                  ("comm_svc", 0x0100, COMMSVC), ("identity", 0x000c, IDENTITY + b"\x03"),
                                  ("unknown", 0x1234, b"\xaa\xbb\xcc")):
            nat = len(ibody)
            add("CPF.item.length:%s%s" % (tname, sfx), lambda: P.CPF(terminal=True),
                [("L=%d" % L, b"\x01\x00" + struct.pack("<HH", typ, L) + ibody + tl, 6 + L, L != nat) for L in range(0, nat + 3)])
        add("send_data.CPF.item.length" + sfx, lambda: P.send_data(terminal=True),
            [("L=%d" % L, b"\x00\x00\x00\x00\x05\x00" + b"\x02\x00\x00\x00\x00\x00" + b"\xb2\x00" + struct.pack("<H", L) + GAA + tl,
              18 + L, L != 6) for L in range(0, 9)])
        for cname, cmd, cbody in (("register", 0x65, b"\x01\x00\x00\x00"), ("send_data", 0x6f, SEND_DATA),
                                  ("list_services", 0x04, CPF_SVC), ("unregister", 0x66, b"")):
            nat = len(cbody)
            add("CIP.enip.length:%s%s" % (cname, sfx), lambda: P.CIP(terminal=True),
                [("L=%d" % L, cbody + tl, L, L != nat) for L in range(0, nat + 3)], path="enip",
                seedf=lambda label, cmd=cmd: {"enip.command": cmd, "enip.length": int(label[2:])})
        for rname, head, enc in (("forward_open_reply", FWD_RPY_HEAD, 0xd4), ("forward_close_reply", FWD_CLOSE_RPY_HEAD, 0xce)):
            add("%s.application_size%s" % (rname, sfx),
                lambda enc=enc: device.Connection_Manager.parser.initial[enc],
                [("S=%d,m=%d" % (S, m), head + bytes(bytearray([S, 0])) + b"\xa1\xa2\xa3\xa4\xa5\xa6"[:m] + tl,
                  len(head) + 2 + 2 * S, 2 * S != m)
                 for S in range(0, 4) for m in range(0, 7)])
    return T


def emb_chunkings(n, boundary, tier):
    return lim_chunkings(n, boundary, tier)


def emb_run(acc, tname, label, tier, only=None):
    make, cases, path, seedf = emb_templates()[tname]
    (x, bound, nontriv), = [(c[1], c[2], c[3]) for c in cases if c[0] == label]
    machine = make()
    seed = seedf(label) if seedf else None
    for ch in emb_chunkings(len(x), bound, tier):
        r = drive(machine, x, ch, path=path, seed=seed)
        bad = accounting(r, x)
        if r.capped:
            bad.append(("run-does-not-terminate", "no end after %d events" % r.steps))
        if r.ok and r.sent > bound:
            kind = "embedded-length-overrun:%s" % tname.split("+")[0]
            if tname.startswith(("CPF.item.length:null", "CPF.item.length:unknown")):
                kind = "cpf-unrecognized-item-ignores-length"
            bad.append((kind, "terminal having consumed %d symbols; the length field (%s) allows at most %d" % (r.sent, label, bound)))
        case = {"part": "emb", "template": tname, "label": label, "chunk": list(ch), "tier": tier}
        if acc is not None:
            acc.ev()
            if nontriv:
                acc.ntc()
            acc.outcome("emb:" + r.outcome())
            if r.ok and nontriv and bound < len(x):
                acc.count("emb_terminal_with_deviating_length")
            for kind, msg in bad:
                acc.violation(kind, case, "%s %s input %s: %s" % (tname, label, x.hex(), msg))
        if only is not None and only == tuple(ch):
            return ["%s: %s" % (kd, m) for kd, m in bad]
    return []


def shard_emb(acc, tname, tier):
    make, cases, path, seedf = emb_templates()[tname]
    for c in cases:
        emb_run(acc, tname, c[0], tier)
    acc.sample({"part": "emb", "template": tname, "cases": [c[0] for c in cases][:12]})


# ------------------------------------------------------------------------------------------------
# rep: a repeat count runs the sub-grammar exactly that many times

REP_KINDS = ["chain1", "chain2", "chain3", "collect1", "collect2", "octets", "octets_drop", "words"]
REP_FORMS = ["int", "path", "prefix"]


def rep_build(kind, rform, n):
    """-> (machine, prefix, seed, j, watch, listkey).  The repeating dfa collects into context 'r'."""
    e = env()
    cpppo, P = e["cpppo"], e["parser"]
    repeat = n if rform == "int" else "..cnt"
    watch = None
    listkey = None
    if kind.startswith("chain"):
        j = int(kind[5:])
        sts = [cpppo.state_input("s%d" % i, alphabet=cpppo.type_bytes_iter, typecode=cpppo.type_bytes_array_symbol,
                                 terminal=(i == j - 1)) for i in range(j)]
        for a, b2 in zip(sts, sts[1:]):
            a[True] = b2
        rep = cpppo.dfa("rep", initial=sts[0], repeat=repeat, context="r", terminal=True)
        watch = (rep, sts[0])
        listkey = ("r.input", j)
    elif kind.startswith("collect"):
        j = int(kind[7:])
        item = (P.USINT if j == 1 else P.UINT)("it", extension=".it")
        item[None] = P.move_if("mv", source=".it", destination=".data", initializer=lambda **kw: [])
        item[None] = cpppo.state("done", terminal=True)
        rep = cpppo.dfa("all", initial=item, repeat=repeat, context="r", terminal=True)
        watch = (rep, item)
        listkey = ("r.data", 1)
    elif kind == "octets":
        j = 1
        rep = P.octets(context="r", repeat=repeat, terminal=True)
        watch = (rep, rep.initial)
        listkey = ("r.input", 1)
    elif kind == "octets_drop":
        j = 1
        rep = P.octets_drop(context="r", repeat=repeat, terminal=True)
        watch = (rep, rep.initial)
    elif kind == "words":
        j = 2
        rep = P.words(context="r", repeat=repeat, terminal=True)
        watch = (rep, rep.initial)
        listkey = ("r.input", 2)
    else:
        raise_harness("rep kind " + kind)
    prefix, seed = b"", {}
    machine = rep
    if rform == "path":
        seed = {"cnt": n}
    elif rform == "prefix":
        cnt = P.USINT("cnt", context="cnt")
        cnt[None] = rep
        machine = cpppo.dfa("HP", initial=cnt, terminal=True)
        prefix = bytes(bytearray([n]))
    return machine, prefix, seed, j, watch, listkey


def rep_chunkings(n, tier):
    out = [("P",), ("C",)]
    if n >= 2:
        out.append(("B",))
    if tier == "thorough":
        out += [("S", i) for i in range(1, n)]
    return out


def rep_syn(acc, kind, rform, n, d, tier, only=None):
    machine, prefix, seed, j, watch, listkey = rep_build(kind, rform, n)
    need = n * j
    ln = need + d
    if ln < 0:
        return []
    x = prefix + bytes(bytearray((0x10 + i) & 0xFF for i in range(ln)))
    e0 = len(prefix)
    for ch in rep_chunkings(len(x), tier):
        r = drive(machine, x, ch, seed=seed, watch=watch, lens=(listkey[0],) if listkey else ())
        bad = accounting(r, x)
        consumed = r.sent - e0
        collected = None
        if listkey is not None:
            collected = r.lens[listkey[0]]
            if collected > 0:
                collected //= listkey[1]
        desc = "%s repeat=%r(%s) n=%d, %d symbols supplied (need %d)" % (kind, n, rform, n, ln, need)
        if r.capped:
            bad.append(("run-does-not-terminate", "no end after %d events" % r.steps))
        if r.ok:
            if d < 0:
                bad.append(("repeat-short-accepted:%s" % kind, "%s: terminal although input is short" % desc))
            if consumed != need or r.events != n or (collected is not None and collected != n):
                bad.append(("repeat-count-wrong:%s" % kind, "%s: terminal after %d cycles, %d symbols consumed, %r elements collected"
                            % (desc, r.events, consumed, collected)))
        elif d >= 0 and n >= 1:
            bad.append(("repeat-rejects-sufficient-input:%s" % kind, "%s: ends %s %s after %d cycles" % (desc, r.outcome(), r.msg or "", r.events)))
        elif d >= 0 and n == 0 and r.exc is None and (consumed != 0 or r.events != 0):
            bad.append(("repeat-count-wrong:%s" % kind, "%s: %d cycles, %d consumed" % (desc, r.events, consumed)))
        case = {"part": "rep", "kind": kind, "rform": rform, "n": n, "d": d, "chunk": list(ch), "tier": tier}
        if acc is not None:
            acc.ev()
            if n >= 1 or d > 0:
                acc.ntc()
            acc.outcome("rep:%s:%s" % ("short" if d < 0 else "exact" if d == 0 else "surplus", r.outcome()))
            if r.ok:
                acc.count("rep_terminal_n=%d" % n)
            for kd, msg in bad:
                acc.violation(kd, case, msg)
        if only is not None and only == tuple(ch):
            return ["%s: %s" % (kd, m) for kd, m in bad]
    return []


def rep_real_templates():
    """count/length fields of real grammars: name -> (make, [(label, x, n, enough, need_consumed, listkey)])"""
    e = env()
    P, device = e["parser"], e["device"]
    T = {}
    item = b"\xa1\x00\x04\x00\x11\x22\x33\x44"
    T["CPF.count"] = (lambda: P.CPF(terminal=True), [
        ("n=%d,m=%d" % (n, m), struct.pack("<H", n) + item * m, n, m >= n, 2 + 8 * n, "CPF.item")
        for n in range(0, 4) for m in range(0, 5)], None)
    T["status.ext_size"] = (lambda: P.status(terminal=True), [
        ("n=%d,m=%d" % (n, m), bytes(bytearray([5, n])) + b"\x34\x12" * m, n, m >= n, 2 + 2 * n, "status_ext.data")
        for n in range(0, 4) for m in range(0, 5)], None)
    T["get_attribute_list.number"] = (lambda: device.Object.parser.initial[0x03], [
        ("n=%d,m=%d" % (n, m), b"\x03\x02\x20\x01\x24\x01" + struct.pack("<H", n) + b"\x07\x00" * m, n, m >= n, 8 + 2 * n,
         "get_attribute_list")
        for n in range(1, 4) for m in range(0, 5)], None)
    T["enip_machine.length"] = (lambda: P.enip_machine(terminal=True), [
        ("n=%d,m=%d" % (n, m), HDR0[:2] + struct.pack("<H", n) + HDR0[4:] + b"\xb1\xb2\xb3\xb4\xb5\xb6"[:m], n, m >= n, 24 + n,
         "enip.input")
        for n in range(0, 5) for m in range(0, 7)], None)
    T["unconnected_send.length"] = (lambda: P.unconnected_send(terminal=True), [
        ("n=%d,m=%d" % (n, m), USEND[:8] + struct.pack("<H", n) + b"\xc1\xc2\xc3\xc4\xc5\xc6\xc7"[:m] + (b"\x00" if m & 1 else b"") + b"\x01\x00\x01\x00",
         n, m == n, 8 + 2 + n + (n & 1) + 4, "unconnected_send.request.input")
        for n in range(0, 6) for m in range(0, 7) if m >= n or m == n - 1], None)
    return T


def rep_real(acc, tname, label, tier, only=None):
    make, cases, _ = rep_real_templates()[tname]
    (x, n, enough, need, listkey), = [c[1:] for c in cases if c[0] == label]
    machine = make()
    for ch in rep_chunkings(len(x), tier):
        r = drive(machine, x, ch, lens=(listkey,))
        bad = accounting(r, x)
        collected = r.lens[listkey]
        desc = "%s %s" % (tname, label)
        if r.capped:
            bad.append(("run-does-not-terminate", "no end after %d events" % r.steps))
        exact_known = tname != "unconnected_send.length" or enough
        if r.ok:
            if collected != n:
                bad.append(("repeat-count-wrong:%s" % tname, "%s: terminal with %d elements collected for a count of %d (consumed %d)"
                            % (desc, collected, n, r.sent)))
            elif exact_known and enough and r.sent != need:
                bad.append(("repeat-count-wrong:%s" % tname, "%s: terminal having consumed %d, the count allows exactly %d" % (desc, r.sent, need)))
            elif not enough and tname != "unconnected_send.length":
                bad.append(("repeat-short-accepted:%s" % tname, "%s: terminal although fewer elements than the count were supplied" % desc))
        elif enough and (n >= 1 or tname in ("CPF.count", "status.ext_size", "enip_machine.length", "unconnected_send.length")):
            bad.append(("repeat-rejects-sufficient-input:%s" % tname, "%s: ends %s %s" % (desc, r.outcome(), r.msg or "")))
        case = {"part": "repreal", "template": tname, "label": label, "chunk": list(ch), "tier": tier}
        if acc is not None:
            acc.ev()
            acc.ntc()
            acc.outcome("repreal:%s:%s" % ("enough" if enough else "short", r.outcome()))
            for kd, msg in bad:
                acc.violation(kd, case, "input %s: %s" % (x.hex(), msg))
        if only is not None and only == tuple(ch):
            return ["%s: %s" % (kd, m) for kd, m in bad]
    return []


def shard_rep(acc, kind, tier):
    if kind in REP_KINDS:
        for rform in REP_FORMS:
            for n in range(0, 5):
                for d in range(-2, 4):
                    rep_syn(acc, kind, rform, n, d, tier)
        acc.sample({"part": "rep", "kind": kind, "forms": REP_FORMS, "n": "0..4", "supplied": "n*j-2..n*j+3"})
    else:
        for c in rep_real_templates()[kind][1]:
            rep_real(acc, kind, c[0], tier)


# ------------------------------------------------------------------------------------------------
# iter: peeking / chaining against a list model

ITER_OPS = ["n", "p", "u", "c0", "c1", "c2"]


def iter_run(klass, init, ops):
    """Run one op sequence on the real iterator and on the model; -> (messages, interesting)"""
    cpppo = env()["cpppo"]
    cnt = [0]
    serial = itertools.count(1)
    first = [next(serial) for _ in range(init)]
    src = (cpppo.peeking if klass == "peeking" else cpppo.chaining)(Raw(first, cnt))
    q = list(first)          # model: everything not yet delivered, in delivery order
    sent = 0
    last = []                # symbols delivered by next and not pushed back (most recent last)
    fed = init
    for i, op in enumerate(ops):
        if op == "n":
            try:
                got = next(src)
            except StopIteration:
                got = StopIteration
            want = q.pop(0) if q else StopIteration
            if want is not StopIteration:
                sent += 1
                last.append(want)
            if got != want:
                return ["op %d next -> %r, model %r" % (i, got, want)]
        elif op == "p":
            got = src.peek()
            want = q[0] if q else None
            if got != want:
                return ["op %d peek -> %r, model %r" % (i, got, want)]
        elif op == "u":
            sym = last.pop() if last else 1000 + i
            src.push(sym)
            q.insert(0, sym)
            sent -= 1
        else:
            blk = [next(serial) for _ in range(int(op[1]))]
            src.chain(Raw(blk, cnt))
            q.extend(blk)
            fed += len(blk)
        if src.sent != sent:
            return ["after op %d (%s) of %r on %s(init %d): sent=%d, model (delivered - pushed back) = %d"
                    % (i, op, ops, klass, init, src.sent, sent)]
    # drain: everything pending comes out in order, and the final accounting holds
    out = []
    while True:
        try:
            out.append(next(src))
        except StopIteration:
            break
        if len(out) > 64:
            break
    if out != q:
        return ["after %r on %s(init %d): pending symbols %r, model %r" % (ops, klass, init, out, q)]
    if src.sent != sent + len(q):
        return ["after draining %r: sent=%d, model %d" % (ops, src.sent, sent + len(q))]
    if cnt[0] != fed:
        return ["raw iterators handed out %d symbols of %d" % (cnt[0], fed)]
    return []


def shard_iter(acc, klass, init, first, depth):
    ops_all = ITER_OPS if klass == "chaining" else ITER_OPS[:3]
    for d in range(0, depth):
        for rest in itertools.product(ops_all, repeat=d):
            ops = (first,) + rest
            acc.ev()
            if "n" in ops and any(o != "n" and o != "p" for o in ops):
                acc.ntc()
            msgs = iter_run(klass, init, ops)
            acc.outcome("iter:ok" if not msgs else "iter:bad")
            for m in msgs:
                acc.violation("sent-accounting:%s" % klass, {"part": "iter", "klass": klass, "init": init, "ops": list(ops)}, m)
    acc.sample({"part": "iter", "klass": klass, "init": init, "first_op": first, "depth": depth})


# ------------------------------------------------------------------------------------------------

def shard(acc, item, tier, seed):
    part = item[0]
    if part == "lim":
        shard_lim(acc, item[1], item[2], item[3], tier)
    elif part == "emb":
        shard_emb(acc, item[1], tier)
    elif part == "rep":
        shard_rep(acc, item[1], tier)
    elif part == "iter":
        shard_iter(acc, item[1], item[2], item[3], item[4])
    else:
        raise_harness("unknown shard %r" % (item,))


def run(ctx):
    items = []
    cat = catalog()
    for name in sorted(cat):
        for si in range(len(cat[name].sents(ctx.tier))):
            for form in (CLASS_FORMS if cat[name].kind == "class" else INST_FORMS):
                items.append(("lim", name, si, form))
    for tname in sorted(emb_templates()):
        items.append(("emb", tname))
    for kind in REP_KINDS + sorted(rep_real_templates()):
        items.append(("rep", kind))
    depth = 6 if ctx.quick else 7
    for klass in ("peeking", "chaining"):
        for init in (0, 1, 2):
            for first in (ITER_OPS if klass == "chaining" else ITER_OPS[:3]):
                items.append(("iter", klass, init, first, depth + (2 if klass == "peeking" else 0)))
    acc = ctx.pmap(__name__, "shard", items)
    acc.count("specs", len(cat))
    return acc


OPEN_FINDING = "cpf-unrecognized-item-ignores-length"


def guards(acc, ctx):
    g = []
    c = acc.counters
    if any(v["kind"] != OPEN_FINDING for v in acc.violations):
        return g            # a run that reports violations is not silently green; the counts below describe a healthy tree
    if c.get("specs", 0) < 95:
        g.append("fewer than 95 machine specs in the catalogue (%d)" % c.get("specs", 0))
    if c.get("terminal_under_binding_limit", 0) < 1000:
        g.append("fewer than 1000 runs ended terminal under a limit that lies inside the input")
    if c.get("terminal_exactly_at_limit", 0) < 500:
        g.append("fewer than 500 runs stopped exactly at the limit")
    if c.get("failed_under_binding_limit", 0) < 1000:
        g.append("fewer than 1000 runs failed because the limit cut an element")
    if c.get("compared_with_reference", 0) < 5000:
        g.append("fewer than 5000 runs compared with the unlimited reference parse")
    if c.get("emb_terminal_with_deviating_length", 0) < 50:
        g.append("fewer than 50 terminal parses with a deviating embedded length field")
    for n in range(0, 5):
        if c.get("rep_terminal_n=%d" % n, 0) < 20:
            g.append("fewer than 20 terminal repeat runs for n=%d" % n)
    outs = acc.outcomes
    for form in CLASS_FORMS:
        if not outs.get(form + ":terminal") or not any(k.startswith(form + ":fail:") for k in outs):
            g.append("limit form %s did not show both terminal and failed runs" % form)
    if not any(k.startswith("rep:short:fail") for k in outs) or not outs.get("rep:surplus:terminal"):
        g.append("repeat runs did not show short-input failures and surplus-input successes")
    if outs.get("iter:ok", 0) < 10000:
        g.append("fewer than 10000 iterator op sequences checked")
    return g


def replay(case):
    part = case["part"]
    tier = case.get("tier", "quick")
    if part == "lim":
        spec = catalog()[case["spec"]]
        return lim_group(None, spec, case["si"], case["form"], case["k"], tier, only=(case["tail"], tuple(case["chunk"])))
    if part == "valid":
        spec = catalog()[case["spec"]]
        for c, msgs in lim_validity(None, spec, case["si"], tier):
            if c["tail"] == case["tail"] and c["chunk"] == list(case["chunk"]):
                return msgs
        return []
    if part == "emb":
        return emb_run(None, case["template"], case["label"], tier, only=tuple(case["chunk"]))
    if part == "rep":
        return rep_syn(None, case["kind"], case["rform"], case["n"], case["d"], tier, only=tuple(case["chunk"]))
    if part == "repreal":
        return rep_real(None, case["template"], case["label"], tier, only=tuple(case["chunk"]))
    if part == "iter":
        return iter_run(case["klass"], case["init"], tuple(case["ops"]))
    raise_harness("unknown case part %r" % part)
