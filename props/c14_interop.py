"""C14 -- independent Logix client implementations interoperate with the simulator (E-state, two independent clients).

Part A  pylogix 1.1.6 (an independent EtherNet/IP client; shares no code with cpppo) runs in-process on a socket shim
        (mc/pylogixenv.py) against the REAL server loop main.enip_srv_tcp + logix.process.  Explicit-state BFS to closure
        over  state = (tag store, connected?, tags whose type pylogix has cached)  -- the third component is the only
        client-side state that changes what pylogix puts on the wire (a first access is preceded by a one-element probe
        read); sequence counters, sender contexts, session handles and connection ids are abstracted (they only grow) and
        that abstraction is cross-checked by running every API-call sequence of length <= 3 from a fresh system -- with
        pylogix' sequence counter started just below 0x8000 or 0x10000 (a long-lived session gets there).
        Every state is re-established from a fresh PLC object + fresh TCP session by real requests only.
        Oracle (from the statement + pylogix' documented Response): a dict-of-lists array model gives the value / the
        status string of every call; Close leaves no Connection_Manager.forwards entry, no UCMM session and a finished
        server thread; the next call reconnects (Register + Forward Open) and is judged like any other.  On top, every
        frame the server sent to pylogix must be accepted by the reference decoder and echo command / session / sender
        context / connection id / sequence count of the request it answers.

Part B  the reference codec mc/refcip.py (struct only) is the client: every request of the C03 alphabet is encoded byte by
        byte and sent through every transport -- SendRRData bare, SendRRData + Unconnected Send wrapper (with and without
        a route path), SendUnitData over a small and over a large Forward Open connection that are open at the same time
        (own sequence counts, starting just below 0x8000 resp. 0x10000 so that both the sign bit and the wrap-around are crossed), and as a member of a Multiple Service Packet (unconnected and connected) --
        from every state of the closed tag-store graph.  Replies must be accepted by refcip.decode_reply_frame, echo
        session / context / connection id / sequence, and are judged by the array model mc.refmodel.TagModel (values,
        statuses, effect on the store).  Every state runs one complete life cycle Register -> Forward Open (small) ->
        Forward Open (large) -> requests -> Forward Close -> the other connection still works -> Forward Close ->
        Unregister, with the `forwards` table checked at each step.
"""
import itertools
import re
import struct

from mc import core, explore, pylogixenv as PE, refcip as R, refmodel, sim, wire as W
from props import tagstore as TS

ID = "C14"
LEVEL = "model_checking"
ISOLATE_SHARDS = True        # every shard runs in a forked child of a pristine worker (mc/core.py)
RULE = ("Part A: BFS to closure over (tag store, connected?, pylogix type cache); from every state every call of the API "
        "alphabet (Read scalar/element/range/array needing >= 3 replies, multi-tag Read lists, Write scalar/element/range/"
        "array needing several Write Tag Fragmented requests, out-of-range index, unknown tag, Close + reconnect) judged "
        "by the array model, the forwards/sessions tables and a reference decode of every reply frame; plus every call "
        "sequence of length <= 3 from a fresh system.  Part B: BFS to closure over the tag store; from every state every "
        "request of the C03 alphabet encoded by refcip x every transport (bare / Unconnected Send / small and large "
        "Forward Open connection / Multiple Service Packet).  non-trivial = distinct (state, call) resp. (state, request, "
        "transport) that is not a read of the all-zero initial store through an already-exercised path: writes, reads of "
        "a non-initial store, error cases, connects/closes")
BOUNDS = {
    "quick": "A: DINT on a[3]+s (2 values/element, 3rd boundary value as read-back probe): closure = 54 states; DINT on "
             "big[300]+s (two whole-array patterns, connection size 504 -> small Forward Open, 4 write fragments): 17 states; "
             "REAL, BOOL on a[2]+s: 30 states each; INT on a[2]+s with a two-hop pylogix Route (two port segments in the connection path); call sequences from a fresh system: all of length <= 2 over the full "
             "a[2]+s alphabet (DINT), all of length <= 3 over a 12-call alphabet (DINT), all of length <= 2 over that alphabet "
             "for the other 8 types.  B: INT on config tiny (a[2], s, b[1]@0x401/1/1; closure = 16 stores) x 180 requests x 7 "
             "transports; the other 12 element types from the initial store x 2 transports (Unconnected Send, large connection)",
    "thorough": "A: all 11 element types pylogix and cpppo share (BOOL SINT INT DINT LINT USINT UINT UDINT ULINT REAL LREAL) on "
                "a[3]+s (54 states each, large Forward Open; INT also on a small one) and on big[N]+s (N = 1000/600/300/150 by "
                "element size, >= 3 replies per full read; small Forward Open; DINT, SINT, LREAL also on a large one); call "
                "sequences of length <= 3 over a 22-call alphabet (DINT) and over the 12-call alphabet (REAL, BOOL, LINT, USINT).  "
                "B: all 13 element types on config tiny to closure (16 stores): INT (with cross-type writes), REAL, SSTRING, "
                "STRING x 7 transports, the others x 3 transports (Unconnected Send, large connection, bundle on alternating "
                "connections); DINT on config small (64 stores) x 7 transports",
}
ASSUMPTIONS = [
    "pylogix 1.1.6 as installed in /venv; its randrange (T->O connection id, connection serial) is replaced by a counter",
    "pylogix is driven through PLC.Read / PLC.Write / PLC.Close only (conn.connect() is used once to seat the state "
    "'connected with an empty type cache', as cpppo's own test_logix_remote_pylogix does); STRING/UDT tags, bit-of-word and "
    "BOOL-array (DWORD) access are outside what both sides support",
    "pylogix renders the general status 0xFF as 'Unknown error 255' (it has no name for it) and drops the extended status; "
    "the range error 0xFF/0x2105 is therefore checked down to the general status in Part A and completely in Part B",
    "a reply's connected address item may carry either the O->T id the request used (what cpppo echoes) or the T->O id of "
    "the Forward Open; the statement does not say which",
    "Part B: a bare (unwrapped) Read Tag Fragmented 0x52 in SendRRData is indistinguishable from the Unconnected Send "
    "service and is not sent bare",
]

OK_, UNKNOWN, RANGE = "Success", "Path destination unknown", "Unknown error 255"
A_TYPES = ["BOOL", "SINT", "INT", "DINT", "LINT", "USINT", "UINT", "UDINT", "ULINT", "REAL", "LREAL"]
REPLY_BYTES = 488          # documented capacity of one simulator reply (Logix.MAX_BYTES default); only used to size arrays


# ======================================================================================================
# Part A: configurations, alphabets, array model

def big_len(typ):
    return {1: 1000, 2: 600, 4: 300, 8: 150}[W.SIZE[W.TYPE_CODE[typ]]]


def a_config(typ, variant):
    if variant == "arr":
        return (("a", typ, 3, None), ("S", typ, None, None))
    if variant in ("arr2", "arr2r"):                  # arr2r: the client reaches the controller over a two-hop route
        return (("a", typ, 2, None), ("S", typ, None, None))
    if variant == "big":
        return (("Big", typ, big_len(typ), None), ("S", typ, None, None))
    raise ValueError(variant)


def zero_of(typ):
    return False if typ == "BOOL" else (0.0 if typ in ("REAL", "LREAL") else 0)


def pattern(typ, k, n):
    """the two whole-array contents of the big tag: 0 = all zero, 1 = index-dependent values over the type's range"""
    if k == 0:
        return [zero_of(typ)] * n
    t = W.TYPE_CODE[typ]
    if typ == "BOOL":
        return [bool((i // 3 + i) % 2) for i in range(n)]
    if typ == "REAL":
        return [(i - 40) * 0.5 for i in range(n)]
    if typ == "LREAL":
        return [(i - 70) * 0.125 for i in range(n)]
    lo, hi = W.INT_RANGE[t]
    span = hi - lo + 1
    out = [lo + (i * 2654435761 + 40503) % span for i in range(n)]
    out[0], out[-1] = hi, lo
    return out


def a_ops(cfgkey):
    """[(op, closed)]: op = ("R",tag,count) | ("M",[tag | [tag,count] ...]) | ("W",tag,value|[values]) |
    ("WP",pattern,start,count) | ("C",).  closed=False: judged, read back and undone, successor not expanded."""
    typ, variant, _ = cfgkey
    vals = TS.VALS[typ][:2]
    third = TS.VALS[typ][2] if len(TS.VALS[typ]) > 2 else None
    v0, v1 = vals
    ops = []
    if variant in ("arr", "arr2", "arr2r"):
        n = 3 if variant == "arr" else 2
        idx = lambda i: "a" if i == 0 else "a[%d]" % i
        ops.append((("R", "s", 1), True))
        for i in range(n):
            for c in range(1, n - i + 1):
                ops.append((("R", idx(i), c), True))
        ops.append((("R", "a[0]", n), True))
        for bad in (("R", "a[%d]" % n, 1), ("R", "a[1]", n), ("R", "a", n + 1), ("R", "s", 2), ("R", "s[1]", 1),
                    ("R", "nope", 1), ("R", "nope[1]", 2)):
            ops.append((bad, True))
        ops.append((("M", ["a", "s"]), True))
        ops.append((("M", ["s", "nope", "a[%d]" % (n - 1)]), True))
        ops.append((("M", [["a[1]", n - 1], "s", "a[%d]" % n, "a[1]"]), True))
        ops.append((("M", ["a[1]", "a[%d]" % (n - 1), "a[0]", "s", "a", ["a", n]]), True))
        for v in vals:
            ops.append((("W", "s", v), True))
        for i in range(n):
            for v in vals:
                ops.append((("W", idx(i), v), True))
        for start, length in ((0, n), (1, n - 1), (0, n - 1)):
            if length < 2:
                continue
            for vec in itertools.product(vals, repeat=length):
                ops.append((("W", idx(start), list(vec)), True))
        if third is not None:
            ops.append((("W", "s", third), False))
            ops.append((("W", "a[%d]" % (n - 1), third), False))
            ops.append((("W", "a", [third] * n), False))
        for bad in (("W", "a[%d]" % n, v1), ("W", "a[%d]" % (n - 1), [v1, v1]), ("W", "nope", v1), ("W", "s[1]", v1)):
            ops.append((bad, True))
        ops.append((("C",), True))
        return ops
    n = big_len(typ)
    per = REPLY_BYTES // W.SIZE[W.TYPE_CODE[typ]]
    mid = n // 2 - 3
    ops += [(("R", "big", n), True), (("R", "big[1]", n - 1), True), (("R", "big[%d]" % mid, n - mid), True),
            (("R", "big[%d]" % mid, 5), True), (("R", "big[%d]" % (n - 1), 1), True), (("R", "big", per + 1), True),
            # spans that are an exact multiple of what one reply carries, from a zero and a non-zero start
            (("R", "big", per), True), (("R", "big[3]", per), True), (("R", "big[1]", 2 * per), True),
            (("R", "big[%d]" % (n - 1), 2), True), (("R", "big", n + 1), True), (("R", "big[%d]" % n, 1), True),
            (("M", [["big", n], "s"]), True), (("M", ["big[5]", "s", "big[%d]" % (n - 1)]), True),
            (("R", "s", 1), True),
            (("WP", 0, 0, n), True), (("WP", 1, 0, n), True),
            (("WP", 1, mid, n - mid), False), (("WP", 1, 1, 7), False), (("WP", 1, n - 2, 2), False),
            (("WP", 1, n - 1, 2), True), (("WP", 1, 10, n), True),
            (("W", "s", v0), True), (("W", "s", v1), True), (("C",), True)]
    return ops


SEQ12 = [("R", "s", 1), ("R", "a", 2), ("R", "a[1]", 1), ("R", "a[2]", 1), ("R", "nope", 1), ("M", ["a", "s", "a[1]"]),
         ("W", "s", 1), ("W", "a[1]", 1), ("W", "a", [1, 0]), ("W", "a[2]", 1), ("W", "nope", 1), ("C",)]
SEQ22 = SEQ12 + [("R", "a[1]", 2), ("R", "a", 3), ("M", [["a", 2], "nope", "s"]), ("W", "s", 0), ("W", "a[1]", 0),
                 ("W", "a[1]", [1, 1]), ("R", "s[1]", 1), ("W", "a[2]", [1, 1]), ("R", "A", 1), ("W", "a", [0, 0])]


def seq_alphabet(cfgkey, name):
    """call alphabets of the sequences from a fresh system; SEQ12/SEQ22 are written with 0/1 and mapped onto the type's
    first two boundary values (on a[2] configurations index 2 is an out-of-range index)"""
    typ, variant, _ = cfgkey
    if name == "full":
        return [op for op, closed in a_ops(cfgkey) if closed]
    v = TS.VALS[typ]
    out = []
    for op in (SEQ12 if name == "seq12" else SEQ22):
        if op[0] == "W":
            val = op[2]
            val = [v[x] for x in val] if isinstance(val, list) else v[val]
            op = ("W", op[1], val)
        out.append(op)
    return out


_TAG_RE = re.compile(r"^([A-Za-z_][A-Za-z0-9_]*)(?:\[(\d+)\])?$")


class ArrayModel:
    """dict of lists; tag names case-insensitive; the oracle of Part A"""

    def __init__(self, cfg):
        self.cfg = cfg
        self.v = {}
        self.typ = {}
        for name, typ, length, _ in cfg:
            self.v[name.lower()] = [zero_of(typ)] * (1 if length is None else length)
            self.typ[name.lower()] = typ

    def load(self, store):
        for name, vals in store:
            self.v[name.lower()][:] = list(vals)

    def store(self):
        return tuple((name, tuple(self.v[name.lower()])) for name, _, _, _ in self.cfg)

    def locate(self, tag, count):
        m = _TAG_RE.match(tag)
        base, i = m.group(1).lower(), int(m.group(2) or 0)
        if base not in self.v:
            return UNKNOWN, None, 0
        if count < 1 or i + count > len(self.v[base]):
            return RANGE, base, i
        return OK_, base, i

    def read(self, tag, count):
        st, base, i = self.locate(tag, count)
        if st != OK_:
            return st, None
        vals = self.v[base][i:i + count]
        return OK_, (vals[0] if count == 1 else vals)

    def write(self, tag, values):
        st, base, i = self.locate(tag, len(values))
        if st == OK_:
            self.v[base][i:i + len(values)] = list(values)
        return st


def same_value(typ, want, got):
    """wire-level equality in the tag's own type, and the Python kind pylogix documents for it"""
    t = W.TYPE_CODE[typ]
    if typ == "BOOL":
        if not isinstance(got, bool):
            return False
    elif typ in ("REAL", "LREAL"):
        if not isinstance(got, float):
            return False
    elif isinstance(got, bool) or not isinstance(got, int):
        return False
    try:
        return W.enc_value(t, want) == W.enc_value(t, got)
    except (struct.error, OverflowError, TypeError):
        return False


def same_result(typ, want, got):
    if isinstance(want, list):
        return isinstance(got, list) and len(got) == len(want) and all(same_value(typ, a, b) for a, b in zip(want, got))
    return not isinstance(got, list) and same_value(typ, want, got)


# ======================================================================================================
# Part A: the rig (real simulator + pylogix + model)

class ARig:
    def __init__(self, cfgkey):
        typ, variant, connsize = cfgkey
        self.cfgkey = cfgkey
        self.typ = typ
        self.t = W.TYPE_CODE[typ]
        self.cfg = a_config(typ, variant)
        self.connsize = connsize
        self.sim = sim.Sim(self.cfg)
        self.M = self.sim.M
        self.model = ArrayModel(self.cfg)
        self.names = [c[0] for c in self.cfg]
        self.client = {c[0]: c[0].lower() for c in self.cfg}       # the name the client uses
        self.big_n = big_len(typ) if variant == "big" else None
        self.pats = ({k: tuple(refmodel.canon_value(self.t, x) for x in pattern(typ, k, self.big_n)) for k in (0, 1)}
                     if self.big_n else {})
        self.env = None
        self.comm = None
        self.seq_start = None        # where a fresh pylogix client starts its connected sequence count (None: pylogix' own start)
        self.handles = {}
        self.conn_ids = {}
        self.to_ids = {}

    # -- canonical state -------------------------------------------------------------------------------
    def canon_store(self):
        out = []
        for name, vals in self.sim.store():
            c = tuple(refmodel.canon_value(self.t, v) for v in vals)
            if len(c) > 8:
                for k, p in self.pats.items():
                    if c == p:
                        c = ("pat", k)
                        break
                else:
                    c = ("other", core.h64(c))
            out.append((name, c))
        return tuple(out)

    def expand_store(self, store):
        out = []
        for name, c in store:
            if len(c) == 2 and c[0] == "pat":
                c = self.pats[c[1]]
            out.append((name, tuple(c)))
        return tuple(out)

    def model_canon(self):
        out = []
        for name, vals in self.model.store():
            c = tuple(refmodel.canon_value(self.t, v) for v in vals)
            if len(c) > 8:
                for k, p in self.pats.items():
                    if c == p:
                        c = ("pat", k)
                        break
                else:
                    c = ("other", core.h64(c))
            out.append((name, c))
        return tuple(out)

    def state(self):
        return (self.canon_store(), bool(self.comm.conn.SocketConnected), tuple(sorted(self.comm.KnownTags)))

    # -- (re-)establishing a state -------------------------------------------------------------------------
    def fresh_client(self):
        if self.env is not None:
            self.env.close_all()                      # harness hygiene: EOF whatever is still open
        self.M.device.Connection_Manager.forwards.clear()
        self.M.ucmm.UCMM.sessions.clear()
        self.sim.rnd.counter = itertools.count(0x1000)
        self.env = PE.Env(self.sim)
        self.comm = self.env.plc(connection_size=self.connsize)
        if self.seq_start is not None:
            self.comm.conn._sequence_counter = self.seq_start      # a 16-bit counter the client owns: any start is legal
        if self.cfgkey[1].endswith("r"):
            self.comm.Route = [(1, 3), (1, 0)]          # backplane slot 3 (a bridge), then its backplane slot 0: two port segments
        self.handles = {}
        self.conn_ids = {}
        self.to_ids = {}

    def set_store(self, store):
        """real whole-tag Write Tag requests at the Connection Manager seam (never pokes values in); -> [(kind,msg)]"""
        cur = dict(self.canon_store())
        for name, c in store:
            if cur[name] == c:
                continue
            if len(c) == 2 and c[0] == "other":
                raise core.HarnessError("state %r is not seatable" % (store,))
            vals = dict(self.expand_store(((name, c),)))[name]
            try:
                r = W.dec_reply(self.sim.cm(W.write_tag(W.tag_path(name), self.t, list(vals), len(vals))))
            except Exception as exc:
                return [("seat-failed", "whole-tag Write Tag of %s=%s raised %s: %s" % (name, _short(c), type(exc).__name__, exc))]
            if r["status"] != 0:
                return [("seat-failed", "whole-tag Write Tag of %s=%s refused: %r" % (name, _short(c), r))]
        if self.canon_store() != store:
            return [("seat-failed", "whole-tag Write Tag requests acknowledged but the store is %s, not %s"
                     % (_short(self.canon_store()), _short(store)))]
        self.model.load(self.expand_store(store))
        return []

    def seat(self, state):
        store, connected, known = state
        bad = []
        self.fresh_client()
        bad += self.set_store(store)
        if bad:
            return bad
        mark = self.env.mark()
        for tag in known:
            r = self.comm.Read(tag)
            if r.Status != OK_:
                bad.append(("seat:warm-read-failed", "warming pylogix' type cache with Read(%r) gave %r" % (tag, r)))
        if connected and not known:
            ret = self.comm.conn.connect()
            if not ret[0]:
                bad.append(("seat:connect-failed", "conn.connect() -> %r" % (ret,)))
        if not connected and known:
            self.comm.Close()
        bad += self.check_transcript(self.env.since(mark))
        if self.state() != state:
            bad.append(("seat-failed", "could not re-establish %r; reached %r" % (state, self.state())))
        return bad

    # -- one API call ----------------------------------------------------------------------------------
    def call(self, op):
        """-> list of (TagName, Value, Status) triples (empty for Close); raises whatever pylogix raises"""
        k = op[0]
        if k == "R":
            r = self.comm.Read(op[1], op[2])
            return [(r.TagName, r.Value, r.Status)]
        if k == "M":
            rs = self.comm.Read([tuple(x) if isinstance(x, list) else x for x in op[1]])
            return [(r.TagName, r.Value, r.Status) for r in rs]
        if k == "W":
            r = self.comm.Write(op[1], op[2])
            return [(r.TagName, None, r.Status)]
        if k == "WP":
            _, pk, start, count = op
            vals = pattern(self.typ, pk, max(self.big_n, start + count))[start:start + count]
            r = self.comm.Write("big" if start == 0 else "big[%d]" % start, vals)
            return [(r.TagName, None, r.Status)]
        if k == "C":
            self.comm.Close()
            return []
        raise ValueError(op)

    def expect(self, op):
        """array model: -> list of (TagName, Value, Status); applies writes to the model"""
        k = op[0]
        if k == "R":
            st, val = self.model.read(op[1], op[2])
            return [(op[1], val, st)]
        if k == "M":
            out = []
            for it in op[1]:
                tag, cnt = (it[0], it[1]) if isinstance(it, list) else (it, 1)
                st, val = self.model.read(tag, cnt)
                out.append((tag, val, st))
            return out
        if k == "W":
            vals = op[2] if isinstance(op[2], list) else [op[2]]
            return [(op[1], None, self.model.write(op[1], vals))]
        if k == "WP":
            _, pk, start, count = op
            vals = pattern(self.typ, pk, max(self.big_n, start + count))[start:start + count]
            tag = "big" if start == 0 else "big[%d]" % start
            return [(tag, None, self.model.write(tag, vals))]
        return []

    def step(self, op):
        """execute + judge one call; returns [(kind, msg)] and info for the counters"""
        bad = []
        info = {"op": op[0], "statuses": [], "frames": 0, "frag_reads": 0, "frag_writes": 0, "reconnect": False}
        was_connected = bool(self.comm.conn.SocketConnected)
        mark = self.env.mark()
        n_exc = len(self.env.server_exceptions)
        want = self.expect(op)
        try:
            got = self.call(op)
        except Exception as exc:        # pylogix choking on what the server sent is an interoperability failure
            bad.append(("client-exception", "%r: pylogix raised %s: %s" % (op, type(exc).__name__, exc)))
            got = None
        if got is not None:
            if len(got) != len(want):
                bad.append(("wrong-response-count", "%r: %d responses, expected %d: %r" % (op, len(got), len(want), got)))
            for g, w_ in zip(got, want):
                info["statuses"].append(g[2])
                if g[2] != w_[2]:
                    bad.append(("wrong-status:%s->%s" % (w_[2], g[2]),
                                "%r: %s answered Status %r (Value %r), array model expects %r" % (op, w_[0], g[2], g[1], w_[2])))
                    continue
                if op[0] in ("R", "M"):
                    if str(g[0]).lower() != w_[0].lower():
                        bad.append(("wrong-response-tag", "%r: response for %r where %r was expected" % (op, g[0], w_[0])))
                    if w_[2] == OK_:
                        if not same_result(self.typ, w_[1], g[1]):
                            bad.append(("wrong-read-value", "%r: %s returned %s, array model holds %s"
                                        % (op, w_[0], _short(g[1]), _short(w_[1]))))
                    elif g[1] is not None:
                        bad.append(("error-with-value", "%r: %s failed with %r but carries Value %s" % (op, w_[0], g[2], _short(g[1]))))
        # -- the store is what the model says (acknowledged writes applied exactly, refused ones without effect)
        if self.canon_store() != self.model_canon():
            bad.append(("store-differs", "after %r the tag store is %s, array model says %s"
                        % (op, _short(self.canon_store()), _short(self.model_canon()))))
            self.model.load(self.expand_store_raw())
        # -- server side of the connection state
        connected = bool(self.comm.conn.SocketConnected)
        want_conn = op[0] != "C"
        if connected != want_conn:
            bad.append(("client-connection-state", "after %r pylogix is %sconnected" % (op, "" if connected else "not ")))
        frames = self.env.since(mark)
        bad += self.check_transcript(frames, info)
        bad += self.check_server(connected, op)
        if len(self.env.server_exceptions) > n_exc:
            bad.append(("server-thread-exception", "%r: enip_srv_tcp ended with %r" % (op, self.env.server_exceptions[n_exc:])))
        info["frames"] = sum(1 for f in frames if f[1] == "tx")
        info["reconnect"] = (not was_connected) and connected
        return bad, info

    def expand_store_raw(self):
        return tuple((name, tuple(refmodel.canon_value(self.t, v) for v in vals)) for name, vals in self.sim.store())

    # -- oracles on the server side ---------------------------------------------------------------------
    def check_server(self, connected, op):
        bad = []
        fw = sorted(self.M.device.Connection_Manager.forwards.keys(), key=repr)
        ses = dict(self.M.ucmm.UCMM.sessions)
        live = [i for i, s in enumerate(self.env.sessions) if s.alive]
        if connected:
            if len(live) != 1:
                bad.append(("server-sessions", "after %r pylogix is connected but %d server sessions are alive" % (op, len(live))))
                return bad
            peer = self.env.peers[live[0]]
            cid = self.conn_ids.get(live[0])
            if len(fw) != 1:
                bad.append(("forwards-table", "after %r (one open connection, peer %r, O->T id %r) Connection_Manager.forwards has keys %r"
                            % (op, peer, cid, fw)))
            if len(ses) != 1:
                bad.append(("ucmm-sessions", "after %r (one registered session, peer %r) UCMM.sessions is %r" % (op, peer, ses)))
        else:
            if fw:
                bad.append(("close-leaves-forward", "after %r pylogix has closed its connection but Connection_Manager.forwards "
                            "still holds %r" % (op, fw)))
            if ses:
                bad.append(("close-leaves-session", "after %r pylogix has unregistered but UCMM.sessions still holds %r" % (op, ses)))
            if live:
                bad.append(("close-leaves-thread", "after %r %d server session thread(s) still serve a closed connection" % (op, len(live))))
            for i, s in enumerate(self.env.sessions):
                if not s.alive and not s.conn.closed:
                    bad.append(("server-did-not-close", "session %d finished without closing its socket" % i))
        return bad

    def check_transcript(self, frames, info=None):
        """every reply the server sent must be acceptable to the reference decoder and answer the request before it"""
        bad = []
        pending = {}
        for i, d, b in frames:
            if d == "tx":
                try:
                    tx = R.dec_frame(b)
                except R.RefDecodeError as e:
                    raise core.HarnessError("reference decoder rejects a frame pylogix sent: %s: %s" % (e, b.hex()))
                if tx["command"] == R.CMD_UNREGISTER:
                    continue
                if i in pending:
                    bad.append(("no-reply", "request %s on session %d was never answered" % (pending[i][1].hex(), i)))
                pending[i] = (tx, b)
                continue
            try:
                rx = R.decode_reply_frame(b)
            except R.RefDecodeError as e:
                bad.append(("reply-rejected-by-reference-decoder", "server frame %s: %s" % (b.hex(), e)))
                pending.pop(i, None)
                continue
            if i not in pending:
                bad.append(("unsolicited-reply", "server sent %s on session %d without a request" % (b.hex(), i)))
                continue
            tx, txb = pending.pop(i)
            bad += self.check_pair(i, tx, txb, rx, b, info)
        for i, (tx, txb) in pending.items():
            bad.append(("no-reply", "request %s on session %d was never answered" % (txb.hex(), i)))
        return bad

    def check_pair(self, i, tx, txb, rx, rxb, info):
        bad = []
        what = "request %s -> reply %s" % (txb.hex(), rxb.hex())
        if rx["command"] != tx["command"]:
            bad.append(("reply-wrong-command", "%s: command 0x%04x answers 0x%04x" % (what, rx["command"], tx["command"])))
            return bad
        if rx["context"] != tx["context"]:
            bad.append(("reply-wrong-context", "%s: sender context %s, request had %s" % (what, rx["context"].hex(), tx["context"].hex())))
        if rx["status"] != 0:
            bad.append(("reply-encapsulation-error", "%s: encapsulation status 0x%x" % (what, rx["status"])))
        if tx["command"] == R.CMD_REGISTER:
            if not rx["session"]:
                bad.append(("register-no-session", "%s: no session handle" % what))
            if rx["payload"] != tx["payload"]:
                bad.append(("register-payload", "%s: protocol version/options not echoed" % what))
            self.handles[i] = rx["session"]
            return bad
        if rx["session"] != tx["session"] or rx["session"] != self.handles.get(i):
            bad.append(("reply-wrong-session", "%s: session 0x%x, registered 0x%x" % (what, rx["session"], self.handles.get(i, 0))))
        types = [it["type"] for it in (rx["payload"] or {}).get("cpf", [])] if isinstance(rx["payload"], dict) else None
        if tx["command"] == R.CMD_SEND_UNIT_DATA:
            txi = {it["type"]: it for it in tx["payload"]["cpf"]}
            if types != [R.ITEM_CONN_ADDR, R.ITEM_CONN_DATA]:
                bad.append(("reply-wrong-cpf-items", "%s: connected reply carries CPF item types %r" % (what, types)))
                return bad
            if rx.get("sequence") != txi[R.ITEM_CONN_DATA]["sequence"]:
                bad.append(("reply-wrong-sequence", "%s: sequence count %r, request had %r"
                            % (what, rx.get("sequence"), txi[R.ITEM_CONN_DATA]["sequence"])))
            if rx.get("connection") not in (txi[R.ITEM_CONN_ADDR]["connection"], self.to_ids.get(i)):
                bad.append(("reply-wrong-connection", "%s: connection id %r, request had %r"
                            % (what, rx.get("connection"), txi[R.ITEM_CONN_ADDR]["connection"])))
            if rx["cip"] is None:
                bad.append(("reply-without-cip", "%s: no CIP message" % what))
            elif info is not None:
                svc = rx["cip"]["service"] & 0x7F
                if svc == R.SVC_READ_FRAG:
                    info["frag_reads"] += 1
                if svc == R.SVC_WRITE_FRAG:
                    info["frag_writes"] += 1
        elif tx["command"] == R.CMD_SEND_RR_DATA:
            if types != [R.ITEM_NULL, R.ITEM_UNCONN_DATA]:
                bad.append(("reply-wrong-cpf-items", "%s: unconnected reply carries CPF item types %r" % (what, types)))
                return bad
            cip = rx["cip"]
            if cip is None:
                bad.append(("reply-without-cip", "%s: no CIP message" % what))
                return bad
            try:
                req = R.decode_request_frame(txb)["cip"]
            except R.RefDecodeError:
                req = None
            if req is not None and req["service"] in (R.SVC_FWD_OPEN, R.SVC_FWD_OPEN_LARGE):
                if cip["service"] != req["service"] | 0x80 or cip["status"] != 0:
                    bad.append(("forward-open-refused", "%s: Forward Open answered service 0x%02x status 0x%02x"
                                % (what, cip["service"], cip["status"])))
                else:
                    for k in ("T_O_connection_ID", "connection_serial", "O_vendor", "O_serial"):
                        if cip.get(k) != req.get(k):
                            bad.append(("forward-open-echo", "%s: %s %r, request had %r" % (what, k, cip.get(k), req.get(k))))
                    self.conn_ids[i] = cip["O_T_connection_ID"]
                    self.to_ids[i] = cip["T_O_connection_ID"]
                    if info is not None:
                        info["fo"] = "large" if req["service"] == R.SVC_FWD_OPEN_LARGE else "small"
            elif req is not None and req["service"] == R.SVC_FWD_CLOSE:
                if cip["service"] != 0xCE or cip["status"] != 0:
                    bad.append(("forward-close-refused", "%s: Forward Close answered service 0x%02x status 0x%02x"
                                % (what, cip["service"], cip["status"])))
                else:
                    for k in ("connection_serial", "O_vendor", "O_serial"):
                        if cip.get(k) != req.get(k):
                            bad.append(("forward-close-echo", "%s: %s %r, request had %r" % (what, k, cip.get(k), req.get(k))))
        return bad


def _short(x, n=160):
    s = repr(x)
    return s if len(s) <= n else s[:n] + "...(%d chars)" % len(s)


_arig = {}


def get_arig(cfgkey):
    r = _arig.get("rig")
    if r is None or _arig.get("key") != cfgkey:
        if r is not None and r.env is not None:
            r.env.close_all()
        _brig.clear()
        r = ARig(cfgkey)
        _arig["rig"], _arig["key"] = r, cfgkey
        _arig["ops"] = a_ops(cfgkey)
    return r, _arig["ops"]


def a_initial(cfgkey):
    typ, variant, _ = cfgkey
    cfg = a_config(typ, variant)
    z = refmodel.canon_value(W.TYPE_CODE[typ], zero_of(typ))
    store = tuple((name, ("pat", 0) if (ln or 1) > 8 else tuple([z] * (1 if ln is None else ln))) for name, _, ln, _ in cfg)
    return (store, False, ())


def record_info(acc, info, part="A"):
    for st in info["statuses"]:
        acc.outcome("%s:%s:%s" % (part, info["op"], st))
    if info["op"] == "C":
        acc.outcome("A:C:closed")
    if info["reconnect"]:
        acc.outcome("A:reconnect")
    if info["frag_reads"] >= 2:
        acc.outcome("A:read-in->=3-replies")
    if info["frag_writes"] >= 2:
        acc.outcome("A:write-in->=2-fragments")
    if info.get("fo"):
        acc.outcome("A:forward-open-" + info["fo"])


def expand_a(acc, item, tier, seed):
    cfgkey, states, (k_, K_) = item
    cfgkey = cfgkey[1:]
    rig, ops = get_arig(cfgkey)
    ops = ops[k_::K_]
    for state in states:
        seated = False
        initial_store = state[0] == a_initial(cfgkey)[0]
        for op, closed in ops:
            if not seated:
                sb = rig.seat(state)
                for k, m in sb:
                    acc.violation(k, {"part": "A", "cfg": cfgkey, "state": state, "op": None}, m)
                if any(k == "seat-failed" for k, _ in sb):
                    break                            # reported; nothing can be run from a state that cannot be established
                seated = True
            acc.ev()
            acc.count("transitions")
            bad, info = rig.step(op)
            record_info(acc, info)
            after = rig.state()
            changed = after != state
            if changed or not initial_store or any(s != OK_ for s in info["statuses"]):
                acc.ntc()
            acc.cmax("max_frames_per_call", info["frames"])
            for k, m in bad:
                acc.violation(k, {"part": "A", "cfg": cfgkey, "state": state, "op": op}, m)
            if changed:
                if bad:
                    pass                 # a transition that violated the oracle has no trustworthy successor
                elif closed:
                    acc.succ.add((("A",) + cfgkey, after))
                else:
                    acc.count("probe_successors")
                    # read the written range back through pylogix before undoing the probe
                    tag = op[1] if op[0] == "W" else ("big" if op[2] == 0 else "big[%d]" % op[2])
                    cnt = (len(op[2]) if isinstance(op[2], list) else 1) if op[0] == "W" else op[3]
                    acc.count("transitions")
                    bad2, info2 = rig.step(("R", tag, cnt))
                    for k, m in bad2:
                        acc.violation("probe-readback:" + k, {"part": "A", "cfg": cfgkey, "state": state, "op": op}, m)
                if rig.state()[1:] == state[1:] and not bad and not rig.set_store(state[0]):
                    pass                             # only the store moved: undone with a real write, session kept
                else:
                    seated = False
    acc.sample({"part": "A", "cfg": cfgkey, "state": states[0], "op": ops[len(ops) // 2][0]})


def seq_shard(acc, item, tier, seed):
    cfgkey, alpha_name, depth, first = item
    rig, _ = get_arig(cfgkey)
    alpha = seq_alphabet(cfgkey, alpha_name)
    root = a_initial(cfgkey)
    # the sequence count of a long-lived session passes 0x8000 and wraps at 0x10000: the call sequences start just below one of the
    # two (the state search above runs with pylogix' own start)
    rig.seq_start = 0x7FFE if cfgkey[0] in ("DINT", "REAL", "LINT", "SINT", "UINT", "ULINT") else 0xFFFE
    for rest in itertools.product(alpha, repeat=depth - 1):
        seq = (alpha[first],) + rest
        sb = rig.seat(root)
        for k, m in sb:
            acc.violation(k, {"part": "S", "cfg": cfgkey, "ops": ()}, m)
        if any(k == "seat-failed" for k, _ in sb):
            break
        for j, op in enumerate(seq):
            acc.ev()
            acc.count("transitions")
            bad, info = rig.step(op)
            record_info(acc, info)
            for k, m in bad:
                acc.violation(k, {"part": "S", "cfg": cfgkey, "ops": seq[:j + 1]}, m)
            if bad:
                break
        acc.ntc()
        acc.count("sequences")
    rig.seq_start = None
    acc.sample({"part": "S", "cfg": cfgkey, "ops": (alpha[first],) + tuple(alpha[:depth - 1])})


# ======================================================================================================
# Part B: the reference codec as the client

TRANSPORTS = ["rr", "us", "us0", "cs", "cl", "mus", "mcs"]
# full: every transport, closure;  conn3: closure through one unconnected, one connected and one bundled transport;
# root: the initial store only (a type sweep for the quick tier)
B_MODES = {"full": TRANSPORTS, "conn3": ["us", "cl", "mcs"], "root": ["us", "cl"]}


def ref_path(addr):
    if addr[0] == "sym":
        return [{"symbolic": addr[1]}] + ([{"element": addr[2]}] if addr[2] is not None else [])
    return R.logical(addr[1], addr[2], addr[3], addr[4])


def ref_encode(req):
    """request tuple (mc.refmodel notation) -> CIP request bytes, by the reference encoder"""
    k, path = req[0], ref_path(req[1])
    if k == "rd":
        return R.read_tag(path, req[2])
    if k == "rf":
        return R.read_frag(path, req[2], req[3])
    if k == "wt":
        return R.write_tag(path, req[2], list(req[3]), len(req[3]) if req[4] is None else req[4])
    if k == "wf":
        return R.write_frag(path, req[2], list(req[3]), len(req[3]) if req[4] is None else req[4], req[5])
    if k == "gas":
        return R.get_attribute_single(path)
    if k == "sas":
        return R.set_attribute_single(path, req[2])
    raise ValueError(k)


def b_extra(cfg, typ):
    """a few refusals, so that error replies travel through every transport too"""
    t = W.TYPE_CODE[typ]
    v = TS.VALS[typ]
    n = [c for c in cfg if c[0] == "a"][0][2]
    return [(("rd", ("sym", "a", n), 1), True), (("rd", ("sym", "a", 1), n), True),
            (("wt", ("sym", "a", n - 1), t, (v[1], v[1]), None), True),
            (("rd", ("sym", "nosuch", None), 1), True), (("wt", ("sym", "nosuch", None), t, (v[1],), None), True)]


class BRig:
    def __init__(self, cfgkey):
        typ, variant, nvals, cross, mode = cfgkey
        self.cfgkey = cfgkey
        self.transports = B_MODES[mode]
        self.rig = TS.Rig(TS.config(typ, variant), seam="cm")
        self.sim = self.rig.sim
        self.M = self.sim.M
        self.model = self.rig.model
        self.alphabet = list(TS.valid_requests(self.rig.cfg, self.sim.addr_of, nvals, cross)) + b_extra(self.rig.cfg, typ)
        self.ports = itertools.count(30001)
        self.ctx = itertools.count(1)
        self.session = None
        self.peer = None
        self.handle = None
        self.conns = {}
        self.flip = 0

    # -- frames -------------------------------------------------------------------------------------------
    def context(self):
        return struct.pack("<Q", 0xC14000000000 + next(self.ctx))

    def exchange(self, frame, what):
        """feed one request frame; -> (decoded reply frame or None, raw, [(kind,msg)])"""
        if self.session is None or not self.session.alive:
            return None, None, [("session-dead", "%s: the server had already ended the session" % what)]
        replies = self.session.feed(frame)
        if self.session.finished and self.session.exc is not None:
            return None, None, [("server-thread-exception", "%s: request %s: enip_srv_tcp ended with %r"
                                 % (what, frame.hex(), self.session.exc))]
        if len(replies) != 1:
            return None, None, [("reply-count", "%s: request %s answered with %d frames" % (what, frame.hex(), len(replies)))]
        try:
            f = R.decode_reply_frame(replies[0])
        except R.RefDecodeError as e:
            return None, replies[0], [("reply-rejected-by-reference-decoder", "%s: request %s reply %s: %s"
                                       % (what, frame.hex(), replies[0].hex(), e))]
        return f, replies[0], []

    def echo(self, f, raw, frame, command, context, what, conn=None, seq=None):
        bad = []
        w = "%s: request %s -> reply %s" % (what, frame.hex(), raw.hex())
        if f["command"] != command:
            bad.append(("reply-wrong-command", "%s: command 0x%04x" % (w, f["command"])))
            return bad
        if f["session"] != self.handle:
            bad.append(("reply-wrong-session", "%s: session 0x%x, registered 0x%x" % (w, f["session"], self.handle)))
        if f["context"] != context:
            bad.append(("reply-wrong-context", "%s: sender context %s sent %s" % (w, f["context"].hex(), context.hex())))
        if f["status"] == 0:
            types = [it["type"] for it in f["payload"]["cpf"]] if isinstance(f["payload"], dict) else None
            if conn is None:
                if types != [R.ITEM_NULL, R.ITEM_UNCONN_DATA]:
                    bad.append(("reply-wrong-cpf-items", "%s: unconnected reply carries CPF item types %r" % (w, types)))
            else:
                if types != [R.ITEM_CONN_ADDR, R.ITEM_CONN_DATA]:
                    bad.append(("reply-wrong-cpf-items", "%s: connected reply carries CPF item types %r" % (w, types)))
                else:
                    if f.get("sequence") != seq:
                        bad.append(("reply-wrong-sequence", "%s: sequence count %r, sent %r" % (w, f.get("sequence"), seq)))
                    if f.get("connection") not in (conn["id"], conn["to"]):
                        bad.append(("reply-wrong-connection", "%s: connection id %r, sent %r" % (w, f.get("connection"), conn["id"])))
        return bad

    @staticmethod
    def cip_bytes(f):
        if not isinstance(f["payload"], dict):
            return None
        for it in f["payload"].get("cpf", []):
            if it["type"] in (R.ITEM_UNCONN_DATA, R.ITEM_CONN_DATA):
                return it["data"] or None
        return None

    # -- life cycle ---------------------------------------------------------------------------------------
    def fw_keys(self):
        """the open forwards (one TCP session at a time exists in Part B, so all entries belong to this peer)"""
        return sorted(self.M.device.Connection_Manager.forwards, key=repr)

    def open(self):
        bad = []
        if self.session is not None and self.session.alive:
            self.session.close()
        self.M.device.Connection_Manager.forwards.clear()
        self.M.ucmm.UCMM.sessions.clear()
        self.peer = ("10.9.8.7", next(self.ports))
        self.session = sim.Session(self.sim, addr=self.peer)
        self.conns = {}
        self.handle = 0
        ctx = self.context()
        frame = R.register(context=ctx)
        f, raw, b = self.exchange(frame, "Register")
        if f is None:
            return bad + b
        self.handle = f["session"]
        if f["command"] != R.CMD_REGISTER or f["status"] != 0 or not f["session"] or f["context"] != ctx \
                or f["payload"] != {"protocol_version": 1, "options": 0}:
            bad.append(("register-failed", "Register %s answered %s" % (frame.hex(), raw.hex())))
            return bad
        if list(self.M.ucmm.UCMM.sessions.values()) != [self.handle]:
            bad.append(("ucmm-sessions", "registered 0x%x for %r but UCMM.sessions is %r" % (self.handle, self.peer, dict(self.M.ucmm.UCMM.sessions))))
        for name, large, serial in (("small", False, 0x0101), ("large", True, 0x0202)):
            bad += self.forward_open(name, large, serial)
        return bad

    def forward_open(self, name, large, serial):
        bad = []
        ctx = self.context()
        to_id = 0x00C14000 + serial
        ncp = R.enc_ncp({"size": 4000 if large else 500, "variable": 1, "priority": 0, "type": 2, "redundant": 0}, large)
        cip = R.forward_open(O_T_connection_ID=0, T_O_connection_ID=to_id, connection_serial=serial, O_vendor=0x0C14,
                             O_serial=0x14C0FFEE, O_T_NCP=ncp, T_O_NCP=ncp, large=large)
        frame = R.send_rr_data(self.handle, cip, context=ctx)
        f, raw, b = self.exchange(frame, "Forward Open (%s)" % name)
        if f is None:
            return b
        bad += self.echo(f, raw, frame, R.CMD_SEND_RR_DATA, ctx, "Forward Open (%s)" % name)
        c = f["cip"]
        if f["status"] != 0 or c is None or c["service"] != ((R.SVC_FWD_OPEN_LARGE if large else R.SVC_FWD_OPEN) | 0x80) or c["status"] != 0:
            bad.append(("forward-open-refused", "Forward Open (%s) %s answered %s" % (name, frame.hex(), raw.hex())))
            return bad
        for k, want in (("T_O_connection_ID", to_id), ("connection_serial", serial), ("O_vendor", 0x0C14), ("O_serial", 0x14C0FFEE)):
            if c.get(k) != want:
                bad.append(("forward-open-echo", "Forward Open (%s): reply %s = %r, sent %r" % (name, k, c.get(k), want)))
        if any(c["O_T_connection_ID"] == x["id"] for x in self.conns.values()):
            bad.append(("forward-open-duplicate-id", "Forward Open (%s) was given the O->T connection id 0x%x of an open connection"
                        % (name, c["O_T_connection_ID"])))
        self.conns[name] = {"id": c["O_T_connection_ID"], "to": to_id, "serial": serial, "name": name,
                            # the client owns the 16-bit sequence count: the two connections start just below 0x8000 and 0x10000
                            "seq": 0xFFFB if large else 0x7FFB}
        want_keys = sorted(((self.peer[0], self.peer[1], x["id"]) for x in self.conns.values()), key=repr)
        if len(self.fw_keys()) != len(want_keys):
            bad.append(("forwards-table", "after Forward Open (%s) Connection_Manager.forwards has %r, open connections %r"
                        % (name, self.fw_keys(), want_keys)))
        return bad

    def forward_close(self, name):
        bad = []
        conn = self.conns[name]
        ctx = self.context()
        cip = R.forward_close(connection_serial=conn["serial"], O_vendor=0x0C14, O_serial=0x14C0FFEE)
        frame = R.send_rr_data(self.handle, cip, context=ctx)
        f, raw, b = self.exchange(frame, "Forward Close (%s)" % name)
        if f is None:
            return b
        bad += self.echo(f, raw, frame, R.CMD_SEND_RR_DATA, ctx, "Forward Close (%s)" % name)
        c = f["cip"]
        if f["status"] != 0 or c is None or c["service"] != 0xCE or c["status"] != 0:
            bad.append(("forward-close-refused", "Forward Close (%s) %s answered %s" % (name, frame.hex(), raw.hex())))
            return bad
        for k, want in (("connection_serial", conn["serial"]), ("O_vendor", 0x0C14), ("O_serial", 0x14C0FFEE)):
            if c.get(k) != want:
                bad.append(("forward-close-echo", "Forward Close (%s): reply %s = %r, sent %r" % (name, k, c.get(k), want)))
        del self.conns[name]
        want_keys = sorted(((self.peer[0], self.peer[1], x["id"]) for x in self.conns.values()), key=repr)
        if len(self.fw_keys()) != len(want_keys):
            bad.append(("forwards-table", "after Forward Close (%s) Connection_Manager.forwards has %r, open connections %r"
                        % (name, self.fw_keys(), want_keys)))
        return bad

    def shutdown(self, probe):
        """Forward Close small; the large connection must still work; Forward Close large; Unregister."""
        bad = []
        if self.session is None or not self.session.alive or set(self.conns) != {"small", "large"}:
            return [("life-cycle", "session not in the expected state for shutdown: alive=%r conns=%r"
                     % (self.session is not None and self.session.alive, sorted(self.conns)))]
        for step in (lambda: self.forward_close("small"), lambda: self.run(probe, "cl")[0], lambda: self.forward_close("large")):
            if not self.session.alive:
                break
            bad += step()
        if not self.session.alive:
            return bad + [("session-ended", "the server ended the session during Forward Close / probe / Forward Close (exception: %r)"
                           % (self.session.exc,))]
        self.session.feed(R.unregister(self.handle, context=self.context()))
        if self.session.alive:
            # a server may also wait for the peer to close after Unregister
            self.session.close()
        if self.session.exc is not None:
            bad.append(("server-thread-exception", "Unregister: enip_srv_tcp ended with %r" % (self.session.exc,)))
        if self.M.ucmm.UCMM.sessions:
            bad.append(("close-leaves-session", "after Unregister UCMM.sessions still holds %r" % (dict(self.M.ucmm.UCMM.sessions),)))
        if self.fw_keys():
            bad.append(("close-leaves-forward", "after Forward Close + Unregister forwards still holds %r" % (self.fw_keys(),)))
        return bad

    # -- one request through one transport ---------------------------------------------------------------
    def whole_tag_read(self, req):
        tag, _, _ = self.model.resolve(req[1])
        if tag is None:
            return None
        return ("rd", ("sym", tag.name, None), tag.n)

    def other_read(self, req):
        tag, _, _ = self.model.resolve(req[1])
        for name, t in self.model.tags.items():
            if tag is None or t.address != tag.address:
                return ("rd", ("sym", name, None), t.n)
        return None

    def send(self, cip, transport, what):
        """-> (decoded frame or None, [(kind,msg)])"""
        ctx = self.context()
        if transport in ("cs", "cl", "mcs"):
            if transport == "mcs":
                self.flip ^= 1
                name = ("small", "large")[self.flip]
            else:
                name = "small" if transport == "cs" else "large"
            conn = self.conns.get(name)
            if conn is None:
                return None, [("life-cycle", "%s: connection %s is not open" % (what, name))]
            conn["seq"] = (conn["seq"] + 1) & 0xFFFF
            frame = R.send_unit_data(self.handle, conn["id"], conn["seq"], cip, context=ctx)
            f, raw, bad = self.exchange(frame, what)
            if f is not None:
                bad = bad + self.echo(f, raw, frame, R.CMD_SEND_UNIT_DATA, ctx, what, conn, conn["seq"])
            return f, bad
        if transport == "rr":
            frame = R.send_rr_data(self.handle, cip, context=ctx)
        elif transport == "us0":
            frame = R.send_rr_data(self.handle, cip, context=ctx, route_path=[], unconnected_send=True)
        else:
            frame = R.send_rr_data(self.handle, cip, context=ctx, route_path=[{"port": 1, "link": 0}])
        f, raw, bad = self.exchange(frame, what)
        if f is not None:
            bad = bad + self.echo(f, raw, frame, R.CMD_SEND_RR_DATA, ctx, what)
        return f, bad

    def run(self, req, transport):
        """execute + judge; -> ([(kind,msg)], outcome string)"""
        what = "%r via %s" % (req, transport)
        if transport in ("mus", "mcs"):
            return self.run_bundle(req, transport, what)
        cip = ref_encode(req)
        f, bad = self.send(cip, transport, what)
        return self.judge_single(req, f, bad, what)

    def judge_single(self, req, f, bad, what):
        if f is None:
            if any(k in ("reply-rejected-by-reference-decoder", "server-thread-exception", "reply-count", "session-dead", "life-cycle")
                   for k, _ in bad):
                self.model.load_observed(self.sim.store())
                return bad, "none"
        rcip, exc = None, None
        if f is not None:
            if f["status"] != 0:
                exc = "encapsulation status 0x%02x" % f["status"]
            else:
                rcip = self.cip_bytes(f)
                if rcip is None:
                    exc = "reply frame without a CIP message"
        jb = self.model.judge(req, rcip, exc, self.sim.store())
        bad = bad + jb
        out = "enip-error" if rcip is None else "cip-0x%02x" % f["cip"]["status"]
        if not jb and rcip is not None:
            bad = bad + self.values_by_reference(req, f["cip"], what)
        return bad, out

    def values_by_reference(self, req, c, what):
        """what the REFERENCE decoder read out of the reply equals the array model (reads answered with success)"""
        if req[0] not in ("rd", "rf") or c["status"] != 0:
            return []
        tag, elm, _ = self.model.resolve(req[1])
        if tag is None:
            return []
        beg = elm or 0
        first = beg
        if req[0] == "rf" and req[3]:
            if tag.t not in W.SIZE or req[3] % W.SIZE[tag.t]:
                return []
            first = beg + req[3] // W.SIZE[tag.t]
        want = tag.v[first:beg + req[2]]
        if c.get("type") != tag.t or not refmodel.same_list(want, c.get("values", [])):
            return [("reference-decoder-sees-other-values", "%s: reference decoder reads type 0x%x values %r, array model %r of type 0x%x"
                     % (what, c.get("type", 0), c.get("values"), want, tag.t))]
        return []

    def run_bundle(self, req, transport, what):
        other, same = self.other_read(req), self.whole_tag_read(req)
        members = [m for m in (other, req, same) if m is not None]
        cip = R.multiple([ref_encode(m) for m in members])
        f, bad = self.send(cip, "us" if transport == "mus" else "mcs", what)
        if f is None or f["status"] != 0 or f["cip"] is None:
            bad.append(("bundle-no-reply", "%s: Multiple Service Packet of %r got no CIP reply" % (what, members)))
            self.model.load_observed(self.sim.store())
            return bad, "none"
        c = f["cip"]
        raw = self.cip_bytes(f)
        if c["service"] != 0x8A or c["status"] not in (0x00, 0x1E) or len(c.get("members") or []) != len(members):
            bad.append(("bundle-reply-shape", "%s: Multiple Service Packet of %d members answered service 0x%02x status 0x%02x with %d members"
                        % (what, len(members), c["service"], c["status"], len(c.get("members") or []))))
            self.model.load_observed(self.sim.store())
            return bad, "none"
        try:
            raws = W.dec_multiple_reply(raw)["members"]
        except W.WireError as e:
            bad.append(("bundle-offset-table", "%s: reply %s: %s" % (what, raw.hex(), e)))
            self.model.load_observed(self.sim.store())
            return bad, "none"
        observed = self.sim.store()
        order = [members.index(req)] + [i for i, m in enumerate(members) if m is not req]
        out = "none"
        for i in order:          # the request first (the model applies its write), then the reads around it
            m = members[i]
            jb = self.model.judge(m, raws[i], None, observed)
            bad += [("bundle-member:" + k, "%s member %d %r: %s" % (what, i, m, msg)) for k, msg in jb]
            if m is req:
                out = "cip-0x%02x" % c["members"][i]["status"]
            if not jb:
                bad += self.values_by_reference(m, c["members"][i], what + " member %d" % i)
        return bad, out


_brig = {}


def get_brig(cfgkey):
    r = _brig.get("rig")
    if r is None or _brig.get("key") != cfgkey:
        a = _arig.get("rig")
        if a is not None and a.env is not None:
            a.env.close_all()
        _arig.clear()
        r = BRig(cfgkey)
        _brig["rig"], _brig["key"] = r, cfgkey
    return r


def expand_b(acc, item, tier, seed):
    cfgkey, states, (k_, K_) = item
    cfgkey = cfgkey[1:]
    br = get_brig(cfgkey)
    alphabet = br.alphabet[k_::K_]
    probe = ("rd", ("sym", "a", None), 1)

    def viol(kind, state, req, transport, msg):
        acc.violation(kind, {"part": "B", "cfg": cfgkey, "state": state, "req": req, "transport": transport}, msg)

    for state in states:
        sb = br.rig.seat(state)
        for k, m in sb:
            viol(k, state, None, None, m)
        if any(k == "seat-failed" for k, _ in sb):
            continue                                 # reported; nothing can be run from a state that cannot be established
        for k, m in br.open():
            viol(k, state, None, "open", m)
        acc.count("transitions", 3)
        base = br.rig.state()
        initial = all(v == type(v)() for _, vals in base for v in vals)
        for req, closed in alphabet:
            for tr in br.transports:
                if tr == "rr" and req[0] == "rf":
                    continue
                if br.session is None or not br.session.alive or len(br.conns) != 2:
                    for k, m in br.open():
                        viol(k, state, req, "reopen", m)
                    acc.count("reopened")
                    acc.count("transitions", 3)
                acc.ev()
                acc.count("transitions")
                bad, out = br.run(req, tr)
                after = br.rig.state()
                changed = after != base
                acc.outcome("B:%s:%s:%s" % (tr, req[0], out))
                if changed or not initial or out != "cip-0x00":
                    acc.ntc()
                for k, m in bad:
                    viol(k, state, req, tr, m)
                if changed:
                    if bad:
                        pass             # a transition that violated the oracle has no trustworthy successor
                    elif closed:
                        if cfgkey[4] != "root":
                            acc.succ.add((("B",) + cfgkey, TS.norm_state(after)))
                    else:
                        acc.count("probe_successors")
                        rb = br.whole_tag_read(req)
                        acc.count("transitions")
                        bad2, _ = br.run(rb, tr if tr not in ("mus", "mcs") else "cs")
                        for k, m in bad2:
                            viol("probe-readback:" + k, state, req, tr, m)
                    for k, m in br.rig.seat(state):
                        viol(k, state, req, tr, m)
        if br.session is None or not br.session.alive or len(br.conns) != 2:
            for k, m in br.open():
                viol(k, state, None, "reopen", m)
        for k, m in br.shutdown(probe):
            viol(k, state, None, "shutdown", m)
        acc.count("transitions", 4)
        acc.outcome("B:life-cycle-completed")
    acc.sample({"part": "B", "cfg": cfgkey, "state": states[0], "req": alphabet[len(alphabet) // 2][0], "transport": "cl"})


# ======================================================================================================
# plan

def plan(ctx):
    """-> (A roots, sequence shards, B roots)"""
    if ctx.quick:
        a_keys = [("DINT", "arr", None), ("DINT", "big", 504)] + [(t, "arr2", None) for t in ("REAL", "BOOL")] + [("INT", "arr2r", None)]
        seqs = [(("DINT", "arr2", None), "full", 2), (("DINT", "arr", None), "seq12", 3)]
        seqs += [((t, "arr2", None), "seq12", 2) for t in A_TYPES if t not in ("DINT", "REAL", "BOOL")]
        b_keys = [("INT", "tiny", 2, False, "full")] + [(t, "tiny", 2, False, "root") for t in TS.TYPES if t != "INT"]
    else:
        a_keys = [(t, "arr", None) for t in A_TYPES] + [(t, "big", 504) for t in A_TYPES]
        a_keys += [(t, "big", None) for t in ("DINT", "SINT", "LREAL")] + [("INT", "arr", 504), ("INT", "arr2r", None), ("LREAL", "arr2r", 504)]
        seqs = [(("DINT", "arr", None), "seq22", 3)] + [((t, "arr", None), "seq12", 3) for t in ("REAL", "BOOL", "LINT", "USINT")]
        seqs += [(("DINT", "arr2", None), "full", 2)]
        b_keys = [(t, "tiny", 2, t == "INT", "full" if t in ("INT", "REAL", "SSTRING", "STRING") else "conn3") for t in TS.TYPES]
        b_keys += [("DINT", "small", 2, False, "full")]
    return a_keys, seqs, b_keys


def run(ctx):
    a_keys, seqs, b_keys = plan(ctx)
    total = core.Acc()
    roots = [(("A",) + k, a_initial(k)) for k in a_keys]
    total.merge(explore.bfs(ctx, __name__, "expand_a", roots, chunk=2, splits=2))
    items = []
    for cfgkey, alpha_name, depth in seqs:
        for first in range(len(seq_alphabet(cfgkey, alpha_name))):
            items.append((cfgkey, alpha_name, depth, first))
    total.merge(ctx.pmap(__name__, "seq_shard", items))
    broots = []
    for k in b_keys:
        cfg = TS.config(k[0], k[1])
        zero = "" if k[0] in ("SSTRING", "STRING") else (0.0 if k[0] in ("REAL", "LREAL") else 0)
        broots.append((("B",) + k, tuple((name, tuple([zero] * (1 if ln is None else ln))) for name, _, ln, _ in cfg)))
    total.merge(explore.bfs(ctx, __name__, "expand_b", broots, chunk=1, splits=4))
    total.count("traces_validated_against_impl", total.counters.get("transitions", 0))
    return total


def guards(acc, ctx):
    g = []
    if acc.violations_total:
        return g        # vacuity guards protect a passing verdict; a run that found violations explored what it could reach
    need = ["A:R:" + OK_, "A:R:" + UNKNOWN, "A:R:" + RANGE, "A:M:" + OK_, "A:M:" + UNKNOWN, "A:M:" + RANGE,
            "A:W:" + OK_, "A:W:" + UNKNOWN, "A:W:" + RANGE, "A:WP:" + OK_, "A:WP:" + RANGE, "A:C:closed", "A:reconnect",
            "A:read-in->=3-replies", "A:write-in->=2-fragments", "A:forward-open-large", "A:forward-open-small",
            "B:life-cycle-completed"]
    for tr in TRANSPORTS:
        for k in ("rd", "wt", "wf", "gas", "sas") + (("rf",) if tr != "rr" else ()):
            need.append("B:%s:%s:cip-0x00" % (tr, k))
        need.append("B:%s:rd:cip-0xff" % tr)
    need += ["B:cs:rd:cip-0x05", "B:mus:rd:cip-0x05"]
    for k in need:
        if not acc.outcomes.get(k):
            g.append("outcome %s never observed" % k)
    if len(acc.states) < 150:
        g.append("fewer than 150 states reached (%d)" % len(acc.states))
    if not acc.counters.get("probe_successors"):
        g.append("no probe write (third boundary value / partial array write) was ever accepted")
    if not acc.counters.get("sequences"):
        g.append("no call sequence was run")
    return g


# ======================================================================================================
def detuple(x):
    if isinstance(x, list):
        return tuple(detuple(v) for v in x)
    return x


def _op_from_json(op):
    """ops keep lists where the API takes lists (values, multi-read items)"""
    op = list(op)
    if op[0] == "M":
        return ("M", [list(x) if isinstance(x, list) else x for x in op[1]])
    if op[0] == "W":
        return ("W", op[1], op[2])
    return tuple(op)


def replay(case):
    msgs = []
    part = case["part"]
    if part in ("A", "S"):
        cfgkey = tuple(case["cfg"])
        rig, _ = get_arig(cfgkey)
        if part == "A":
            state = detuple(case["state"])
            msgs += [m for _, m in rig.seat(state)]
            if case.get("op") is not None:
                op = _op_from_json(case["op"])
                bad, _ = rig.step(op)
                msgs += [m for _, m in bad]
                if op[0] in ("W", "WP") and not bad:
                    tag = op[1] if op[0] == "W" else ("big" if op[2] == 0 else "big[%d]" % op[2])
                    cnt = (len(op[2]) if isinstance(op[2], list) else 1) if op[0] == "W" else op[3]
                    if rig.model.locate(tag, cnt)[0] == OK_:
                        msgs += [m for _, m in rig.step(("R", tag, cnt))[0]]
        else:
            msgs += [m for _, m in rig.seat(a_initial(cfgkey))]
            for op in case["ops"]:
                bad, _ = rig.step(_op_from_json(op))
                msgs += [m for _, m in bad]
        return msgs
    cfgkey = tuple(case["cfg"])
    br = get_brig(cfgkey)
    state = tuple((n, tuple(v)) for n, v in case["state"])
    msgs += [m for _, m in br.rig.seat(state)]
    msgs += [m for _, m in br.open()]
    tr = case.get("transport")
    if case.get("req") is not None and tr in TRANSPORTS:
        req = detuple(case["req"])
        bad, _ = br.run(req, tr)
        msgs += [m for _, m in bad]
        if br.rig.state() != state and br.session.alive and len(br.conns) == 2:
            rb = br.whole_tag_read(req)
            if rb is not None:
                msgs += [m for _, m in br.run(rb, tr if tr not in ("mus", "mcs") else "cs")[0]]
        msgs += [m for _, m in br.rig.seat(state)]
    if br.session is not None and br.session.alive and len(br.conns) == 2:
        msgs += [m for _, m in br.shutdown(("rd", ("sym", "a", None), 1))]
    return msgs


def preload():
    """import the code under test once in the (pristine) worker; shard children are forked from it"""
    from mc import sim as _sim
    _sim.mods()
