"""C19 -- merging register ranges never drops a requested register (E-input, bounded exhaustive).

Subject: cpppo.remote.plc_modbus.merge / shatter (the real functions).
Oracle: written from the statement only (sets of integers); shares no code with cpppo.
"""
import itertools

ID = "C19"
LEVEL = "exploration"
RULE = ("every multiset of <=N (address,count) ranges (in every order of presentation for N <= 3; sorted and reversed for N = 4) over a boundary alphabet (bank starts, 10000-block edges, "
        "overlapping/nested/adjacent/duplicate shapes) x every reach x every limit; shatter over address x count x limit. "
        "non-trivial = distinct (ranges,reach,limit) where at least two input ranges interact (overlap, touch or lie "
        "within reach) or the output differs from the sorted input")
BOUNDS_NOTE = "poller: every non-empty subset of 9 addresses in 3 banks (two of them far enough to make a merged run longer than one transfer) x reach {1,3,100} x {no failure, one transient read failure at read k of cycle c, a read failing in every cycle, a register added later, the reach changed after cycle 1} x failure kind {exception response, no response, connection error}, 4 poll cycles of the real poller_modbus._poller under a virtual clock"
BOUNDS = {
    "quick": "multisets of <=3 ranges over 73-range alphabet, of 4 over the 24-range low cluster; reach {None,0,1,2,5,100}; limit {None,0,1,2,3}",
    "thorough": "multisets of <=4 ranges over the full 73-range alphabet; same reach/limit; shatter counts 0..2100",
}
ASSUMPTIONS = ["input ranges lie inside one Modbus register bank and have count >= 1 (the property's domain)"]

REACH = [None, 0, 1, 2, 5, 100]
LIMIT = [None, 0, 1, 2, 3]          # 0 and None both mean "the bank's default transfer limit"
COUNTS = [1, 2, 3, 5]
ADDRS = list(range(1, 7)) + [9996, 9997, 9998, 9999] + [10001, 10002, 10003, 10004] + [39998, 39999, 40001, 40002, 40003]


def bank(a):
    if 1 <= a <= 9999: return "coil"
    if 10001 <= a <= 19999: return "di"
    if 30001 <= a <= 39999: return "ir"
    if 40001 <= a <= 99999: return "hr"
    if 100001 <= a <= 165536: return "di6"
    if 300001 <= a <= 365536: return "ir6"
    if 400001 <= a <= 465536: return "hr6"
    return None


def default_limit(a):
    return 1968 if bank(a) in ("coil", "di", "di6") else 123


def alphabet():
    out = []
    for a in ADDRS:
        for c in COUNTS:
            if bank(a) is not None and bank(a) == bank(a + c - 1):
                out.append((a, c))
    return out


def check_merge(ranges, reach, limit):
    """Returns list of (kind, msg) for one merge() call."""
    from cpppo.remote import plc_modbus
    try:
        out = list(plc_modbus.merge(list(ranges), reach=reach, limit=limit))
    except Exception as exc:
        return [("merge-exception", "merge(%r, reach=%r, limit=%r) raised %r" % (ranges, reach, limit, exc))], None
    want = set()
    for a, c in ranges:
        want.update(range(a, a + c))
    return validate(out, want, ranges, reach, limit), out


def validate(out, want, ranges, reach, limit):
    """the statement's clauses on a list of output ranges `out` for the requested register set `want`"""
    bad = []
    got = set()
    prev_end = None
    r = reach or 1
    for a, c in out:
        if c < 1:
            bad.append(("empty-output-range", "output range (%d,%d) is empty" % (a, c)))
            continue
        if prev_end is not None and a < prev_end:
            bad.append(("not-sorted-disjoint", "output %r not sorted/disjoint at (%d,%d)" % (out, a, c)))
        prev_end = a + c
        lim = limit or default_limit(a)
        if c > lim:
            bad.append(("over-limit", "output range (%d,%d) longer than limit %d" % (a, c, lim)))
        if bank(a) is None or bank(a) != bank(a + c - 1):
            bad.append(("crosses-bank", "output range (%d,%d) not confined to one register bank" % (a, c)))
        got.update(range(a, a + c))
    missing = want - got
    if missing:
        bad.append(("drops-register", "merge(%r, reach=%r, limit=%r) -> %r drops requested registers %r"
                    % (ranges, reach, limit, out, sorted(missing)[:10])))
    extra = got - want
    if extra:
        far = [x for x in extra if not any((x + d) in want or (x - d) in want for d in range(1, r + 1))]
        if far:
            bad.append(("beyond-reach", "merge(%r, reach=%r, limit=%r) -> %r polls %r, not within reach of any requested register"
                        % (ranges, reach, limit, out, sorted(far)[:10])))
    return bad


# ------------------------------------------------------------------------------------------------------
# the poller: "polls exactly the merged ranges and stores only known addresses" -- the real poller_modbus._poller loop under a
# virtual clock with a scripted device (reads may fail transiently), for several poll cycles

POLL_ADDRS = [1, 2, 10001, 40001, 40002, 40004, 40010, 40100, 40150]    # 40001..40150 merge (reach 100) into a run longer than one transfer


def run_poller(addresses, reach, cycles, fail, add_later, exc_kind="base"):
    """fail: set of (cycle, k) -- the k-th read of that cycle raises a Modbus failure of exc_kind: "base" ModbusException (the device
    answered with an exception), "io" ModbusIOException (no answer), "conn" ConnectionException.  add_later: (cycle, address) or None.
    -> [(kind, msg)]"""
    import cpppo
    from cpppo.remote import plc_modbus as pm
    import pymodbus.exceptions as pe
    ModbusException = {"base": pe.ModbusException, "io": pe.ModbusIOException, "conn": pe.ConnectionException}[exc_kind]
    bad = []
    clock = [1000.0]
    p = object.__new__(pm.poller_modbus)
    pm.poller.__init__(p, description="verif", rate=1.0)

    class Client:
        timeout = True

        def __enter__(self):
            return self

        def __exit__(self, *a):
            return False

        def connect(self):
            return True

    p.client, p.unit, p.done, p.reach, p.multi = Client(), 0, False, reach, False
    p.polling, p.failing, p.duration, p.counter, p.load = set(), set(), 0.0, 0, (None, None, None)
    for a in addresses:
        p._poll(a)
    device = lambda a: (a * 7 + 3) % 65536
    log = {}
    known = [set(addresses)]

    def _read(address, count=1, **kw):
        cyc = p.counter
        reads = log.setdefault(cyc, [])
        k = len(reads)
        reads.append((address, count, (cyc, k) in fail))
        if (cyc, k) in fail:
            raise ModbusException("scripted transient failure")
        vals = [device(address + i) for i in range(count)]
        return vals if count > 1 else vals[0]

    p._read = _read

    class TimeShim:
        def sleep(self, d):
            clock[0] += max(d, 0.0)
            if p.counter >= cycles:
                p.done = True
            if add_later is not None and add_later[0] == "reach":
                if p.counter == add_later[1]:
                    p.reach = add_later[2]                  # the documented, user-alterable reach: applies to the following cycles
            elif add_later is not None and p.counter == add_later[0] and add_later[1] not in p._data:
                p._poll(add_later[1])
                known.append(set(p._data))

        def __getattr__(self, name):
            import time as _t
            return getattr(_t, name)

    real_time, real_timer = pm.time, cpppo.misc.timer
    pm.time = TimeShim()
    cpppo.misc.timer = lambda: clock[0]
    steps = [0]
    try:
        guard_sleep = pm.time.sleep

        def sleep(d):
            steps[0] += 1
            if steps[0] > 5000:
                p.done = True
            guard_sleep(d)
        pm.time.sleep = sleep
        p._poller()
    except Exception as exc:
        bad.append(("poller-exception", "poller loop raised %s: %s" % (type(exc).__name__, exc)))
    finally:
        pm.time, cpppo.misc.timer = real_time, real_timer
    if steps[0] > 5000:
        bad.append(("poller-no-progress", "poller did not complete %d cycles" % cycles))
    desc = "addresses %r reach %r failures %r (%s) later %r" % (sorted(addresses), reach, sorted(fail), ModbusException.__name__, add_later)
    for cyc in range(cycles):
        reads = log.get(cyc, [])
        must = set(addresses)                     # registers that certainly were known before this cycle's merge
        may = set(addresses)                      # ... and those that may have been (registered while this cycle was starting)
        reach_now = reach
        if add_later is not None and add_later[0] == "reach":
            if cyc > add_later[1]:
                reach_now = add_later[2]
            elif cyc == add_later[1]:
                reach_now = max(reach, add_later[2])        # the cycle during which it changed: either reach is acceptable
        elif add_later is not None:
            if cyc > add_later[0]:
                must.add(add_later[1])
            if cyc >= add_later[0]:
                may.add(add_later[1])
        ranges = [(a, c) for a, c, _ in reads]
        for kind, msg in validate(sorted(ranges), must, sorted((a, 1) for a in must), reach_now, None):
            if kind == "beyond-reach":
                continue
            bad.append(("poller:" + kind, "cycle %d of %s: %s" % (cyc, desc, msg)))
        for kind, msg in validate(sorted(ranges), may, sorted((a, 1) for a in may), reach_now, None):
            if kind == "beyond-reach":
                bad.append(("poller:" + kind, "cycle %d of %s: %s" % (cyc, desc, msg)))
        if len(set(ranges)) != len(ranges):
            bad.append(("poller:range-polled-twice", "cycle %d of %s polled %r" % (cyc, desc, ranges)))
    extra = set(p._data) - set(addresses) - ({add_later[1]} if add_later and add_later[0] != "reach" else set())
    if extra:
        bad.append(("poller:stored-unknown-address", "%s: poller stored addresses nobody asked for: %r" % (desc, sorted(extra))))
    # values: every address whose last read succeeded holds the device's value
    last = {}
    for cyc in range(cycles):
        for a, c, failed in log.get(cyc, []):
            for i in range(c):
                last[a + i] = not failed
    for a in addresses:
        if last.get(a) and p._data.get(a) != device(a):
            bad.append(("poller:wrong-value", "%s: address %d holds %r, device has %r" % (desc, a, p._data.get(a), device(a))))
    return bad


def check_shatter(a, c, limit):
    from cpppo.remote import plc_modbus
    bad = []
    try:
        it = plc_modbus.shatter(a, c, limit=limit)
        out = list(itertools.islice(it, c + 3))      # horizon: a tiling never needs more than c pieces
    except Exception as exc:
        return [("shatter-exception", "shatter(%r,%r,%r) raised %r" % (a, c, limit, exc))]
    if len(out) > c + 1:
        return [("shatter-nontermination", "shatter(%r,%r,%r) yields more than %d pieces" % (a, c, limit, c))]
    lim = limit or default_limit(a)
    pos = a
    for pa, pc in out:
        if pa != pos or pc < 1 or pc > lim:
            bad.append(("shatter-tiling", "shatter(%r,%r,%r) -> %r: piece (%r,%r) breaks exact tiling with pieces <= %d"
                        % (a, c, limit, out[:6], pa, pc, lim)))
            break
        pos += pc
    if not bad and pos != a + c:
        bad.append(("shatter-tiling", "shatter(%r,%r,%r) -> %r covers up to %d, expected %d" % (a, c, limit, out[:6], pos, a + c)))
    return bad


def interacting(ranges, reach):
    r = reach or 1
    s = sorted(ranges)
    for (a, c), (b, d) in zip(s, s[1:]):
        if b < a + c + r:
            return True
    return False


def _run_case(acc, ranges, reach, limit):
    acc.ev()
    bad, out = check_merge(ranges, reach, limit)
    if interacting(ranges, reach) or (out is not None and out != sorted(ranges)):
        acc.ntc()
    if out is not None:
        acc.outcome("out_ranges=%d" % len(out))
        if out != sorted(ranges):
            acc.count("merged_or_split")
    for kind, msg in bad:
        acc.violation(kind, {"op": "merge", "ranges": [list(x) for x in ranges], "reach": reach, "limit": limit}, msg)


def shard(acc, item, tier, seed):
    what = item[0]
    if what == "multiset":
        _, first, n, low_only = item
        alpha = alphabet()
        if low_only:
            alpha = [x for x in alpha if x[0] <= 6]
        rest = alpha[alpha.index(first):]
        for tail in itertools.combinations_with_replacement(rest, n - 1):
            ranges = (first,) + tail
            # the argument is a list: every ORDER of the multiset (n <= 3), the sorted and the reversed order for n = 4
            orders = sorted(set(itertools.permutations(ranges))) if n <= 3 else [ranges, ranges[::-1]]
            for order in orders:
                for reach in REACH:
                    for limit in LIMIT:
                        _run_case(acc, order, reach, limit)
        acc.sample({"op": "merge", "ranges": [first] + list(rest[:n - 1]), "reach": 2, "limit": None})
    elif what == "big":
        big_counts = [122, 123, 124, 1967, 1968, 1969, 2500]
        for base in (1, 10001, 30001, 40001, 400001, 100001):
            for c1 in big_counts:
                for gap in (-2, 0, 1, 3):
                    for c2 in (1, 2, 124, 1969):
                        r = ((base, c1), (base + c1 + gap, c2))
                        for reach in (None, 1, 2, 5, 100):
                            _run_case(acc, r, reach, None)
                            _run_case(acc, r, reach, 125)
                            # the same run together with a short range in ANOTHER bank (lower and higher): the applicable default
                            # limit is per bank (1968 coils/statuses, 123 registers), whatever else is merged in the same call
                            for other in ((1, 2), (10001, 1), (30001, 3), (40001, 2), (400001, 1)):
                                if bank(other[0]) != bank(base):
                                    _run_case(acc, (other,) + r, reach, None)
    elif what == "shatter":
        _, lo, hi = item
        for a in (1, 9999, 10001, 30001, 40001, 100001, 300001, 400001):
            for c in range(lo, hi):
                for limit in (None, 0, 1, 2, 123, 1968):
                    acc.ev()
                    if c > 1:
                        acc.ntc()
                    for kind, msg in check_shatter(a, c, limit):
                        acc.violation(kind, {"op": "shatter", "address": a, "count": c, "limit": limit}, msg)
        acc.sample({"op": "shatter", "address": 40001, "count": lo + 1, "limit": None})


def poller_cases(tier):
    import itertools as it
    subsets = []
    for k in range(1, len(POLL_ADDRS) + 1):
        for sub in it.combinations(POLL_ADDRS, k):
            subsets.append(sub)
    for sub in subsets:
        for reach in (1, 3, 100):
            fails = [frozenset()] + [frozenset({(c, k)}) for c in (0, 1) for k in (0, 1, 2)]
            if tier != "quick":
                fails += [frozenset({(0, 0), (1, 0)}), frozenset({(1, 0), (1, 1)}), frozenset({(0, 1), (2, 0)})]
            # a read that fails in EVERY cycle (the first / the second of each cycle): the other ranges must go on being polled
            fails += [frozenset((c, 0) for c in range(4)), frozenset((c, 1) for c in range(4))]
            for f in fails:
                for ek in (("base", "io", "conn") if f else ("base",)):
                    yield sub, reach, 4, f, None, ek
            yield sub, reach, 4, frozenset({(1, 0)}), (1, 40003), "base"
            yield sub, reach, 4, frozenset(), (0, 3), "base"
        for old, new in ((100, 1), (1, 100), (3, 1)):
            yield sub, old, 4, frozenset(), ("reach", 1, new), "base"


def poller_shard(acc, item, tier, seed):
    _, k, K = item
    for i, (sub, reach, cycles, f, later, ek) in enumerate(poller_cases(tier)):
        if i % K != k:
            continue
        acc.ev()
        if f or later:
            acc.ntc()
        acc.outcome("poller:%s" % ("failure" if f else "clean"))
        for kind, msg in run_poller(sub, reach, cycles, set(f), later, ek):
            acc.violation(kind, {"op": "poller", "addresses": list(sub), "reach": reach, "cycles": cycles, "exc_kind": ek,
                                 "fail": sorted(list(x) for x in f), "later": list(later) if later else None}, msg)
    acc.sample({"op": "poller", "addresses": [1, 40001, 40002], "reach": 100, "cycles": 4, "fail": [[1, 0]], "later": None})


def run(ctx):
    alpha = alphabet()
    items = []
    for first in alpha:
        for n in (1, 2, 3):
            items.append(("multiset", first, n, False))
        if ctx.quick:
            if first[0] <= 6:
                items.append(("multiset", first, 4, True))
        else:
            items.append(("multiset", first, 4, False))
    items.append(("big",))
    top = 400 if ctx.quick else 2100
    step = 100
    for lo in range(0, top, step):
        items.append(("shatter", lo, lo + step))
    acc = ctx.pmap(__name__, "shard", items)
    acc.merge(ctx.pmap(__name__, "poller_shard", [("poller", k, 32) for k in range(32)]))
    return acc


def guards(acc, ctx):
    g = []
    if acc.counters.get("merged_or_split", 0) < 1000:
        g.append("fewer than 1000 cases where merge changed the ranges")
    if len(acc.outcomes) < 3:
        g.append("fewer than 3 distinct output sizes")
    for k in ("poller:failure", "poller:clean"):
        if not acc.outcomes.get(k):
            g.append("outcome %s never observed" % k)
    return g


def replay(case):
    if case["op"] == "poller":
        later = tuple(case["later"]) if case.get("later") else None
        return [m for k, m in run_poller(tuple(case["addresses"]), case["reach"], case["cycles"],
                                         set(tuple(x) for x in case["fail"]), later, case.get("exc_kind", "base"))]
    if case["op"] == "merge":
        bad, _ = check_merge(tuple(tuple(x) for x in case["ranges"]), case["reach"], case["limit"])
    else:
        bad = check_shatter(case["address"], case["count"], case["limit"])
    return [m for _, m in bad]
