"""C02 -- message framing ignores stream segmentation; an incomplete frame has no effect (E-env).

Subjects (all real code):
  (i)   parser.enip_machine fed chunk by chunk through cpppo.chainable over an instrumented raw iterator;
  (ii)  main.enip_srv_tcp under a scripted recv() (mc.sim.Session), replies collected from conn.send;
  (iii) client.client.__next__ over reply streams (through mc.clientenv, when available).
Environment enumeration: every 2-way split, every 3-way split of short streams, every cut set drawn from the
neighbourhood of field boundaries (<= 4 cuts), byte-at-a-time, fully coalesced, each with injected 'nothing yet'
(recv -> None) answers; every truncation offset followed by EOF.
"""
import itertools

from mc import core, sim, wire as W

ID = "C02"
LEVEL = "fault_enumeration"
ISOLATE_SHARDS = True        # every shard runs in a forked child of a pristine worker (mc/core.py)
RULE = ("streams of 1..3 frames from a message set x chunkings {all 2-way, all 3-way (short), boundary-neighbourhood <=4 cuts, "
        "byte-wise, coalesced} x injected None answers, and every truncation offset + EOF; checked after EVERY chunk: replies "
        "sent so far == replies to exactly the frames whose last byte was delivered, store == model after exactly those. "
        "Two sessions: while one session has delivered its request only up to byte p (every p) and pauses, a second session registers and "
        "reads and must be served as if the first did not exist; the first then completes as usual. "
        "non-trivial = distinct (stream, chunking) with at least one cut strictly inside a frame")
BOUNDS = {
    "quick": "server: streams register+X and register+X+Y over 7 message kinds: all 2-way splits, byte-wise, boundary cuts (<=2 of "
             "{b-1,b,b+1}), <=1 None injected; all truncations.  machine: 12 frames, all 2-way and all 3-way splits (<=80 B)",
    "thorough": "server: 12 message kinds, streams of 1..3 frames; all 2-way; all 3-way for single-request streams <= 160 B; boundary cuts <= 4; "
                "<= 2 None answers; all truncations with parked older session + new session probes. machine: all 3-way <= 160 B",
}
ASSUMPTIONS = ["k-way splits beyond 3 arbitrary cuts are covered only through the boundary-neighbourhood family and byte-at-a-time",
               "the OS-level listener/accept loop is outside the deterministic harness; per-connection containment is checked at "
               "enip_srv_tcp / server_thread.run"]

CFG = (("a", "INT", 2, None), ("big", "INT", 140, None))
ADDR = ("127.0.0.1", 10001)
SESSION = 0x1000                    # first scripted handle (sim.ScriptedRandom)


def messages(tier):
    rd = W.read_tag(W.tag_path("a"), 2)
    m = {
        "read": W.send_rr_data(SESSION, rd, b"ctx-read"),
        "write1": W.send_rr_data(SESSION, W.write_tag(W.tag_path("a"), W.INT, [1, 2]), b"ctx-wr-1"),
        "write2": W.send_rr_data(SESSION, W.write_tag(W.tag_path("a", 1), W.INT, [7]), b"ctx-wr-2", route_path=[("port", (1, 0))]),
        "bundle": W.send_rr_data(SESSION, W.multiple([rd, W.write_tag(W.tag_path("a"), W.INT, [5, 5]), rd]), b"ctx-bndl"),
        "list_services": W.frame(0x04, b"", SESSION, 0, b"ctx-lsvc"),
        "bigwrite": W.send_rr_data(SESSION, W.write_tag(W.tag_path("big"), W.INT, list(range(130))), b"ctx-bigw"),   # length > 0x0100
        "unregister": W.unregister(SESSION, b"ctx-unrg"),
    }
    if tier != "quick":
        m.update({
            "list_identity": W.frame(0x63, b"", SESSION, 0, b"ctx-lidn"),
            "readfrag": W.send_rr_data(SESSION, W.read_frag(W.tag_path("big"), 140, 0), b"ctx-rfrg", route_path=[("port", (1, 0))]),
            "gas": W.send_rr_data(SESSION, W.get_attribute_single(W.cia_path(2, 1, 1)), b"ctx-gas-"),
            "range_err": W.send_rr_data(SESSION, W.read_tag(W.tag_path("a", 2), 1), b"ctx-rerr"),
            "register2": W.register(b"ctx-reg2"),
        })
    return m


def field_boundaries(stream_frames):
    """byte offsets of every field boundary of the encapsulation + SendRRData/CPF layout, per frame, absolute in the stream"""
    out, base = set(), 0
    for f in stream_frames:
        for b in (2, 4, 8, 12, 20, 24):
            out.add(base + b)
        if len(f) > 24 and f[0] in (0x6F, 0x70):
            for b in (28, 30, 32, 34, 36, 38, 40):
                if b < len(f):
                    out.add(base + b)
        base += len(f)
        out.add(base)
    return sorted(x for x in out if 0 < x < base)


# ------------------------------------------------------------------------------------------------------
# (ii) the real server loop

def baseline(frames):
    """one frame per recv(): per-frame reply bytes, per-frame store, alive flags"""
    S = sim.Sim(CFG)
    ss = sim.Session(S, ADDR)
    replies, stores = [], []
    for f in frames:
        if not ss.alive:
            replies.append(None)
            stores.append(stores[-1] if stores else S.store())
            continue
        r = ss.feed(f)
        replies.append(b"".join(r))
        stores.append(S.store())
    ss.close()
    return replies, stores, S


class Spy:
    """Counts logix.process invocations that carry a request, with the length of that request's payload."""

    def __init__(self, M):
        self.calls = []
        self.M = M
        self.real = M.logix.process

    def __call__(self, addr, data, **kw):
        if "request" in data and data.request:
            self.calls.append(len(data.request.enip.get("input", b"")) if "enip" in data.request else -1)
        return self.real(addr, data=data, **kw)


def run_chunks(frames, chunks, base, eof_after=True, probes=False):
    """Feed `chunks` (bytes or None) to a fresh server session; after every chunk compare with the baseline.
    Returns [(kind,msg)]."""
    base_replies, base_stores, _ = base
    bad = []
    S = sim.Sim(CFG)
    M = sim.mods()
    spy = Spy(M)
    older = None
    if probes:
        older = sim.Session(S, ("127.0.0.1", 10009))
        S.rnd.script = [0x2000]                    # the parked session gets 0x2000; the session under test still gets 0x1000
        older.feed(W.register(b"ctx-oldr"))
    ss = sim.Session(S, ADDR, enip_process=spy)      # the real enip_srv_tcp with the spy as its request processor
    ends = list(itertools.accumulate(len(f) for f in frames))
    delivered = 0
    stream = b"".join(frames)
    init_store = S.store()
    for ci, ch in enumerate(chunks):
        if not ss.alive:
            break
        ss.feed(ch)
        if ch:
            delivered += len(ch)
        complete = sum(1 for e in ends if e <= delivered)
        # the session may have ended at a frame that ends it (unregister / error status): frames after it are not answered
        want = b""
        last_store = init_store
        for k in range(complete):
            if base_replies[k] is None:
                break
            want += base_replies[k]
            last_store = base_stores[k]
        got = b"".join(ss.conn.sent)
        if got != want:
            bad.append(("replies-differ-after-chunk", "after chunk %d (%d of %d bytes delivered, %d complete frames): replies sent %s, "
                        "expected %s" % (ci, delivered, len(stream), complete, got.hex(), want.hex())))
            break
        if S.store() != last_store:
            bad.append(("store-differs-after-chunk", "after chunk %d (%d bytes, %d complete frames): store %r, expected %r"
                        % (ci, delivered, complete, S.store()[0], last_store[0])))
            break
    if eof_after and ss.alive:
        ss.feed(b"")
        guard = 0
        while ss.alive and guard < 10:
            ss.feed(b"")
            guard += 1
        if ss.alive:
            bad.append(("eof-not-honoured", "session still alive after EOF"))
    complete = sum(1 for e in ends if e <= delivered)
    answered = sum(1 for k in range(complete) if base_replies[k] is not None)
    if not bad:
        want = b"".join(base_replies[k] for k in range(complete) if base_replies[k] is not None)
        got = b"".join(ss.conn.sent)
        if got != want:
            bad.append(("replies-differ-at-end", "delivered %d/%d bytes (%d complete frames) then EOF: replies %s, expected %s"
                        % (delivered, len(stream), complete, got.hex(), want.hex())))
        last = init_store
        for k in range(complete):
            if base_replies[k] is not None:
                last = base_stores[k]
        if S.store() != last:
            bad.append(("partial-frame-had-effect", "delivered %d/%d bytes (%d complete frames) then EOF: store %r, expected %r"
                        % (delivered, len(stream), complete, S.store()[0], last[0])))
        if len(spy.calls) > answered:
            bad.append(("processor-called-on-partial-frame", "request processor invoked %d times for %d complete frames (payload lengths %r)"
                        % (len(spy.calls), answered, spy.calls)))
        if not ss.conn.closed and not ss.alive:
            bad.append(("connection-not-closed", "server loop ended without closing the connection"))
    if ss.exc is not None and not isinstance(ss.exc, Exception):
        bad.append(("non-exception-escape", "enip_srv_tcp raised %r" % (ss.exc,)))
    if probes and not bad:
        # the parked older session, a brand-new session and a new session FROM THE SAME PEER ADDRESS (a client pinned to a
        # source port reconnecting) must all work and see the same store
        want_a = list(dict(S.store())["a"])
        for who, sess, handle in (("older", older, None), ("new", None, None), ("same-peer", None, None)):
            if sess is None:
                sess = sim.Session(S, ("127.0.0.1", 10010) if who == "new" else ADDR)
                if not sess.alive:
                    bad.append(("other-session-broken", "%s session was closed by the server before it could send anything (%r)"
                                % (who, sess.exc)))
                    continue
                r = sess.feed(W.register(b"ctx-new-"))
            else:
                r = [older.conn.sent[0]]
            try:
                handle = W.split_frames(r[0])[0]["session"]
                rr = sess.feed(W.send_rr_data(handle, W.read_tag(W.tag_path("a"), 2), b"ctx-prob"))
                f = W.split_frames(b"".join(rr))[0]
                vals = W.dec_read_reply(W.dec_send_data(f)["cip"])["values"]
                if vals != want_a:
                    bad.append(("other-session-wrong-data", "%s session read %r, store holds %r" % (who, vals, want_a)))
            except Exception as exc:
                bad.append(("other-session-broken", "%s session failed after the interrupted connection: %s: %s" % (who, type(exc).__name__, exc)))
            sess.close()
    elif older is not None:
        older.close()
    return bad


def chunkings(frames, tier, three_way_limit):
    """yields (label, [chunks]) -- all cut sets; chunks never empty"""
    stream = b"".join(frames)
    n = len(stream)

    def cut(points):
        pts = [0] + sorted(points) + [n]
        return [stream[a:b] for a, b in zip(pts, pts[1:]) if b > a]

    for p in range(1, n):
        yield ("2way", (p,)), cut((p,))
    if n <= three_way_limit:
        for p, q in itertools.combinations(range(1, n), 2):
            yield ("3way", (p, q)), cut((p, q))
    fb = field_boundaries(frames)
    near = sorted({x for b in fb for x in (b - 1, b, b + 1) if 0 < x < n})
    maxcuts = 2 if tier == "quick" else 4
    if tier == "quick":
        for k in (2,):
            for pts in itertools.combinations(near[:24], k):
                yield ("near", pts), cut(pts)
    else:
        sel = near[:30]
        multi = len(frames) > 2                      # register + more than one request: keep the cut families smaller
        for k in ((2,) if multi else (2, 3)):
            for pts in itertools.combinations(sel[:22], k):
                yield ("near", pts), cut(pts)
        for pts in itertools.combinations(fb[:10 if multi else 14], 4):
            yield ("near", pts), cut(pts)
    yield ("bytewise", ()), [stream[i:i + 1] for i in range(n)]
    yield ("coalesced", ()), [stream]


def with_nones(chunks, tier):
    """inject <= 1 (quick) / <= 2 (thorough) 'nothing yet' answers at every position"""
    yield chunks
    positions = range(len(chunks) + 1)
    if len(chunks) > 8:
        positions = [0, 1, len(chunks) // 2, len(chunks) - 1, len(chunks)]
    for i in positions:
        yield chunks[:i] + [None] + chunks[i:]
    if tier != "quick":
        for i, j in itertools.combinations_with_replacement(list(positions)[:6], 2):
            c = list(chunks)
            c.insert(j, None)
            c.insert(i, None)
            yield c


def run_pause(names, p):
    """Session A has delivered its request(s) only up to byte p and pauses there; session B (another peer) registers and reads meanwhile
    and must be served as if A did not exist; A's frame then completes as usual.  -> [(kind,msg)], stuck?"""
    msgs = messages("thorough")
    frames = [W.register(b"ctx-regi")] + [msgs[n] for n in names]
    base_replies, base_stores, _ = baseline(frames)
    bad = []
    S = sim.Sim(CFG)
    A = sim.Session(S, ADDR, wait_timeout=20)
    A.feed(frames[0])
    stream = b"".join(frames[1:])
    A.feed(stream[:p])
    store_now = S.store()
    B = None
    try:
        B = sim.Session(S, ("127.0.0.1", 10010), wait_timeout=20)
        S.rnd.script = [0x2000]       # B's handle is scripted: the handles A is given later stay those of the baseline run
        r = B.feed(W.register(b"ctx-new-"))
        handle = W.split_frames(b"".join(r))[0]["session"]
        rr = B.feed(W.send_rr_data(handle, W.read_tag(W.tag_path("a"), 2), b"ctx-prob"))
        f = W.split_frames(b"".join(rr))
        if len(f) != 1 or f[0]["status"] != 0:
            bad.append(("other-session-wrong-reply", "while another session paused after %d of %d bytes of %r: the second session's read "
                        "was answered %r" % (p, len(stream), names, f)))
        else:
            vals = W.dec_read_reply(W.dec_send_data(f[0])["cip"])["values"]
            if vals != list(dict(store_now)["a"]):
                bad.append(("other-session-wrong-data", "second session read %r, store holds %r" % (vals, dict(store_now)["a"])))
    except sim.SessionHang as exc:
        bad.append(("other-session-blocked-by-partial-frame", "a session that has delivered %d of %d bytes of %r and pauses there blocks "
                    "another session: %s" % (p, len(stream), names, exc)))
        return bad, True
    except Exception as exc:
        bad.append(("other-session-broken", "second session failed while the first paused after %d bytes of %r: %s: %s"
                    % (p, names, type(exc).__name__, exc)))
    if A.alive:
        A.feed(stream[p:])
    want = b"".join(r for r in base_replies if r is not None)
    got = b"".join(A.conn.sent)
    if got != want:
        bad.append(("replies-differ-after-pause", "first session paused after %d of %d bytes of %r: replies %s, expected %s"
                    % (p, len(stream), names, got.hex(), want.hex())))
    final = [st for r, st in zip(base_replies, base_stores) if r is not None]
    if final and S.store() != final[-1]:
        bad.append(("store-differs-after-pause", "store %r, expected %r" % (S.store()[0], final[-1][0])))
    for sess in (B, A):
        if sess is not None:
            try:
                sess.close()
            except sim.SessionHang:
                return bad, True
    return bad, False


def shard(acc, item, tier, seed):
    what = item[0]
    if what == "pause":
        _, names = item
        n = sum(len(messages(tier)[nm]) for nm in names)
        for p in range(1, n):
            acc.ev()
            acc.ntc()
            acc.outcome("pause")
            bad, stuck = run_pause(names, p)
            for k, m in bad:
                acc.violation(k, {"op": "pause", "names": names, "p": p}, m)
            if stuck:
                acc.count("shards_cut_short_after_a_stuck_server_thread")
                break
        acc.sample({"op": "pause", "names": names, "p": 30})
        return
    msgs = messages(tier)
    if what == "server":
        _, names, mode = item
        frames = [W.register(b"ctx-regi")] + [msgs[nm] for nm in names]
        base = baseline(frames)
        stream = b"".join(frames)
        if mode == "chunk":
            lim = 0 if (tier == "quick" or len(names) > 1) else 160      # all 3-way splits: single-request streams only
            for label, chunks in chunkings(frames, tier, lim):
                for cs in with_nones(chunks, tier) if label[0] in ("2way", "bytewise", "coalesced") else [chunks]:
                    acc.ev()
                    acc.ntc()
                    acc.outcome(label[0])
                    for k, m in run_chunks(frames, cs, base):
                        acc.violation(k, {"op": "server", "names": names, "chunks": cs}, m)
            acc.sample({"op": "server", "names": names, "chunks": [stream[:30], None, stream[30:]]})
        else:
            for t in range(0, len(stream) + 1):
                acc.ev()
                acc.ntc()
                acc.outcome("truncate")
                cs = [stream[:t]] if t else []
                for k, m in run_chunks(frames, cs, base, eof_after=True, probes=(tier != "quick" or t % 7 == 0)):
                    acc.violation(k, {"op": "server-trunc", "names": names, "t": t}, m)
                # the same truncation delivered byte-wise (the partial frame is then partially *parsed* at EOF)
                if t and (tier != "quick" or t % 3 == 0):
                    acc.ev()
                    for k, m in run_chunks(frames, [stream[i:i + 1] for i in range(t)], base, eof_after=True):
                        acc.violation(k, {"op": "server-trunc-bytewise", "names": names, "t": t}, m)
            acc.sample({"op": "server-trunc", "names": names, "t": len(stream) - 1})
    elif what == "machine":
        _, names = item
        frames = [msgs[nm] for nm in names]
        lim = 80 if tier == "quick" else 160
        for label, chunks in chunkings(frames, tier, lim):
            acc.ev()
            acc.ntc()
            acc.outcome("machine-" + label[0])
            for k, m in run_machine(frames, chunks):
                acc.violation(k, {"op": "machine", "names": names, "chunks": chunks}, m)
        acc.sample({"op": "machine", "names": names, "chunks": [frames[0][:5], frames[0][5:]]})


class CountingIter:
    """raw iterator under cpppo.chainable: counts the symbols actually pulled"""

    def __init__(self, data):
        self.data = data
        self.i = 0

    def __iter__(self):
        return self

    def __next__(self):
        if self.i >= len(self.data):
            raise StopIteration
        b = self.data[self.i:self.i + 1]
        self.i += 1
        return b[0]


def run_machine(frames, chunks):
    """(i) enip_machine over a chainable source fed chunk by chunk: same frames, exact consumption"""
    M = sim.mods()
    cpppo = M.cpppo
    bad = []
    source = cpppo.chainable()
    pending = list(chunks)
    raws = []
    got = []
    total_expected = 0
    with M.parser.enip_machine(context="enip") as machine:
        for fi, f in enumerate(frames):
            data = cpppo.dotdict()
            steps = 0
            try:
                for m, s in machine.run(source=source, data=data):
                    steps += 1
                    if s is None and source.peek() is None:
                        if not pending:
                            break
                        raw = CountingIter(pending.pop(0))
                        raws.append(raw)
                        source.chain(raw)
                    if steps > 100000:
                        bad.append(("machine-no-progress", "enip_machine did not finish frame %d" % fi))
                        return bad
            except Exception as exc:
                bad.append(("machine-exception", "frame %d under chunking %r: %s: %s" % (fi, [len(c) for c in chunks], type(exc).__name__, exc)))
                return bad
            total_expected += len(f)
            if "enip" not in data or data.enip.get("length") is None:
                bad.append(("frame-not-recognised", "frame %d not parsed under chunking %r" % (fi, [len(c) for c in chunks])))
                return bad
            hdr, _ = W.dec_frame(f)
            inp = bytes(bytearray(data.enip.input)) if "input" in data.enip else b""
            parsed = (data.enip.command, data.enip.length, data.enip.session_handle, data.enip.status,
                      bytes(bytearray(data.enip.sender_context.input)), data.enip.options, inp)
            want = (hdr["command"], hdr["length"], hdr["session"], hdr["status"], hdr["context"], hdr["options"], hdr["payload"])
            if parsed != want:
                bad.append(("frame-content-differs", "frame %d under chunking %r parsed as %r, sent %r" % (fi, [len(c) for c in chunks], parsed, want)))
            if source.sent != total_expected:
                bad.append(("consumed-wrong-amount", "after frame %d source.sent == %d, expected exactly %d (24 + length per frame)"
                            % (fi, source.sent, total_expected)))
                return bad
            pulled = sum(r.i for r in raws)
            if pulled < total_expected:
                bad.append(("sent-exceeds-pulled", "source.sent %d but only %d symbols were pulled from the raw input" % (source.sent, pulled)))
    return bad


def run(ctx):
    msgs = messages(ctx.tier)
    names = list(msgs)
    items = []
    if ctx.quick:
        for a in names:
            items.append(("server", (a,), "chunk"))
            items.append(("server", (a,), "trunc"))
        for a, b in [("write1", "read"), ("bundle", "write2"), ("unregister", "read"), ("bigwrite", "write1"), ("read", "unregister")]:
            items.append(("server", (a, b), "chunk"))
            items.append(("server", (a, b), "trunc"))
        for a in names:
            items.append(("machine", (a,)))
        for a, b in itertools.product(["read", "write2", "list_services", "unregister"], repeat=2):
            items.append(("machine", (a, b)))
        for a in names:
            items.append(("pause", (a,)))
    else:
        for a in names:
            items.append(("pause", (a,)))
        for a, b in [("write1", "read"), ("bundle", "write2"), ("read", "unregister")]:
            items.append(("pause", (a, b)))
        for a in names:
            items.append(("server", (a,), "chunk"))
            items.append(("server", (a,), "trunc"))
        for a, b in itertools.product(names, repeat=2):
            if a in ("bigwrite", "readfrag") and b in ("bigwrite", "readfrag"):
                continue
            items.append(("server", (a, b), "chunk"))
            items.append(("server", (a, b), "trunc"))
        for a, b, c in itertools.product(["write1", "read", "unregister", "list_services"], repeat=3):
            items.append(("server", (a, b, c), "trunc"))
        for a in names:
            items.append(("machine", (a,)))
        for a, b in itertools.product([n for n in names if n not in ("bigwrite",)], repeat=2):
            items.append(("machine", (a, b)))
    return ctx.pmap(__name__, "shard", items)


def guards(acc, ctx):
    g = []
    for k in ("2way", "near", "bytewise", "coalesced", "truncate", "machine-2way", "machine-3way", "pause"):
        if not acc.outcomes.get(k):
            g.append("outcome %s never observed" % k)
    return g


def replay(case):
    msgs = messages("thorough")
    names = case["names"]
    op = case["op"]
    if op == "pause":
        return [m for k, m in run_pause(tuple(names), case["p"])[0]]
    if op == "machine":
        return [m for k, m in run_machine([msgs[n] for n in names], case["chunks"])]
    frames = [W.register(b"ctx-regi")] + [msgs[n] for n in names]
    base = baseline(frames)
    stream = b"".join(frames)
    if op == "server":
        return [m for k, m in run_chunks(frames, case["chunks"], base)]
    t = case["t"]
    if op == "server-trunc":
        return [m for k, m in run_chunks(frames, [stream[:t]] if t else [], base, probes=True)]
    return [m for k, m in run_chunks(frames, [stream[i:i + 1] for i in range(t)], base)]


def preload():
    """import the code under test once in the (pristine) worker; shard children are forked from it"""
    from mc import sim as _sim
    _sim.mods()
