"""C16 -- dotdict behaves as a tree of nested mappings addressed by dotted paths (E-state, model checking).

Subject : the real cpppo.dotdict.dotdict, driven in-process (every transition is a real method call).
Search  : explicit-state breadth-first search over operation sequences.  A state is the canonical nested structure
          of the object (levels sorted recursively, read with raw dict access).  A state is always *re-reached* by
          replaying its operation history on a fresh dotdict (never by deepcopy -- __deepcopy__ is code under test) and
          the rebuilt object is validated against the state key before it is used.
Oracle  : an independent nested-dict reference model (plain dict / list / scalar) with a purely lexical path
          normaliser, written from the property statement and the class docstring; shares no code with cpppo.

What the model takes a key to mean (statement + docstring, nothing from the implementation):
  * a key is NAME ('.' NAME)* ; every '..' back-tracks one element lexically (skipped elements are not validated,
    back-tracking past the root is a no-op that uses up the pair of dots); a single dot left over at the root in front
    of a longer path is ignored ('.a.b' == 'a.b'); NAME may carry one index: l[0], l[ 1], or a computed index l[<path>]
    whose path is looked up at the level that holds the list.
  * NOT defined by the statement but pinned by the repository (automata_test::test_regex, data[path+'.input'] with
    path == ''): a single left-over dot in front of exactly ONE name N ('.a', '...a', 'a...b') denotes N.N.  The model
    adopts that reading (lead decision; an earlier version of this oracle demanded 'a' and that was a false alarm).
  * NOT defined by the statement (class "silent": whatever the code does is accepted and only recorded): a single
    trailing dot ('a.'), keys that normalise to the root ('', '.', 'a..', '...'), whether an *empty* level is listed by
    key iteration, the meaning of keys(depth=n) beyond "a cut through the tree", which exception signals a failed
    lookup, pop/del of list elements or through an index (documented as not implemented), atomicity of a refused
    assignment (it may leave new empty levels) and of a partly refused update().
"""
import ast
import copy as _copy
import itertools
import json
import os
import pickle
import random
import re
import shutil
import tempfile

from mc import core

ID = "C16"
LEVEL = "model_checking"
RULE = ("breadth-first search over sequences of mapping operations (set by item/attribute, setdefault, del, delattr, "
        "pop with/without default, update, constructor) x path alphabet x value alphabet on a real dotdict; a state is the "
        "canonical nested structure; in every distinct state every path of the lookup alphabet is looked up in four "
        "forms (item, attribute, get, in) and compared with a nested-dict model, all iteration forms (+depth) are "
        "compared with the model's leaf paths, copy/deepcopy are checked for level sharing. evaluations = executed "
        "transitions + per-state path/iteration/copy evaluations; non-trivial = (state, operation) pairs, each executed "
        "once, whose operation changed the tree or was refused for a modelled reason, plus (state, path) lookups that "
        "resolve to a stored node")
BOUNDS = {}          # filled in below, once the alphabets are defined
ASSUMPTIONS = [
    "a key that reduces to ONE left-over leading dot followed by exactly one name N ('.a', '...a', 'a...b') denotes N.N: "
    "taken from the implemented, self-consistent and test-pinned behaviour (automata_test::test_regex), not from the "
    "statement, which is silent on it; '.a.b' denotes 'a.b'; '.l[0]' is left unspecified",
    "a dotdict has no state beyond the contents of its levels (__slots__ = ()), so equal canonical structure => equal "
    "future behaviour; every expanded state is nevertheless rebuilt by replaying its own history and validated",
    "values are created fresh for every operation (no user-made aliasing of one mutable value at two paths)",
    "iteration order is not part of the state or of the oracle (keys are compared as multisets)",
    "index expressions are literals or a single dotted path; arithmetic in indexes, negative indexes, lists of plain "
    "dicts, apidict and proxies are outside the alphabet",
]

RESERVED = frozenset(("clear copy get set items iteritems iterkeys itervalues listitems listkeys listvalues keys values "
                      "pop popitem setdefault update").split())

K2 = "computed-dotted-index-final-segment:ValueError"
K5 = "backtrack-after-dotted-computed-index"
K3 = "copy.copy-shares-levels-inside-list"
K4 = "reserved-name-accepted-as-intermediate-level"


def is_reserved(name):
    return name in RESERVED or name.startswith("__")


# ------------------------------------------------------------------------------------------------------------------
# the reference model: paths

class Parsed(object):
    __slots__ = ("raw", "cls", "comps", "shape")

    def __init__(self, raw, cls, comps, shape):
        self.raw, self.cls, self.comps, self.shape = raw, cls, comps, shape


_COMP = re.compile(r"^([^\[\]]*)\[(.*)\]$")
_parse_cache = {}


def _tokens(key):
    """Split at dots outside brackets -> alternating dot-run counts and names: [run0, name, run, name, ..., runN]."""
    out, run, cur, depth = [], 0, "", 0
    names = 0
    for ch in key:
        if ch == "." and depth == 0:
            if cur:
                out.append(cur)
                names += 1
                cur = ""
                run = 0
            run += 1
            continue
        if ch == "[":
            depth += 1
        elif ch == "]":
            depth -= 1
        if not cur:
            out.append(run)
            run = 0
        cur += ch
    if cur:
        out.append(cur)
        run = 0
    out.append(run)
    return out


def parse(key):
    """Lexical normalisation of a key.  cls: 'ok' | 'root' | 'trailing' | 'malformed' | 'unspecified'.

    Every '..' removes the key element in front of it: while elements remain in front, one of the two dots stays behind
    as the separator (so a run of k dots after n >= k elements removes k-1 of them); removing the LAST remaining element
    takes both dots with it; at the root a further '..' is a no-op that uses up both dots.  What can be left over at
    the root is therefore nothing, or ONE dot.  A left-over single dot in front of a longer path is ignored
    ('.a.b' == 'a.b').  A left-over single dot in front of exactly one name N denotes N.N: the statement does not
    say what that shape means, set/get/in/keys agree on this reading, and the repository pins it
    (automata_test::test_regex reads data.input.input written as data[path+'.input'] with path == '')."""
    p = _parse_cache.get(key)
    if p is not None:
        return p
    toks = _tokens(key)
    stack = []
    cls = "ok"
    n = len(toks)
    lone_dot_at = None                        # index of the token that follows a left-over single dot at the root
    for i, t in enumerate(toks):
        if isinstance(t, int):
            last = i == n - 1
            if i == 0:
                left = t                      # leading dots: all of them are "at the root"
            elif t <= 1:
                if last and t == 1:
                    cls = "trailing"
                continue
            elif t <= len(stack):
                del stack[len(stack) - (t - 1):]          # t-1 elements go, one dot stays as the separator
                continue
            else:
                left = t - len(stack) - 1     # len(stack) elements cost len(stack)+1 dots; the rest is at the root
                del stack[:]
            if left % 2 == 1 and not last:
                lone_dot_at = i + 1
        else:
            m = _COMP.match(t)
            if m:
                name, expr = m.group(1), m.group(2).strip()
                if re.match(r"^-?\d+$", expr):
                    idx = ("lit", int(expr))
                else:
                    idx = ("path", expr)
                if not name or "[" in name or "]" in name:
                    cls = "malformed"
                stack.append((name, idx))
            elif "[" in t or "]" in t:
                cls = "malformed"
                stack.append((t, None))
            else:
                stack.append((t, None))
            if lone_dot_at == i and i == n - 2 and toks[n - 1] == 0:
                # a single dot, then exactly one name, then the end of the key
                if stack[-1][1] is None and cls == "ok":
                    stack.append(stack[-1])   # '.N' denotes N.N (test-pinned reading)
                else:
                    cls = "unspecified"       # '.l[0]': nothing defines or pins it
    if cls == "ok" and not stack:
        cls = "root"
    if "[" in key:
        shape = "computed-index" if any(c[1] and c[1][0] == "path" for c in stack) else "indexed"
    elif key.startswith("."):
        shape = "leading-dot"
    elif ".." in key:
        shape = "dotdot"
    else:
        shape = "plain"
    if any(is_reserved(c[0]) for c in stack):
        shape = "reserved"
    p = Parsed(key, cls, tuple(stack), shape)
    _parse_cache[key] = p
    return p


def k5_shape(key):
    """'..' directly after an element whose index expression contains a dot: 'l[m.i[1]]..b', 'l[l[0].a]..b'.
    Decided from the key text alone (before the subject is run); every violation on such a key gets kind K5."""
    toks = _tokens(key)
    for i, t in enumerate(toks[:-1]):
        if isinstance(t, str) and isinstance(toks[i + 1], int) and toks[i + 1] >= 2:
            m = _COMP.match(t)
            if m and "." in m.group(2):
                return True
    return False


def k2_shape(p):
    if p.cls != "ok" or not p.comps:
        return False
    idx = p.comps[-1][1]
    return bool(idx and idx[0] == "path" and "." in idx[1])


# ------------------------------------------------------------------------------------------------------------------
# the reference model: tree (level = dict, list = list, anything else = leaf)

MISSING = ("missing",)
UNSPECIFIED = ("unspecified",)


def m_index(level, idx, length):
    if idx[0] == "lit":
        i = idx[1]
    else:
        q = parse(idx[1])
        if q.cls != "ok":
            return None
        r = m_lookup(level, q.comps)
        if r is MISSING or r is UNSPECIFIED or not isinstance(r[1], int) or isinstance(r[1], bool):
            return None
        i = r[1]
    if -length <= i < length:
        return i
    return None


def m_lookup(root, comps):
    cur = root
    for name, idx in comps:
        if not isinstance(cur, dict) or name not in cur:
            return MISSING
        level = cur
        cur = cur[name]
        if idx is not None:
            if not isinstance(cur, list):
                # indexing something that is not a list (a string leaf, a level): not defined by the statement
                return MISSING if isinstance(cur, (dict, int)) else UNSPECIFIED
            i = m_index(level, idx, len(cur))
            if i is None:
                return MISSING
            cur = cur[i]
    return ("found", cur)


class Refuse(Exception):
    def __init__(self, reason):
        Exception.__init__(self, reason)
        self.reason = reason


def m_descend(cur, name, idx, create, reserved_intermediate):
    if idx is None:
        if name not in cur:
            if not create:
                raise Refuse("missing")
            if reserved_intermediate and is_reserved(name):
                raise Refuse("reserved-intermediate")
            cur[name] = {}
        nxt = cur[name]
    else:
        if name not in cur or not isinstance(cur[name], list):
            raise Refuse("no-such-list")
        i = m_index(cur, idx, len(cur[name]))
        if i is None:
            raise Refuse("index")
        nxt = cur[name][i]
    if not isinstance(nxt, dict):
        raise Refuse("through-leaf")
    return nxt


def m_set(root, comps, value, reserved_intermediate=True):
    """In place.  May raise Refuse after having created empty intermediate levels (the 'residue')."""
    cur = root
    for name, idx in comps[:-1]:
        cur = m_descend(cur, name, idx, True, reserved_intermediate)
    name, idx = comps[-1]
    if idx is None:
        if is_reserved(name):
            raise Refuse("reserved")
        cur[name] = value
    else:
        if name not in cur or not isinstance(cur[name], list):
            raise Refuse("no-such-list")
        i = m_index(cur, idx, len(cur[name]))
        if i is None:
            raise Refuse("index")
        cur[name][i] = value
    return value


def m_parent(root, comps):
    cur = root
    for name, idx in comps[:-1]:
        cur = m_descend(cur, name, idx, False, False)
    return cur


def m_value(spec):
    """Model image of a value spec (see VALUES): plain dicts become levels, dotted keys are paths."""
    kind, body = VALUES[spec]
    return _m_conv(body)


def _m_conv(body):
    if isinstance(body, tuple) and body and body[0] == "dd":      # a dotdict built from keywords
        return _m_conv(dict(body[1]))
    if isinstance(body, dict):
        lvl = {}
        for k, v in body.items():
            q = parse(k)
            if q.cls != "ok":
                raise Refuse("silent-key-in-value")
            m_set(lvl, q.comps, _m_conv(v))
        return lvl
    if isinstance(body, list):
        return [_m_conv(v) for v in body]
    return body


def m_canon(x):
    if isinstance(x, dict):
        return ("D", tuple(sorted((k, m_canon(v)) for k, v in x.items())))
    if isinstance(x, list):
        return ("L", tuple(m_canon(v) for v in x))
    return ("S", repr(x))


def m_uncanon(c):
    t = c[0]
    if t == "D":
        return {k: m_uncanon(v) for k, v in c[1]}
    if t == "L":
        return [m_uncanon(v) for v in c[1]]
    if t == "S":
        return ast.literal_eval(c[1])
    raise core.HarnessError("state key holds a node of kind %r" % (t,))


def m_leaves(tree, prefix, mand, opt):
    """Leaf paths as tuples of (name, index|None).  Empty levels are 'optional' (statement silent)."""
    for name, v in tree.items():
        if isinstance(v, dict):
            if v:
                m_leaves(v, prefix + ((name, None),), mand, opt)
            else:
                opt.append(prefix + ((name, None),))
        elif isinstance(v, list) and v and all(isinstance(e, dict) for e in v):
            for i, e in enumerate(v):
                if e:
                    m_leaves(e, prefix + ((name, i),), mand, opt)
                else:
                    opt.append(prefix + ((name, i),))
        else:
            mand.append(prefix + ((name, None),))


def m_levels(tree, prefix=""):
    """Key strings of every level (root = '')."""
    yield prefix
    for name, v in tree.items():
        here = (prefix + "." if prefix else "") + name
        if isinstance(v, dict):
            for x in m_levels(v, here):
                yield x
        elif isinstance(v, list):
            for i, e in enumerate(v):
                if isinstance(e, dict):
                    for x in m_levels(e, "%s[%d]" % (here, i)):
                        yield x


# ------------------------------------------------------------------------------------------------------------------
# alphabets

# value spec -> (kind, body); body uses ("dd", items) for "built as a dotdict", dict for a PLAIN dict, list for a list
VALUES = {
    "i1": ("scalar", 1),
    "n0": ("scalar", None),                     # a leaf that holds None is still a leaf
    # a level holding a list of ints and a list of levels with an int field: index expressions like l[m.i[1]] and
    # l[m.s[0].a], whose NON-first dotted piece opens another bracket
    "mi": ("dotdict", ("dd", (("i", [1, 0]), ("s", [("dd", (("a", 0),)), ("dd", (("a", 1),))])))),
    "sv": ("scalar", "v"),
    "pe": ("plain", {}),
    "pb": ("plain", {"b": 1}),
    "pn": ("plain", {"b": {"c": 1}}),
    "pd": ("plain", {"c.d": 2}),
    "pk": ("plain", {"a": 1, "keys": 2}),
    "de": ("dotdict", ("dd", ())),
    "dd": ("dotdict", ("dd", (("b", 2),))),
    "l2": ("list", [("dd", (("a", 0),)), ("dd", (("a", 1),))]),
    "l11": ("list", [("dd", (("a", i),)) for i in range(11)]),
    "le": ("list", []),
    "l1e": ("list", [("dd", ())]),
    "lm": ("list", [("dd", (("a", 0),)), 5]),
}

QUICK_PATHS = [
    # plain
    "a", "b", "a.b", "a.c", "a.b.c",
    # leading dots / back-tracking (model meaning in the comment)
    ".a",            # a.a   (single dot + single name: test-pinned reading)
    ".a.b",          # a.b
    "..a",           # a
    "a..b",          # b
    "a.b..c",        # a.c
    "a.b.c...b",     # a.b
    "a...b",         # b.b   (past the root, one dot left over + single name)
    "a.b..",         # a
    # lists of levels
    "l", "l[0].a", "l[1]", "l[1].b", "l[2]", "l[l[0].a].b", "l[0]..b", "l[10].a",
    # index expressions that are dotted paths with a bracket in a later piece
    "m", "l[m.i[1]].a", "l[l[0].a]..b",
    # reserved names
    "keys", "__x", "a.get", "keys.a", "a.__x",
    # silent
    "a.", "", "..", "a..", "a.b.",
]
THOROUGH_PATHS = QUICK_PATHS + ["l[m.s[1].a].b", "c", "b.a", "...a", "....a.b", "a.x.y...b", "a.l", "a.l[0].a", "l[0].b.c", "pop", "a.update",
                                "l[0].keys", "."]

QUICK_VALS = ["i1", "pe", "pb", "pn", "dd"]
QUICK_LVALS = ["l2", "l11", "i1", "l1e", "lm"]
THOROUGH_VALS = ["i1", "sv", "pe", "pb", "pn", "pd", "pk", "de", "dd"]
THOROUGH_LVALS = ["l2", "l11", "i1", "le", "l1e", "lm"]

UPDATES = {
    "u1": ("map", (("a.b", 1), ("c", 2))),
    "u2": ("kw", (("b", {"c": 3}),)),
    "u3": ("dd", (("a.c", 1),)),
    "u4": ("pairs", (("a.b", "v"), ("a..c", 2))),
    "u5": ("map", (("a", 1), ("keys", 2), ("b", 3))),
}
CTORS = {
    "c1": ("map+kw", (("a.b", 1),), (("c", 2),)),
    "c2": ("pairs", (("a", {"b.c": {"a": 1}}), ("l", "L2")), ()),
}


# per-path value alphabets that differ from the tier's default
PATH_VALUES = {"m": ["mi"], "l[m.i[1]].a": ["i1"], "l[l[0].a]..b": ["i1"], "l[m.s[1].a].b": ["i1", "pb"]}
NONE_PATHS_QUICK = ["a", "a.b", "l[0].a"]
NONE_PATHS_WIDE = NONE_PATHS_QUICK + ["b", "a.b..c", "l[1]"]


def list_paths(paths):
    return [p for p in paths if p in ("l", "a.l")]


def ops_for(alpha):
    """alpha: 'quick' | 'wide'.  The complete, ordered operation alphabet."""
    if alpha == "quick":
        paths, vals, lvals, ups = QUICK_PATHS, QUICK_VALS, QUICK_LVALS, ["u1", "u2", "u3", "u4"]
    else:
        paths, vals, lvals, ups = THOROUGH_PATHS, THOROUGH_VALS, THOROUGH_LVALS, ["u1", "u2", "u3", "u4", "u5"]
    ops = []
    lp = set(list_paths(paths))
    nonep = NONE_PATHS_QUICK if alpha == "quick" else NONE_PATHS_WIDE
    for p in paths:
        for v in (PATH_VALUES.get(p) or (lvals if p in lp else vals)) + (["n0"] if p in nonep else []):
            ops.append(("set", p, v))
            ops.append(("setattr", p, v))
            ops.append(("setdefault", p, v))
        ops.append(("del", p))
        ops.append(("pop", p))
        ops.append(("popd", p))
    for p in ("a", "a.b", "l"):
        ops.append(("delattr", p))
    # python-level chains: d.a.b = v  /  d['a']['b'] = v  /  d.l[0].a = v
    for v in ("i1", "pb"):
        ops.append(("chainattr", "a.b", v))
        ops.append(("chainattr", "a.b.c", v))
        ops.append(("chainitem", "a.b", v))
        ops.append(("chainattr", "l[0].a", v))
        ops.append(("chainattr", "a.keys", v))
    for u in ups:
        ops.append(("update", u))
    return ops


def ctor_ops():
    return [("ctor", c) for c in sorted(CTORS)]


def dotted_strings(names, maxcomps):
    out = []
    for n in range(1, maxcomps + 1):
        for c in itertools.product(list(names) + [""], repeat=n):
            out.append(".".join(c))
    return out


HAND_LOOK = [
    "c", "a.c", "a.b.c", "b.c", "a.b.c..c", "a.b.c...b", "a.b.x....a.b", "a.b.c..", "a.b.c...", "c.x..", "a.x.y...b",
    "a.....a.b", "....a.b", "...c", "a...c", "a.b....c", "a.b...c",
    "l", "l[0]", "l[1]", "l[2]", "l[0].a", "l[1].a", "l[1].b", "l[ 1].a", "l[10].a", "l[0].b.c", "l[0].b",
    "l[l[0].a].a", "l[l[1].a].a", "l[l[0].a].b", "l[l[0].a]", "l[0]..b", "l[0]..a", "l[0].a..a", "l[0].x...c",
    "l[1]..l[0].a", "l.a", "a[0]", "l[0].a.x", "l[a.b].a", "l[a.b]",
    "keys", "get", "__x", "a.keys", "a.get", "keys.a", "a.__x", "pop", "update",
    "a.l", "a.l[0].a", "a.l[1]..b", "a.l[0]...c",
    "m.i[1]", "m.s[1]", "l[m.i[1]].a", "l[m.i[0]].a", "l[m.i[1]]", "l[m.i[2]].a", "l[m.s[1].a].a", "l[m.s[1].a]",
    "m.s[i[0]].a", "a..l[m.i[0]].a",
    # '..' right after an element with a dotted index expression (kind K5 on the unchanged tree)
    "l[m.i[1]]..b", "l[l[0].a]..b",
]
HAND_LOOK_THOROUGH = [
    "m", "m.i", "m.i[2]", "m.s[0].a", "l[m.s[0].a].a", "l[m.s[1].a].b", "m.s[m.i[0]].a", "m.s[s[1].a].a", ".l[m.i[1]].a",
]


_look_cache = {}


def look_paths(tier):
    if tier in _look_cache:
        return _look_cache[tier]
    base = dotted_strings("ab", 3 if tier == "quick" else 4)
    if tier != "quick":
        base += dotted_strings("abc", 3)
    seen, out = set(), []
    for p in base + HAND_LOOK + (HAND_LOOK_THOROUGH if tier != "quick" else []) + QUICK_PATHS + THOROUGH_PATHS:
        if p not in seen:
            seen.add(p)
            out.append(p)
    _look_cache[tier] = out
    return out


BOUNDS.update({
    "quick": "names {a,b,c,l}; %d mutation paths, each x values %s (lists %s) x {set, setattr, setdefault} + {del, pop, "
             "pop-with-default}; delattr; chained attribute/item assignment; update (4 forms); constructor (2 forms) = %d operations; ALL histories of <= 3 operations (every "
             "state reachable in <= 2 operations fully expanded); %d lookup paths per state x 4 forms, incl. every dotted "
             "string of <= 3 components over {a,b,empty}; lists of 2 and 11 levels, a mixed list, a list holding one empty "
             "level" % (len(QUICK_PATHS), "/".join(QUICK_VALS), "/".join(QUICK_LVALS), len(ops_for("quick")) + 2,
                        len(look_paths("quick"))),
    "thorough": "(1) wide alphabet: %d paths x values %s (lists %s) = %d operations, ALL histories of <= 3 operations; "
                "(2) the quick alphabet (%d operations), ALL histories of <= 4 operations; %d lookup paths per state x 4 "
                "forms, incl. every dotted string of <= 4 components over {a,b,empty} and <= 3 over {a,b,c,empty}" % (
                    len(THOROUGH_PATHS), "/".join(THOROUGH_VALS), "/".join(THOROUGH_LVALS), len(ops_for("wide")) + 2,
                    len(ops_for("quick")) + 2, len(look_paths("thorough"))),
})


# ------------------------------------------------------------------------------------------------------------------
# the real thing

_mod = None


def dd():
    global _mod
    if _mod is None:
        import importlib
        _mod = importlib.import_module("cpppo.dotdict")   # (cpppo.dotdict the attribute is the class)
    return _mod


def r_value(spec):
    return _r_conv(VALUES[spec][1])


def _r_conv(body):
    if isinstance(body, tuple) and body and body[0] == "dd":
        return dd().dotdict(**{k: _r_conv(v) for k, v in body[1]})
    if isinstance(body, dict):
        return {k: _r_conv(v) for k, v in body.items()}          # stays a PLAIN dict
    if isinstance(body, list):
        return [_r_conv(v) for v in body]
    return body


def r_canon(x):
    base = dd().dotdict_base
    if isinstance(x, base):
        return ("D", tuple(sorted((k, r_canon(v)) for k, v in dict.items(x))))
    if isinstance(x, dict):
        return ("P", tuple(sorted((str(k), r_canon(v)) for k, v in x.items())))
    if isinstance(x, list):
        return ("L", tuple(r_canon(v) for v in x))
    return ("S", repr(x))


def has_plain(c):
    if c[0] == "P":
        return True
    if c[0] == "D":
        return any(has_plain(v) for _, v in c[1])
    if c[0] == "L":
        return any(has_plain(v) for v in c[1])
    return False


SENT = "<<no-such-key>>"


def _chain(d, path, form):
    """Python-level walk to the parent of the last component: d.a.b / d['a']['b'] / d.l[0].a"""
    comps = parse(path).comps
    cur = d
    for name, idx in comps[:-1]:
        cur = getattr(cur, name) if form == "attr" else cur[name]
        if idx is not None:
            cur = cur[idx[1]]
    return cur, comps[-1]


def r_apply(d, op):
    """Execute one operation on the real object.  -> (d', ('ok', ret) | ('exc', typename, text))"""
    kind = op[0]
    try:
        if kind == "set":
            d[op[1]] = r_value(op[2])
            ret = None
        elif kind == "setattr":
            setattr(d, op[1], r_value(op[2]))
            ret = None
        elif kind == "setdefault":
            ret = d.setdefault(op[1], r_value(op[2]))
        elif kind == "del":
            del d[op[1]]
            ret = None
        elif kind == "delattr":
            delattr(d, op[1])
            ret = None
        elif kind == "pop":
            ret = d.pop(op[1])
        elif kind == "popd":
            ret = d.pop(op[1], SENT)
        elif kind in ("chainattr", "chainitem"):
            parent, (name, idx) = _chain(d, op[1], "attr" if kind == "chainattr" else "item")
            if idx is not None:
                raise core.HarnessError("chain ops end in a plain name")
            if kind == "chainattr":
                setattr(parent, name, r_value(op[2]))
            else:
                parent[name] = r_value(op[2])
            ret = None
        elif kind == "update":
            how, items = UPDATES[op[1]]
            if how == "map":
                d.update(dict(items))
            elif how == "kw":
                d.update(**dict(items))
            elif how == "dd":
                src = dd().dotdict()
                for k, v in items:
                    src[k] = v
                d.update(src)
            else:
                d.update(list(items))
            ret = None
        elif kind == "ctor":
            how, items, kw = CTORS[op[1]]
            items = [(k, r_value("l2") if v == "L2" else v) for k, v in items]
            if how == "map+kw":
                d = dd().dotdict(dict(items), **dict(kw))
            else:
                d = dd().dotdict(items)
            ret = None
        else:
            raise core.HarnessError("unknown op %r" % (op,))
    except core.HarnessError:
        raise
    except Exception as exc:
        return d, ("exc", type(exc).__name__, str(exc)[:160])
    return d, ("ok", ret)


def rebuild(history):
    d = dd().dotdict()
    for op in history:
        d, _ = r_apply(d, tuple(op))
    return d


# ------------------------------------------------------------------------------------------------------------------
# the reference model: operations.  An expectation is a list of acceptable alternatives
#     (how, tree_canon, ret)    how: 'ok' | 'exc';  ret: canon | ANY
# or None when the statement is silent about the operation (class 'silent').

ANY = ("any",)
_REFUSED_VALUE = ("refused-value",)


def _alts_refuse(before_c, residue_c):
    alts = [("exc", before_c, ANY)]
    if residue_c != before_c:
        alts.append(("exc", residue_c, ANY))
    return alts


def m_expect(before_c, op, reserved_intermediate=True):
    """-> (alternatives | None, info)."""
    kind = op[0]
    tree = m_uncanon(before_c)
    info = {"reason": None}
    path_of = parse

    if kind in ("set", "setattr", "setdefault", "chainattr", "chainitem"):
        p = path_of(op[1])
        if p.cls != "ok":
            return None, info
        try:
            val = m_value(op[2])
        except Refuse as r:
            val, info["valrefuse"] = _REFUSED_VALUE, r.reason
        if kind in ("chainattr", "chainitem"):
            # python-level walk: every intermediate level must already exist
            par = m_lookup(tree, p.comps[:-1])
            if par is MISSING or par is UNSPECIFIED or not isinstance(par[1], dict):
                info["reason"] = "chain-parent-missing"
                return [("exc", before_c, ANY)], info
        if kind == "setdefault":
            r = m_lookup(tree, p.comps)
            if r is UNSPECIFIED:
                return None, info
            if r is not MISSING:
                return [("ok", before_c, m_canon(r[1]))], info
        if val is _REFUSED_VALUE:
            # the value itself holds a reserved key: refused; earlier keys of it never reach the tree
            info["reason"] = "reserved-in-value"
            try:
                cur = tree
                for name, idx in p.comps[:-1]:
                    cur = m_descend(cur, name, idx, True, reserved_intermediate)
            except Refuse:
                pass
            return _alts_refuse(before_c, m_canon(tree)), info
        try:
            m_set(tree, p.comps, val, reserved_intermediate)
        except Refuse as r:
            info["reason"] = r.reason
            return _alts_refuse(before_c, m_canon(tree)), info
        after = m_canon(tree)
        return [("ok", after, m_canon(val) if kind == "setdefault" else ANY)], info

    if kind in ("del", "pop", "popd", "delattr"):
        p = path_of(op[1])
        if p.cls != "ok":
            return None, info
        has_index = any(c[1] is not None for c in p.comps)
        final_index = p.comps[-1][1] is not None
        literal_only = all(c[1] is None or c[1][0] == "lit" for c in p.comps)
        alts = []
        try:
            parent = m_parent(tree, p.comps)
            name, idx = p.comps[-1]
            if final_index:
                if name not in parent or not isinstance(parent[name], list):
                    raise Refuse("missing")
                i = m_index(parent, idx, len(parent[name]))
                if i is None:
                    raise Refuse("missing")
                victim = parent[name][i]
            else:
                if name not in parent:
                    raise Refuse("missing")
                victim = parent[name]
            if kind in ("del", "delattr") and isinstance(victim, dict) and victim:
                raise Refuse("nonempty-level")
            if final_index:
                del parent[name][i]
            else:
                del parent[name]
            alts.append(("ok", m_canon(tree), m_canon(victim) if kind in ("pop", "popd") else ANY))
        except Refuse as r:
            info["reason"] = r.reason
            alts.append(("exc", before_c, ANY))
            if kind == "popd" and r.reason != "nonempty-level":
                alts.append(("ok", before_c, m_canon(SENT)))
        # where refusing is as good as doing it (statement silent): attribute deletion, pops through an index,
        # removal of a list element, anything through a computed index
        lenient = (kind == "delattr" or final_index or not literal_only or (has_index and kind in ("pop", "popd")))
        if lenient and alts[0][0] == "ok":
            info["lenient"] = True
            alts.append(("exc", before_c, ANY))
            if kind == "popd":
                alts.append(("ok", before_c, m_canon(SENT)))
        return alts, info

    if kind == "update" and UPDATES[op[1]][0] == "dd":
        # update from another dotdict: the statement does not say whether its leaf paths are merged in or its
        # top-level entries are assigned (dict.update semantics); accept either
        how, items = UPDATES[op[1]]
        src = {}
        for k, v in items:
            m_set(src, parse(k).comps, _m_conv(v))
        alts = []
        for mode in ("leafwise", "toplevel"):
            t2 = m_uncanon(before_c)
            try:
                if mode == "leafwise":
                    for k, v in items:
                        m_set(t2, parse(k).comps, _m_conv(v), reserved_intermediate)
                else:
                    for name, sub in m_uncanon(m_canon(src)).items():
                        m_set(t2, ((name, None),), sub, reserved_intermediate)
                alts.append(("ok", m_canon(t2), ANY))
            except Refuse as r:
                info["reason"] = "partial:" + r.reason
                alts += _alts_refuse(before_c, m_canon(t2))
        return alts, info

    if kind == "update":
        how, items = UPDATES[op[1]]
        for k, v in items:
            p = parse(k)
            if p.cls != "ok":
                return None, info
            before_step = m_canon(tree)
            try:
                m_set(tree, p.comps, _m_conv(v), reserved_intermediate)
            except Refuse as r:
                info["reason"] = "partial:" + r.reason
                return _alts_refuse(before_step, m_canon(tree)) + [("exc", before_c, ANY)], info
        return [("ok", m_canon(tree), ANY)], info

    if kind == "ctor":
        how, items, kw = CTORS[op[1]]
        tree = {}
        for k, v in list(items) + list(kw):
            m_set(tree, parse(k).comps, m_value("l2") if v == "L2" else _m_conv(v))
        return [("ok", m_canon(tree), ANY)], info

    raise core.HarnessError("unknown op %r" % (op,))


def _match(alts, how, after_c, ret_c):
    for a in alts:
        if a[0] == how and a[1] == after_c and (a[2] is ANY or how == "exc" or a[2] == ret_c):
            return a
    return None


def check_transition(before_c, history, op, outcomes=None):
    """Run `op` on the state rebuilt from `history`.
    -> (violations [(kind,msg)], successor canon | None, changed?, nontrivial?)"""
    d = rebuild(history)
    if r_canon(d) != before_c:
        raise core.HarnessError("replaying %r does not give the recorded state" % (history,))
    d, res = r_apply(d, op)
    after_c = r_canon(d)
    how = res[0]
    ret_c = r_canon(res[1]) if how == "ok" else None
    alts, info = m_expect(before_c, op)
    tag = op[0]

    def out(s):
        if outcomes is not None:
            outcomes(s)

    out("model:%s:%s" % (tag, "silent" if alts is None else "apply" if alts[0][0] == "ok" and alts[0][1] != before_c
                          else "no-change" if alts[0][0] == "ok" else "refuse:%s" % info["reason"]))
    if alts is None:
        # statement silent: accept, record, and make sure the object is still a coherent tree
        out("silent:%s:%s:%s" % (tag, how if how == "ok" else res[1], "changed" if after_c != before_c else "unchanged"))
        bad = []
        if has_plain(after_c):
            bad.append(("plain-dict-not-converted", "%s left a plain dict in the tree: %r" % (describe(op), after_c)))
        elif _has_empty_name(after_c):
            out("silent:%s:creates-a-level-entry-named-''" % tag)
        elif after_c != before_c and (outcomes is None or _first_time(after_c)):
            bad += [(k, "after %s (a key the statement does not define): %s" % (describe(op), m))
                    for k, m in check_state(d, after_c, "quick", lenient_keys=True)]
        return bad, None, after_c != before_c, False
    m = _match(alts, how, after_c, ret_c)
    if m is not None:
        changed = after_c != before_c
        if how == "ok":
            out("%s:applied" % tag if changed else "%s:no-change" % tag)
        else:
            out("%s:refused:%s:%s%s" % (tag, info["reason"], res[1], ":left-empty-levels" if changed else ""))
        if info.get("lenient") and m[1] == before_c and alts[0][1] != before_c:
            out("%s:%s-path-not-supported(accepted)" % (tag, parse(op[1]).shape))
        return [], after_c, changed, changed or (how == "exc" and info["reason"] not in (None, "missing"))

    # ---- mismatch: classify
    msg = "%s on %s: expected %s; real %s, tree %s" % (
        describe(op), show(before_c), " | ".join(_show_alt(a) for a in alts),
        "returned %s" % show(ret_c) if how == "ok" else "raised %s(%s)" % (res[1], res[2]), show(after_c))
    if tag not in ("update", "ctor") and k5_shape(op[1]):
        return [(K5, msg)], None, after_c != before_c, True
    alts4, info4 = m_expect(before_c, op, reserved_intermediate=False)
    if alts4 is not None and _match(alts4, how, after_c, ret_c):
        # the only difference between the two expectations is that a reserved name may become an intermediate level
        return [(K4, msg)], None, after_c != before_c, True
    shape = parse(op[1]).shape if tag not in ("update", "ctor") else "-"
    if has_plain(after_c):
        kind = "plain-dict-not-converted"
    elif alts[0][0] == "ok" and how == "exc":
        kind = "%s-refused-but-must-apply:%s" % (tag, shape)
    elif alts[0][0] == "exc" and how == "ok":
        kind = "%s-accepted-but-must-be-refused:%s" % (tag, info["reason"])
    elif how == "exc":
        kind = "%s-refusal-changed-the-tree" % tag
    elif after_c == alts[0][1]:
        kind = "%s-wrong-return-value" % tag
    else:
        kind = "%s-wrong-resulting-tree:%s" % (tag, shape)
    return [(kind, msg)], None, after_c != before_c, True


_silent_seen = set()


def _has_empty_name(c):
    if c[0] in ("D", "P"):
        return any(k == "" or _has_empty_name(v) for k, v in c[1])
    if c[0] == "L":
        return any(_has_empty_name(v) for v in c[1])
    return False


def _first_time(c):
    h = core.h64(repr(c))
    if h in _silent_seen:
        return False
    if len(_silent_seen) < 200000:
        _silent_seen.add(h)
    return True


def describe(op):
    if op[0] in ("set", "setattr", "setdefault", "chainattr", "chainitem"):
        return "%s(%r, %s)" % (op[0], op[1], _vstr(VALUES[op[2]][1]))
    if op[0] == "update":
        return "update%s(%r)" % (UPDATES[op[1]][0], UPDATES[op[1]][1])
    if op[0] == "ctor":
        return "dotdict%r" % (CTORS[op[1]],)
    return "%s(%r)" % (op[0], op[1])


def _vstr(body):
    if isinstance(body, tuple) and body and body[0] == "dd":
        return "dotdict(%s)" % ", ".join("%s=%s" % (k, _vstr(v)) for k, v in body[1])
    if isinstance(body, dict):
        return "plain-dict{%s}" % ", ".join("%r: %s" % (k, _vstr(v)) for k, v in body.items())
    if isinstance(body, list):
        return "[%s%s]" % (", ".join(_vstr(v) for v in body[:2]), ", ...%d items" % len(body) if len(body) > 2 else "")
    return repr(body)


def show(c):
    if c is None:
        return "-"
    if c is ANY:
        return "*"
    t = c[0]
    if t == "D":
        return "{" + ", ".join("%s: %s" % (k, show(v)) for k, v in c[1]) + "}"
    if t == "P":
        return "PLAINDICT{" + ", ".join("%s: %s" % (k, show(v)) for k, v in c[1]) + "}"
    if t == "L":
        s = "[" + ", ".join(show(v) for v in c[1][:3]) + (", ...%d" % len(c[1]) if len(c[1]) > 3 else "") + "]"
        return s
    return c[1]


def _show_alt(a):
    return "%s -> %s%s" % ("applied" if a[0] == "ok" else "refused", show(a[1]), "" if a[2] is ANY else " returning " + show(a[2]))


# ------------------------------------------------------------------------------------------------------------------
# invariants of one state

def _try(f):
    try:
        return ("ok", f())
    except core.HarnessError:
        raise
    except Exception as exc:
        return ("exc", type(exc).__name__, str(exc)[:120])


def check_lookup(d, tree, p, outcomes=None, stats=None):
    """All four lookup forms of one key against the model.  -> [(kind, msg)]"""
    q = parse(p)
    item = _try(lambda: d[p])
    isin = _try(lambda: p in d)
    got = _try(lambda: d.get(p, SENT))
    skip_attr = len(q.comps) == 1 and q.raw == q.comps[0][0] and (q.raw in RESERVED or q.raw in dir(dict))
    attr = item if skip_attr else _try(lambda: getattr(d, p))
    bad = []

    def out(s):
        if outcomes is not None:
            outcomes(s)

    # -- forms agree with each other (holds for every key, also the ones the statement does not define)
    if item[0] == "ok":
        if isin != ("ok", True):
            bad.append(("membership-disagrees-with-lookup:" + q.shape, "d[%r] succeeds but (%r in d) -> %r" % (p, p, isin[1:])))
        if got[0] != "ok" or got[1] is not item[1] and r_canon(got[1]) != r_canon(item[1]):
            bad.append(("get-disagrees-with-lookup:" + q.shape, "d[%r] succeeds but d.get -> %r" % (p, got[1:])))
        if attr[0] != "ok" or attr[1] is not item[1] and r_canon(attr[1]) != r_canon(item[1]):
            bad.append(("attribute-disagrees-with-lookup:" + q.shape, "d[%r] succeeds but getattr -> %r" % (p, attr[1:])))
    else:
        if isin[0] == "ok" and isin[1] is not False:
            bad.append(("membership-disagrees-with-lookup:" + q.shape, "d[%r] raises %s but (%r in d) -> %r" % (p, item[1], p, isin[1])))
        elif isin[0] == "exc":
            if isin[1] != item[1]:
                bad.append(("membership-disagrees-with-lookup:" + q.shape, "d[%r] raises %s but (%r in d) raises %s" % (p, item[1], p, isin[1])))
            else:
                out("in:raises-like-lookup:%s" % isin[1])
        if got[0] == "ok" and got[1] is not SENT:
            bad.append(("get-disagrees-with-lookup:" + q.shape, "d[%r] raises %s but d.get -> %r" % (p, item[1], got[1])))
        elif got[0] == "exc" and got[1] != item[1]:
            bad.append(("get-disagrees-with-lookup:" + q.shape, "d[%r] raises %s but d.get raises %s" % (p, item[1], got[1])))
        if attr[0] == "ok":
            bad.append(("attribute-disagrees-with-lookup:" + q.shape, "d[%r] raises %s but getattr -> %r" % (p, item[1], attr[1])))

    if q.cls != "ok":
        out("silent-key:%s:%s" % (q.cls, "found" if item[0] == "ok" else item[1]))
        if bad:
            return _reclass(bad, d, tree, p, q, item)
        return bad

    exp = m_lookup(tree, q.comps)
    if exp is UNSPECIFIED:
        out("silent-key:index-into-non-list:%s" % ("found" if item[0] == "ok" else item[1]))
        return bad
    if exp is MISSING:
        if item[0] == "ok":
            bad.append(("lookup-succeeds-for-absent-path:" + q.shape,
                        "tree %s has no %r (= %s) but d[%r] -> %s" % (show(m_canon(tree)), p, comps_str(q.comps), p, show(r_canon(item[1])))))
        else:
            out("lookup:absent:%s" % item[1])
        out("model:absent")
    else:
        if stats is not None:
            stats["found"] += 1
        out("model:found:%s:%s" % (q.shape, "level" if isinstance(exp[1], dict) else "list" if isinstance(exp[1], list) else "leaf"))
        if exp[1] is None:
            out("model:found:None-leaf:%s" % q.shape)
        if q.shape == "computed-index" and any(c[1] and c[1][0] == "path" and "[" in c[1][1].split(".", 1)[-1] and "." in c[1][1]
                                               for c in q.comps):
            out("model:found:computed-index:bracket-in-later-piece")
        if item[0] != "ok":
            bad.append(("lookup-fails-for-present-path:" + q.shape,
                        "tree %s holds %r (= %s) -> %s but d[%r] raises %s(%s)" % (
                            show(m_canon(tree)), p, comps_str(q.comps), show(m_canon(exp[1])), p, item[1], item[2])))
        elif r_canon(item[1]) != m_canon(exp[1]):
            bad.append(("lookup-wrong-value:" + q.shape,
                        "tree %s: %r (= %s) is %s but d[%r] -> %s" % (
                            show(m_canon(tree)), p, comps_str(q.comps), show(m_canon(exp[1])), p, show(r_canon(item[1])))))
        else:
            out("lookup:found:%s" % q.shape)
    if bad:
        return _reclass(bad, d, tree, p, q, item)
    return bad


def _reclass(bad, d, tree, p, q, item):
    """A computed dotted index as the final segment that dies in tuple unpacking keeps its own precise kind (fixed in ed02f6b)."""
    if k5_shape(p):
        return [(K5, m) for _, m in bad[:1]]
    if k2_shape(q) and item[0] == "exc" and item[1] == "ValueError" and "unpack" in item[2]:
        return [(K2, bad[0][1])]
    return bad


def comps_str(comps):
    return ".".join(n if i is None else "%s[%s]" % (n, i[1]) for n, i in comps) or "<root>"


def _listed_comps(k):
    """A key produced by iteration -> tuple of (name, int|None), or None if it is not a plain/literal-index path."""
    q = parse(k)
    if q.cls != "ok" or "." in k and (".." in k or k.startswith(".")):
        return None
    out = []
    for name, idx in q.comps:
        if idx is not None and idx[0] != "lit":
            return None
        out.append((name, None if idx is None else idx[1]))
    return tuple(out)


def _is_prefix(short, full):
    if len(short) > len(full):
        return False
    for i, (a, b) in enumerate(zip(short, full)):
        if a == b:
            continue
        if i == len(short) - 1 and a[0] == b[0] and a[1] is None:
            continue                                  # 'l' is a prefix of 'l[0].a'
        return False
    return True


def check_iteration(d, tree, outcomes=None, lenient_keys=False):
    bad = []

    def out(s):
        if outcomes is not None:
            outcomes(s)

    forms = {
        "items": _try(lambda: list(d.items())),
        "iteritems": _try(lambda: list(d.iteritems())),
        "listitems": _try(lambda: d.listitems()),
        "keys": _try(lambda: list(d.keys())),
        "iter": _try(lambda: list(iter(d))),
        "iterkeys": _try(lambda: list(d.iterkeys())),
        "listkeys": _try(lambda: d.listkeys()),
        "values": _try(lambda: list(d.values())),
        "listvalues": _try(lambda: d.listvalues()),
    }
    for name, r in forms.items():
        if r[0] != "ok":
            bad.append(("iteration-raises", "%s of %s raises %s(%s)" % (name, show(m_canon(tree)), r[1], r[2])))
    if bad:
        return bad
    items = forms["items"][1]
    keys = [k for k, _ in items]
    for name in ("iteritems", "listitems"):
        if [k for k, _ in forms[name][1]] != keys or any(a[1] is not b[1] for a, b in zip(forms[name][1], items)):
            bad.append(("iteration-forms-disagree", "%s != items(): %r vs %r" % (name, forms[name][1], items)))
    for name in ("keys", "iter", "iterkeys", "listkeys"):
        if forms[name][1] != keys:
            bad.append(("iteration-forms-disagree", "%s != keys of items(): %r vs %r" % (name, forms[name][1], keys)))
    for name in ("values", "listvalues"):
        if len(forms[name][1]) != len(items) or any(a is not b[1] for a, b in zip(forms[name][1], items)):
            bad.append(("iteration-forms-disagree", "%s != values of items()" % name))

    mand, opt = [], []
    m_leaves(tree, (), mand, opt)
    seen = {}
    for k, v in items:
        c = _listed_comps(k)
        if c is None:
            if not lenient_keys:
                bad.append(("keys-lists-unaddressable-key", "iteration of %s lists %r" % (show(m_canon(tree)), k)))
            c = ("?", k)
        seen[c] = seen.get(c, 0) + 1
        # every listed key looks up to the listed value
        r = _try(lambda: d[k])
        if r[0] != "ok":
            bad.append(("listed-key-lookup-fails", "iteration of %s lists %r but d[%r] raises %s(%s)" % (show(m_canon(tree)), k, k, r[1], r[2])))
        elif r[1] is not v and r_canon(r[1]) != r_canon(v):
            bad.append(("listed-key-wrong-value", "iteration lists (%r, %s) but d[%r] -> %s" % (k, show(r_canon(v)), k, show(r_canon(r[1])))))
        if c[0] != "?":
            exp = m_lookup(tree, tuple((n, None if i is None else ("lit", i)) for n, i in c))
            if exp is MISSING or exp is UNSPECIFIED or m_canon(exp[1]) != r_canon(v):
                bad.append(("listed-key-wrong-value", "iteration of %s lists (%r, %s); the tree has %s there" % (
                    show(m_canon(tree)), k, show(r_canon(v)), "nothing" if len(exp) == 1 else show(m_canon(exp[1])))))
    for c, n in seen.items():
        if n > 1:
            bad.append(("keys-duplicate", "iteration of %s lists %r %d times" % (show(m_canon(tree)), c, n)))
    mset, oset = set(mand), set(opt)
    for c in mand:
        if c not in seen:
            bad.append(("keys-omit-leaf", "iteration of %s -> %r omits leaf %s" % (show(m_canon(tree)), keys, _cstr(c))))
    for c in seen:
        if c[0] != "?" and c not in mset and c not in oset:
            bad.append(("keys-list-non-leaf", "iteration of %s -> %r lists %s, which is not a leaf" % (show(m_canon(tree)), keys, _cstr(c))))
    for c in opt:
        inlist = c[-1][1] is not None
        out("keys:empty-level-%s:%s" % ("in-list" if inlist else "plain", "listed" if c in seen else "omitted"))
    if any(len(str(i)) > 1 for c in mand for _, i in c if i is not None):
        out("keys:two-digit-index")
    if mand:
        out("keys:leaves=%d" % min(len(mand), 12))

    # depth-limited iteration: the statement does not define it; it must still be a cut through the tree whose
    # listed keys look up to the listed values
    full = [c for c in seen if c[0] != "?"]
    for dep in (0, 1, 2):
        r = _try(lambda: d.listitems(depth=dep))
        r2 = _try(lambda: list(d.keys(depth=dep)))
        if r[0] != "ok" or r2[0] != "ok":
            bad.append(("iteration-raises", "items/keys(depth=%d) of %s raises %r" % (dep, show(m_canon(tree)), (r[1:], r2[1:]))))
            continue
        if [k for k, _ in r[1]] != r2[1]:
            bad.append(("iteration-forms-disagree", "keys(depth=%d) != listitems(depth=%d)" % (dep, dep)))
        cs = []
        for k, v in r[1]:
            c = _listed_comps(k)
            g = _try(lambda: d[k])
            if g[0] != "ok" or (g[1] is not v and r_canon(g[1]) != r_canon(v)):
                bad.append(("listed-key-wrong-value", "items(depth=%d) lists (%r, %s) but d[%r] -> %r" % (dep, k, show(r_canon(v)), k, g[1:])))
            if c is not None:
                cs.append(c)
        for f in full:
            n = sum(1 for c in cs if _is_prefix(c, f))
            if n != 1:
                bad.append(("depth-keys-not-a-cut", "keys(depth=%d) of %s -> %r: %d listed keys lead to leaf %s" % (
                    dep, show(m_canon(tree)), r2[1], n, _cstr(f))))
                break
        if r2[1] != keys:
            out("keys:depth=%d:shorter-than-full" % dep)
    return bad


def _cstr(c):
    return ".".join(n if i is None else "%s[%s]" % (n, i) for n, i in c)


def _pairs(a, b, path, under_list):
    """Walk two equal structures in parallel; yield (path, level_or_list_a, level_or_list_b, under_list)."""
    base = dd().dotdict_base
    if isinstance(a, base) and isinstance(b, base):
        yield path, a, b, under_list
        for k, v in dict.items(a):
            if dict.__contains__(b, k):
                for x in _pairs(v, dict.__getitem__(b, k), (path + "." if path else "") + k, under_list):
                    yield x
    elif isinstance(a, list) and isinstance(b, list):
        if any(isinstance(e, base) for e in a):
            yield path, a, b, under_list
        for i, (x, y) in enumerate(zip(a, b)):
            for z in _pairs(x, y, "%s[%d]" % (path, i), True):
                yield z


def check_copies(history, state_c, tree, outcomes=None):
    bad = []
    base = dd().dotdict_base
    for how in ("copy", "deepcopy"):
        d = rebuild(history)
        r = _try(lambda: getattr(_copy, how)(d))
        if r[0] != "ok":
            bad.append(("%s-raises" % how, "copy.%s of %s raises %s(%s)" % (how, show(state_c), r[1], r[2])))
            continue
        c = r[1]
        if type(c) is not type(d):
            bad.append(("%s-wrong-type" % how, "copy.%s gives a %s" % (how, type(c).__name__)))
            continue
        if r_canon(c) != state_c:
            bad.append(("%s-not-equal" % how, "copy.%s of %s is %s" % (how, show(state_c), show(r_canon(c)))))
            continue
        shared = [(p, ul) for p, x, y, ul in _pairs(d, c, "", False) if x is y]
        kinds = set()
        for p, ul in shared:
            lvl = isinstance(_lookup_raw(d, p), base)
            if how == "copy" and ul and lvl:
                kind = K3
            else:
                kind = "copy.%s-shares-%s%s" % (how, "level" if lvl else "list-of-levels", "-inside-list" if ul else "")
            if kind in kinds:
                continue
            kinds.add(kind)
            bad.append((kind, "copy.%s of %s: the %s at %r is the same object in the original and the copy" % (
                how, show(state_c), "level" if lvl else "list", p or "<root>")))
        # ... and by mutation: add a key to every level of the copy through the API, the original must not move
        for lp in m_levels(tree):
            k = (lp + "." if lp else "") + "zz"
            s = _try(lambda: c.__setitem__(k, 1))
            if s[0] != "ok":
                bad.append(("set-refused-but-path-is-assignable:copy", "%s copy: d[%r] = 1 raises %s(%s)" % (how, k, s[1], s[2])))
        if r_canon(d) != state_c and not shared:
            bad.append(("copy.%s-not-independent" % how, "mutating every level of copy.%s(%s) changed the original to %s" % (
                how, show(state_c), show(r_canon(d)))))
        if outcomes is not None:
            outcomes("model:%s-checked:%s" % (how, "with-list-of-levels" if any("[" in lp for lp in m_levels(tree)) else "levels-only"))
        if r_canon(d) != state_c and outcomes is not None:
            outcomes("copy.%s:mutation-of-copy-reached-original" % how)
        elif outcomes is not None:
            outcomes("copy.%s:independent" % how)
    d = rebuild(history)
    r = _try(lambda: d.copy())
    if outcomes is not None:
        outcomes("d.copy():%s" % (type(r[1]).__name__ if r[0] == "ok" else r[1]))
    return bad


def _lookup_raw(d, p):
    cur = d
    if not p:
        return cur
    for name, idx in parse(p).comps:
        cur = dict.__getitem__(cur, name)
        if idx is not None:
            cur = cur[idx[1]]
    return cur


def check_state(d, state_c, tier, outcomes=None, stats=None, history=None, lenient_keys=False):
    """Every invariant of DESIGN section 3 C16 in one state.  -> [(kind, msg)]"""
    tree = m_uncanon(state_c)
    bad = []
    for p in look_paths(tier):
        bad += check_lookup(d, tree, p, outcomes, stats)
        if stats is not None:
            stats["lookups"] += 1
    # python-level chains for plain paths:  d.a.b.c  and  d['a']['b']['c']
    for p in ("a", "a.b", "a.b.c", "a.c", "b.a", "l", "c"):
        q = parse(p)
        exp = m_lookup(tree, q.comps)
        for form in ("attr", "item"):
            def walk():
                cur = d
                for name, _ in q.comps:
                    cur = getattr(cur, name) if form == "attr" else cur[name]
                return cur
            r = _try(walk)
            if (exp is MISSING) != (r[0] != "ok") or (r[0] == "ok" and r_canon(r[1]) != m_canon(exp[1])):
                bad.append(("chained-%s-lookup-disagrees" % form, "tree %s: chained %s access %r -> %r, model %s" % (
                    show(state_c), form, p, r[1:] if r[0] != "ok" else show(r_canon(r[1])),
                    "absent" if exp is MISSING else show(m_canon(exp[1])))))
    bad += check_iteration(d, tree, outcomes, lenient_keys)
    names = sorted(n for n in dir(d) if not n.startswith("__"))
    if outcomes is not None:
        outcomes("dir:%s" % ("top-level-names" if names == sorted(tree) else "OTHER"))
    if history is not None:
        bad += check_copies(history, state_c, tree, outcomes)
    return bad


# ------------------------------------------------------------------------------------------------------------------
# search

def key_of(c):
    return repr(c)


def canon_of(key):
    return ast.literal_eval(key)


def shard(acc, item, tier, seed):
    what, depth, alpha, expand, states, outpath = item
    ops = ops_for(alpha) if expand else []
    if expand and depth == 0:
        ops = ops + ctor_ops()
    if seed:
        random.Random(seed * 7919 + depth).shuffle(ops)
    succ = {}
    _silent_seen.clear()          # per shard, so that counts do not depend on which worker ran which shard
    stats = {"found": 0, "lookups": 0}
    for key, hist in states:
        state_c = canon_of(key)
        hist = [tuple(o) for o in hist]
        d = rebuild(hist)
        if r_canon(d) != state_c:
            raise core.HarnessError("replaying %r gives %s, not the recorded state %s" % (hist, show(r_canon(d)), show(state_c)))
        acc.count("states_rebuilt_and_validated")
        acc.state(key)
        if what == "check":
            before = dict(stats)
            for kind, msg in check_state(d, state_c, tier, acc.outcome, stats, history=hist):
                acc.violation(kind, {"check": "state", "history": [list(o) for o in hist], "tier": tier}, msg)
            acc.ev(stats["lookups"] - before["lookups"] + 14)
            acc.ntc(stats["found"] - before["found"])
            acc.cmax("max_leaves", _nleaves(state_c))
            if len(hist) == 3 and "l" in key[:40]:
                acc.sample({"history": [list(o) for o in hist], "state": show(state_c)})
        for op in ops:
            acc.ev()
            acc.count("transitions")
            bad, after_c, changed, nontrivial = check_transition(state_c, hist, op, acc.outcome)
            if nontrivial:
                acc.ntc()
            if changed:
                acc.count("transitions_changing_the_tree")
            for kind, msg in bad:
                acc.violation(kind, {"check": "transition", "history": [list(o) for o in hist], "op": list(op), "tier": tier}, msg)
            if after_c is not None and changed:
                k2 = key_of(after_c)
                h2 = hist + [op]
                if k2 not in succ or _hkey(h2) < _hkey(succ[k2]):
                    succ[k2] = h2
    if outpath:
        with open(outpath, "wb") as f:
            pickle.dump(succ, f, pickle.HIGHEST_PROTOCOL)


def _hkey(h):
    return (len(h), json.dumps([list(o) for o in h]))


def _nleaves(c):
    if c[0] == "D":
        return sum(_nleaves(v) for _, v in c[1]) if c[1] else 1
    if c[0] == "L":
        return sum(_nleaves(v) for v in c[1]) if c[1] else 1
    return 1


def _bfs(ctx, total, tmp, alpha, maxdepth, seen, tag):
    """Level-synchronous BFS: level k = states first reached by k operations.  `seen`: keys already fully checked."""
    root = key_of(("D", ()))
    frontier = {root: []}
    allkeys = {root}
    for depth in range(maxdepth + 1):
        expand = depth < maxdepth
        todo = sorted(frontier.items())
        fresh = [(k, h) for k, h in todo if k not in seen]
        # states already checked by an earlier search are expanded again (different alphabet) but not re-checked
        old = [(k, h) for k, h in todo if k in seen]
        seen.update(k for k, _ in fresh)
        items = []
        n = 0
        for what, group in (("check", fresh), ("expand-only", old)):
            if what == "expand-only" and not expand:
                continue
            per = max(1, min(200 if not expand else 40, -(-len(group) // 240)))
            for i in range(0, len(group), per):
                out = os.path.join(tmp, "%s-%d-%d.pkl" % (tag, depth, n)) if expand else None
                n += 1
                items.append((what, depth, alpha, expand, group[i:i + per], out))
        acc = ctx.pmap(__name__, "shard", items)
        total.merge(acc)
        total.count("shards", len(items))
        total.cmax("max_depth_" + tag, depth)
        if not expand:
            break
        nxt = {}
        for it in items:
            with open(it[5], "rb") as f:
                part = pickle.load(f)
            os.unlink(it[5])
            for k, h in part.items():
                if k in allkeys:
                    continue
                if k not in nxt or _hkey(h) < _hkey(nxt[k]):
                    nxt[k] = h
        allkeys.update(nxt)
        frontier = nxt
        total.count("frontier_%s_depth%d" % (tag, depth + 1), len(nxt))
        if not nxt:
            total.note("%s search closed at depth %d" % (tag, depth))
            break


def run(ctx):
    tmp = tempfile.mkdtemp(prefix="c16-bfs.")
    total = core.Acc()
    seen = set()
    try:
        if ctx.quick:
            _bfs(ctx, total, tmp, "quick", 3, seen, "quick")
        else:
            _bfs(ctx, total, tmp, "wide", 3, seen, "wide")
            _bfs(ctx, total, tmp, "quick", 4, seen, "quick")
    finally:
        shutil.rmtree(tmp, True)
    # report the shallowest counterexample of every kind first
    vs = sorted(total.violations, key=lambda v: (v["msg"].startswith("after "), len(v["case"]["history"]),
                                                 json.dumps(v["case"], sort_keys=True)))
    first, rest, kinds = [], [], set()
    for v in vs:
        (rest if v["kind"] in kinds else first).append(v)
        kinds.add(v["kind"])
    total.violations = first + rest
    _notes(total)
    total.note("accepted where the statement is silent: see outcomes 'silent:*', 'silent-key:*', 'keys:empty-level-*', "
               "'*-path-not-supported(accepted)', '*:left-empty-levels', 'in:raises-like-lookup:*', 'd.copy():*'")
    return total


def _notes(total):
    """What the code was seen to do where the statement is silent (accepted, never a violation)."""
    o = total.outcomes
    agg = {}
    for k, n in o.items():
        if k.startswith("silent:") or "(accepted)" in k or k.endswith(":left-empty-levels") or k.startswith("keys:empty-level") \
                or k.startswith("in:raises-like-lookup") or k.startswith("silent-key:") or k.startswith("d.copy()") \
                or k.startswith("keys:depth=") or k.startswith("dir:"):
            agg[k] = n
    for k in sorted(agg):
        total.note("observed and accepted (statement silent): %s x%d" % (k, agg[k]))
    d = dd().dotdict()
    try:
        d["fromkeys"] = 1
        total.note("probe: a dict method name outside the documented reserved list is accepted as a key: d['fromkeys'] = 1 "
                   "-> d['fromkeys'] == %r, d.fromkeys is %s" % (d["fromkeys"], type(d.fromkeys).__name__))
    except Exception as exc:
        total.note("probe: d['fromkeys'] = 1 raises %r" % (exc,))
    total.note("oracle correction: a single left-over dot before exactly one name N is modelled as N.N ('.a' == 'a.a', "
               "'a...b' == 'b.b'), the behaviour cpppo's own machines rely on (data[path+'.input'] with path == '', pinned "
               "by automata_test::test_regex); the statement does not define that shape, so demanding 'a' was a false alarm")


def guards(acc, ctx):
    """Vacuity guards are phrased on what the MODEL said was exercised, never on the subject behaving well."""
    g = []
    o = acc.outcomes
    need = ["model:set:apply", "model:setattr:apply", "model:setdefault:apply", "model:setdefault:no-change", "model:del:apply",
            "model:pop:apply", "model:popd:apply", "model:update:apply", "model:chainattr:apply",
            "model:chainitem:apply", "model:set:silent",
            "model:del:refuse:nonempty-level", "model:delattr:refuse:nonempty-level", "model:set:refuse:reserved",
            "model:setattr:refuse:reserved", "model:set:refuse:reserved-intermediate", "model:set:refuse:through-leaf",
            "model:set:refuse:index", "model:pop:refuse:missing",
            "model:found:plain:level", "model:found:plain:leaf", "model:found:plain:list", "model:found:dotdot:leaf",
            "model:found:dotdot:level", "model:found:leading-dot:leaf", "model:found:leading-dot:level",
            "model:found:indexed:leaf", "model:found:indexed:level", "model:found:computed-index:leaf",
            "model:found:computed-index:level", "model:absent", "keys:two-digit-index",
            "model:found:computed-index:bracket-in-later-piece", "model:found:None-leaf:plain", "model:found:None-leaf:dotdot",
            "model:found:None-leaf:indexed",
            "model:copy-checked:with-list-of-levels", "model:deepcopy-checked:with-list-of-levels",
            "model:copy-checked:levels-only"]
    for n in need:
        if o.get(n, 0) < 10:
            g.append("fewer than 10 cases of %r" % n)
    if not o.get("model:ctor:apply"):
        g.append("constructor forms never exercised")
    if len(acc.states) < (3000 if ctx.quick else 30000):
        g.append("only %d states" % len(acc.states))
    if acc.counters.get("transitions", 0) < 100000:
        g.append("fewer than 100000 transitions")
    if acc.counters.get("max_leaves", 0) < 12:
        g.append("no state with >= 12 leaves (the 11-element list)")
    return g


def replay(case):
    hist = [tuple(o) for o in case["history"]]
    d = rebuild(hist)
    state_c = r_canon(d)
    if case["check"] == "transition":
        bad, _, _, _ = check_transition(state_c, hist, tuple(case["op"]))
    else:
        bad = check_state(d, state_c, case.get("tier", "quick"), history=hist)
    return ["%s: %s" % (k, m) for k, m in bad]
