"""C12 -- client results do not depend on pipelining depth or request bundling; operation strings mean what they spell.

Part A (equivalence).  The real client.connector runs over mc.clientenv (no sockets, no clocks) against the real
enip_srv_tcp.  For EVERY list of operations over an 11-operation alphabet, for every setting (synchronous / pipeline
depth, Multiple Service Packet size limit, fragment on/off) the yielded results are compared with an array model
written here from the statement, and the recorded request frames are decoded with mc.refcip.

Part B (operation strings).  Every string of a small grammar is parsed by client.parse_operations and by the
independent reference parser `ref_parse` below (written from the parse_operations docstring and the README);
format_path / parse_path round trips over a segment alphabet.

Nothing here imports cpppo at module level; the oracle never looks at cpppo's request/reply dictionaries except for
the (status, value) pairs the client *yields* (they are the subject) and the request path it reports for a result.
"""
import csv
import gc
import itertools
import json
import struct

from mc import clientenv as CE, refcip as R, sim

ID = "C12"
LEVEL = "exploration"
ISOLATE_SHARDS = True        # every shard runs in a forked child of a pristine worker (mc/core.py)
RULE = ("A: every list of <= N operations over an 11-operation alphabet (tag / @class/inst/attr reads, element ranges, byte "
        "offset, casted writes, a refused write, a refused read, Get/Set Attribute Single, a generic service-code operation with a payload, two operations with their own "
        "route_path / send_path) x every setting (synchronous | depth) x multiple x fragment, one real client run each; "
        "non-trivial = (list, setting) with >= 2 operations.  B: every string of the operation grammar x fragment x "
        "int_type against the reference parser; every segment list x count through format_path/parse_path; "
        "non-trivial = string with an index, count, offset or value part / path with >= 2 segments")
BOUNDS = {
    "quick": "A: all 1463 lists of <=3 ops x 10 settings (sync,1,2,3,5 x multiple 0/80/150/500 x fragment, a covering subset), "
             "whole-chunk eager delivery; all 132 lists of <=2 ops additionally byte-at-a-time, lazy-server and validating "
             "runs.  B: full grammar (10 paths x 7 indices x 4 counts x 5 offsets x 20 value parts x fragment x 3 int_types) "
             "and 2940 segment lists",
    "thorough": "A: all lists of <=3 ops x all 40 settings (sync,1,2,3,5 x 0/80/150/500 x fragment on/off) + byte-at-a-time, "
                "lazy-server and validating runs on the 10 quick settings; all 11^4 lists of 4 ops x 16 settings (sync,1,2,3 x "
                "4 multiples, fragment alternating; depth 5 omitted there: with <= 4 request frames every depth >= 3 issues "
                "everything before the first harvest).  B: as quick",
}
ASSUMPTIONS = [
    "server = the real in-process Logix simulator (enip_srv_tcp) with tags a=INT[4], b=DINT[3]@0x401/1/1, r=REAL[2], "
    "s=INT[2]@0x401/1/2; every operation of the alphabet is answered with a CIP status (no unroutable requests: those end "
    "the session when sent alone but not inside a bundle, which the statement does not require to be equal)",
    "operate(validating=True): only the statuses and the values of successful operations are compared (the statement "
    "does not say what validate() reports as the value of a refused write)",
    "operation grammar: element indices, offsets and data values are decimal; class/instance/attribute numbers and *count "
    "may carry 0x/0o/0b prefixes; a fragmented write without an explicit element count is outside the documented syntax",
]

TIMEOUT = 1.0

# ==================================================================================================
# Part A: alphabet, array model, expected wire form
# ==================================================================================================
CFG = (("a", "INT", 4, None), ("b", "DINT", 3, "0x401/1/1"), ("r", "REAL", 2, None), ("s", "INT", 2, "0x401/1/2"))
INIT = (("a", (11, 12, 13, 14)), ("b", (100001, 100002, 100003)), ("r", (1.5, -2.25)), ("s", (258, 772)))
TYPE_OF = {"a": ("INT", 0xC3, "<h"), "b": ("DINT", 0xC4, "<i"), "r": ("REAL", 0xCA, "<f"), "s": ("INT", 0xC3, "<h")}

SYM = lambda name, e=None: [{"symbolic": name}] + ([{"element": e}] if e is not None else [])
CIA = lambda c, i, a, e=None: [{"class": c}, {"instance": i}, {"attribute": a}] + ([{"element": e}] if e is not None else [])
DEFAULT_ROUTE = [{"port": 1, "link": 0}]
DEFAULT_SEND = [{"class": 6}, {"instance": 1}]

# text: what the user writes; via: which cpppo parser turns it into an operation; kw: extra keywords (paths);
# model: what it means (array model); wire: what must be on the wire; route/send: the wrapper its frame must carry
OPS = [
    dict(text="a[1-2]", via="tag", kw={}, model=("read", "a", 1, 2, 0), path=SYM("a", 1)),
    dict(text="@0x401/1/1[1-2]", via="tag", kw={}, model=("read", "b", 1, 2, 0), path=CIA(0x401, 1, 1, 1)),
    dict(text="a[2-3]=(INT)-7,9", via="tag", kw={}, model=("write", "a", 2, [-7, 9], 0xC3), path=SYM("a", 2)),
    dict(text="r[1]=3.25", via="tag", kw={}, model=("write", "r", 1, [3.25], 0xCA), path=SYM("r", 1)),
    dict(text="a[3-4]=(INT)1,2", via="tag", kw={}, model=("write", "a", 3, [1, 2], 0xC3), path=SYM("a", 3)),       # refused: range
    dict(text="@0x401/1/9", via="tag", kw={}, model=("noattr",), path=CIA(0x401, 1, 9), elements=1),                # refused: 0x05
    dict(text="@0x401/1/2", via="attr", kw={}, model=("gas", "s"), path=CIA(0x401, 1, 2)),
    dict(text="@0x401/1/2=(INT)5,6", via="attr", kw={}, model=("sas", "s", [5, 6]), path=CIA(0x401, 1, 2)),
    dict(text="a[0-3]+4", via="tag", kw={"route_path": [{"port": 1, "link": 1}]}, model=("read", "a", 0, 4, 4), path=SYM("a", 0),
         route=[{"port": 1, "link": 1}]),
    dict(text="b[1]=(DINT)70000", via="tag", kw={"send_path": "@6/1"}, model=("write", "b", 1, [70000], 0xC4), path=SYM("b", 1)),
    # an operation given as a dict (the documented form for a generic CIP service): service 0x10 with a 4-byte payload
    dict(text="service_code 0x10 @0x401/1/2 data 7,0,8,0", via="dict", kw={}, model=("sas", "s", [7, 8]), path=CIA(0x401, 1, 2),
         op=dict(method="service_code", code=0x10, path="@0x401/1/2", data=[7, 0, 8, 0])),
]
NOPS = len(OPS)

DEPTHS = [0, 1, 2, 3, 5]            # 0 = synchronous
MULTIPLES = [0, 80, 150, 500]
ALL_SETTINGS = [(d, m, f) for d in DEPTHS for m in MULTIPLES for f in (False, True)]
QUICK_SETTINGS = [(0, 0, False), (1, 0, True), (2, 0, False), (5, 0, True), (0, 500, False), (1, 150, True), (2, 80, False),
                  (3, 500, True), (3, 150, False), (5, 80, True)]
LEN4_SETTINGS = [(d, m, bool((i + j) % 2)) for i, d in enumerate([0, 1, 2, 3]) for j, m in enumerate(MULTIPLES)]


def model_run(ops, validating=False):
    """Array model: -> ([(primary status, value)], final store).  value: list for reads, True for acknowledged writes
    (the written data when validating), None when refused."""
    store = {n: list(v) for n, v in INIT}
    out = []
    for o in ops:
        m = o["model"]
        if m[0] == "read":
            _, tag, first, count, off = m
            size = struct.calcsize(TYPE_OF[tag][2])
            assert off % size == 0
            lo, hi = first + off // size, first + count
            if hi > len(store[tag]) or lo >= hi:
                out.append((0xFF, None))
            else:
                out.append((0, list(store[tag][lo:hi])))
        elif m[0] == "write":
            _, tag, first, vals, typ = m
            if first + len(vals) > len(store[tag]):
                out.append((0xFF, None))
            else:
                store[tag][first:first + len(vals)] = vals
                out.append((0, list(vals) if validating else True))
        elif m[0] == "noattr":
            out.append((0x05, None))
        elif m[0] == "gas":
            raw = b"".join(struct.pack(TYPE_OF[m[1]][2], v) for v in store[m[1]])
            out.append((0, list(raw)))
        elif m[0] == "sas":
            store[m[1]][:] = m[2]
            out.append((0, True))
        else:
            raise ValueError(m)
    return out, tuple((n, tuple(store[n])) for n, _ in INIT)


def wire_expect(o, fragment):
    """The CIP request this operation must put on the wire (keys compared with refcip's decoding)."""
    m = o["model"]
    w = {"path": o["path"]}
    if m[0] == "read":
        if fragment or m[4]:
            w.update(service=0x52, elements=m[3], offset=m[4])
        else:
            w.update(service=0x4C, elements=m[3])
    elif m[0] == "noattr":
        w.update(service=0x52, elements=1, offset=0) if fragment else w.update(service=0x4C, elements=1)
    elif m[0] == "write":
        if fragment:
            w.update(service=0x53, type=m[4], elements=len(m[3]), offset=0, data=list(m[3]))
        else:
            w.update(service=0x4D, type=m[4], elements=len(m[3]), data=list(m[3]))
    elif m[0] == "gas":
        w.update(service=0x0E)
    elif m[0] == "sas":
        w.update(service=0x10, data=b"".join(struct.pack("<h", v) for v in m[2]))
    return w


def primary(sts):
    return sts[0] if isinstance(sts, (tuple, list)) else sts


def same_value(want, got):
    if want is None or want is True:
        return got is want
    if got is None or got is True or not isinstance(got, (list, tuple)):
        return False
    return len(want) == len(got) and all(type(a) is not bool and type(b) is not bool and float(a) == float(b)
                                         and isinstance(a, float) == isinstance(b, float) for a, b in zip(want, got))


def build_ops(M, GA, idxs):
    ops = []
    for i in idxs:
        o = OPS[i]
        if o["via"] == "dict":
            ops.append(dict(o["op"], data=list(o["op"]["data"])))
            continue
        parse = M.client.parse_operations if o["via"] == "tag" else GA.attribute_operations
        op, = parse([o["text"]], **o["kw"])
        ops.append(op)
    return ops


_rig = {}


def get_rig():
    if not _rig:
        M = sim.mods()
        CE.install()
        from cpppo.server.enip import get_attribute as GA
        _rig.update(M=M, GA=GA, sim=sim.Sim(CFG))
    return _rig["M"], _rig["GA"], _rig["sim"]


def norm_store(S):
    return tuple((n, tuple(float(x) if isinstance(x, float) else int(x) for x in v)) for n, v in S.store())


def check_traffic(bad, where, idxs, setting, chunks, results):
    """Recorded request frames: one member per operation in order, each spelling its operation; no bundle mixes route /
    send paths; every frame carries the paths of its operations; sender context and index accounting agree."""
    depth, mult, frag = setting
    members = []         # (frame number, decoded member request, wrapper, context)
    for fno, ch in enumerate(chunks):
        try:
            d = R.decode_request_frame(ch)
        except Exception as exc:
            bad.append(("request-frame-undecodable", "%s: request frame %s does not decode: %s" % (where, bytes(ch).hex(), exc)))
            return
        cip = d.get("cip") or {}
        wrap = d.get("unconnected_send") or {}
        reqs = cip.get("requests") if cip.get("service") == 0x0A else [cip]
        if mult == 0 and cip.get("service") == 0x0A:
            bad.append(("bundle-without-multiple", "%s: a Multiple Service Packet was sent although multiple=0" % where))
        for q in reqs or []:
            members.append((fno, q, wrap, d.get("context")))
    if len(members) != len(idxs):
        bad.append(("request-count", "%s: %d requests on the wire for %d operations" % (where, len(members), len(idxs))))
        return
    by_frame = {}
    for k, (i, (fno, q, wrap, ctx)) in enumerate(zip(idxs, members)):
        o = OPS[i]
        want = wire_expect(o, frag)
        got = {key: q.get(key) for key in want}
        if got != want:
            bad.append(("wire-request-differs:" + o["text"], "%s: operation %d %r is on the wire as %r, it spells %r"
                        % (where, k, o["text"], q, want)))
        route, send = o.get("route", DEFAULT_ROUTE), o.get("send", DEFAULT_SEND)
        if wrap.get("route_path") != route or wrap.get("path") != send:
            bad.append(("frame-carries-wrong-path", "%s: operation %d %r (route %r send %r) travels in a frame with route_path %r "
                        "send_path %r" % (where, k, o["text"], route, send, wrap.get("route_path"), wrap.get("path"))))
        by_frame.setdefault(fno, []).append((k, i, ctx))
    for fno, mem in by_frame.items():
        specs = {json.dumps([OPS[i]["kw"].get("route_path"), OPS[i]["kw"].get("send_path")]) for _, i, _ in mem}
        if len(specs) > 1:
            bad.append(("bundle-mixes-paths", "%s: request frame %d bundles operations %r with different route/send paths %s"
                        % (where, fno, [OPS[i]["text"] for _, i, _ in mem], sorted(specs))))
    if results is not None and len(results) == len(idxs):
        for k, (fno, q, wrap, ctx) in enumerate(members):
            idx = results[k][0]
            if idx != fno:
                bad.append(("index-accounting", "%s: result %d reports request index %r but travelled in request frame %d"
                            % (where, k, idx, fno)))
            if bytes(ctx or b"").rstrip(b"\0") != str(idx).encode():
                bad.append(("sender-context", "%s: result %d has index %r but its frame carried sender context %r"
                            % (where, k, idx, ctx)))


def run_list(idxs, settings, variant="plain"):
    """One operation list under every setting (one connection, re-used).  -> (violations, outcomes dict, evaluations)"""
    M, GA, S = get_rig()
    bad, outcomes, evals = [], {}, 0
    validating = variant == "validating"
    plan = {"mode": "byte"} if variant == "byte" else {}
    sched = "lazy" if variant == "lazy" else "eager"
    want, want_store = model_run([OPS[i] for i in idxs], validating)
    first = None
    try:
        ops = build_ops(M, GA, idxs)      # built once: the same operation dicts are issued under every setting
    except Exception as e:
        return [("alphabet-operation-rejected", "operations %r: parse_operations / attribute_operations raised %s: %s"
                 % ([OPS[i]["text"] for i in idxs], type(e).__name__, str(e)[:300]))], {"exception": 1}, 1
    gc.disable()
    try:
        with CE.Env(S, plans=[plan] * 64, sched=sched) as env:
            conn = None
            for setting in settings:
                depth, mult, frag = setting
                where = "ops %r %s depth=%d multiple=%d fragment=%s" % ([OPS[i]["text"] for i in idxs], variant, depth, mult, frag)
                S.set_store(INIT)
                evals += 1
                res, exc = [], None
                try:
                    if conn is None:
                        conn = M.client.connector(host="sim", port=44818, timeout=TIMEOUT)
                    n0 = len(conn.conn.tx)
                    sock = conn.conn
                    with conn:
                        for r in conn.operate(ops, depth=depth, multiple=mult, fragment=frag, timeout=TIMEOUT,
                                              validating=validating):
                            res.append(r)
                except CE.Hang as e:
                    exc = e
                except Exception as e:
                    exc = e
                if exc is not None:
                    bad.append(("client-exception:" + type(exc).__name__, "%s: raised %s: %s after %d results"
                                % (where, type(exc).__name__, str(exc)[:300], len(res))))
                    outcomes["exception"] = outcomes.get("exception", 0) + 1
                    try:
                        conn.close()
                    except Exception:
                        pass
                    conn = None
                    continue
                chunks = sock.tx[n0:]
                outcomes["frames=%d" % len(chunks)] = outcomes.get("frames=%d" % len(chunks), 0) + 1
                if mult and len(chunks) < len(idxs):
                    outcomes["bundled"] = outcomes.get("bundled", 0) + 1
                # ---- exactly one result per operation, in order
                if len(res) != len(idxs):
                    bad.append(("result-count", "%s: %d results for %d operations" % (where, len(res), len(idxs))))
                else:
                    for k, (i, r) in enumerate(zip(idxs, res)):
                        segs = None
                        try:
                            segs = [dict(s) for s in r[2]["path"]["segment"]]
                        except Exception:
                            pass
                        if segs != OPS[i]["path"]:
                            bad.append(("result-order", "%s: result %d is for path %r, operation %d is %r"
                                        % (where, k, segs, k, OPS[i]["text"])))
                    got = [(r[4], r[5]) for r in res]
                    for k, ((ws, wv), (gs, gv)) in enumerate(zip(want, got)):
                        ok_status = primary(gs) == ws
                        if validating and ws != 0:
                            ok_value = True
                        else:
                            ok_value = same_value(wv, gv)
                        if not (ok_status and ok_value):
                            bad.append(("result-differs-from-model", "%s: operation %d %r yielded (status %r, value %r), the array "
                                        "model says (0x%02x, %r)" % (where, k, OPS[idxs[k]]["text"], gs, gv, ws, wv)))
                        outcomes["status=0x%02x" % primary(gs)] = outcomes.get("status=0x%02x" % primary(gs), 0) + 1
                    canon = repr(got)
                    if first is None:
                        first = (setting, canon)
                    elif canon != first[1]:
                        bad.append(("results-differ-across-settings", "%s: results %s differ from those under %r: %s"
                                    % (where, canon, first[0], first[1])))
                    store = norm_store(S)
                    if store != tuple((n, tuple(float(x) if isinstance(x, float) else x for x in v)) for n, v in want_store):
                        bad.append(("final-store-differs", "%s: tag store afterwards %r, array model %r" % (where, store, want_store)))
                check_traffic(bad, where, idxs, setting, chunks, res)
            if conn is not None:
                conn.close()
    finally:
        gc.enable()
    return bad, outcomes, evals


def settings_for(tier, n, variant):
    if variant != "plain":
        return QUICK_SETTINGS
    if tier == "quick":
        return QUICK_SETTINGS
    return LEN4_SETTINGS if n >= 4 else ALL_SETTINGS


def shard_a(acc, prefix, tier):
    """prefix (i, j): lists [i] (when j == 0), [i, j], [i, j, *];  prefix (i, j, k): lists [i, j, k, *]"""
    lists = []
    if len(prefix) == 2:
        i, j = prefix
        if j == 0:
            lists.append((i,))
        lists.append((i, j))
        lists += [(i, j, k) for k in range(NOPS)]
    else:
        lists += [tuple(prefix) + (k,) for k in range(NOPS)]
    for idxs in lists:
        variants = ["plain"]
        if len(idxs) <= (2 if tier == "quick" else 3):
            variants += ["byte", "lazy", "validating"]
        for variant in variants:
            settings = settings_for(tier, len(idxs), variant)
            bad, outcomes, evals = run_list(idxs, settings, variant)
            acc.ev(evals)
            if len(idxs) >= 2:
                acc.ntc(evals)
            acc.count("client_operations", evals * len(idxs))
            for k, v in outcomes.items():
                acc.outcome("A:" + k, v)
            acc.outcome("A:variant=" + variant, evals)
            for kind, msg in bad:
                acc.violation(kind, {"part": "A", "ops": list(idxs), "variant": variant, "tier": tier}, msg)
    if lists:
        acc.sample({"part": "A", "ops": [OPS[i]["text"] for i in lists[-1]], "settings": len(settings_for(tier, len(lists[-1]), "plain"))})


# ==================================================================================================
# Part B: reference parser for operation strings (from the parse_operations docstring and the README)
# ==================================================================================================
class Reject(Exception):
    pass


REF_TYPES = {  # name: (CIP type code, element size (0 = variable), lowest, highest accepted integer or None)
    "BOOL": (0xC1, 1, None, None), "SINT": (0xC2, 1, -2**7, 2**8 - 1), "INT": (0xC3, 2, -2**15, 2**16 - 1),
    "DINT": (0xC4, 4, -2**31, 2**32 - 1), "LINT": (0xC5, 8, -2**63, 2**64 - 1), "USINT": (0xC6, 1, 0, 2**8 - 1),
    "UINT": (0xC7, 2, 0, 2**16 - 1), "UDINT": (0xC8, 4, 0, 2**32 - 1), "ULINT": (0xC9, 8, 0, 2**64 - 1),
    "REAL": (0xCA, 4, None, None), "LREAL": (0xCB, 8, None, None), "SSTRING": (0xDA, 0, None, None), "STRING": (0xD0, 0, None, None),
}


def ref_number(txt, prefixes=True):
    """decimal (leading zeros are NOT octal); optionally 0x.. 0o.. 0b.."""
    t = txt.strip()
    if t.isdigit():
        return int(t, 10)
    low = t.lower()
    if prefixes and len(low) > 2 and low[:2] in ("0x", "0o", "0b"):
        try:
            return int(low[2:], {"0x": 16, "0o": 8, "0b": 2}[low[:2]])
        except ValueError:
            pass
    raise Reject("not a number: %r" % txt)


def ref_parse(text, fragment=False, int_type=None):
    """-> the operation dict the string denotes; raises Reject for a malformed / inconsistent string; returns None where the
    documented syntax does not say (fragmented write without an element count)."""
    op = {}
    tag, eq, val = text.partition("=")
    tag, plus, off = tag.partition("+")
    if plus and off.strip():
        op["offset"] = ref_number(off, prefixes=False)
    path, star, n = tag.strip().partition("*")
    count = ref_number(n) if star else None
    segs = []
    comps = path.split(".")
    for ci, comp in enumerate(comps):
        name, br, idx = comp.partition("[")
        first = last = None
        if br:
            if not idx.endswith("]"):
                raise Reject("garbage after ]")
            lo, dash, hi = idx[:-1].partition("-")
            first = ref_number(lo, prefixes=False)
            if dash:
                last = ref_number(hi, prefixes=False)
                if last < first or (ci < len(comps) - 1 and last != first):
                    raise Reject("bad range")
        if name.startswith("@"):
            kinds = ("class", "instance", "attribute", "element")
            terms = name[1:].split("/")
            for ti, term in enumerate(terms):
                if term.startswith("{"):
                    segs.append(json.loads(term))
                elif ti < len(kinds):
                    segs.append({kinds[ti]: ref_number(term)})
                else:
                    raise Reject("too many terms")
        else:
            segs.append({"symbolic": name})
        if first is not None:
            if "element" in segs[-1]:
                segs[-1]["element"] = first
            else:
                segs.append({"element": first})
        if ci == len(comps) - 1 and last is not None:
            count = last - first + 1                       # an index range takes priority over *count
    op["path"] = segs
    if count is not None:
        op["elements"] = count
    if eq:
        op["method"] = "write"
        v = val.strip()
        tname = "REAL" if "." in v else (int_type or "INT")
        if v.startswith("(") and ")" in v:
            tname, _, v = v[1:].partition(")")
        tname = tname.strip().upper()
        if tname not in REF_TYPES:
            raise Reject("unknown type")
        code, size, lo, hi = REF_TYPES[tname]
        items, = csv.reader([v], skipinitialspace=True)
        data = []
        for it in items:
            try:
                if tname in ("SSTRING", "STRING"):
                    data.append(str(it))
                elif tname in ("REAL", "LREAL"):
                    data.append(float(it))
                elif tname == "BOOL":
                    data.append(int(it) != 0)
                else:
                    x = int(it)
                    if not lo <= x <= hi:
                        raise Reject("out of range")
                    data.append(x)
            except ValueError:
                raise Reject("bad value %r" % it)
        op["tag_type"], op["data"] = code, data
        if "offset" not in op and not fragment:
            op.setdefault("elements", len(data))
            if op["elements"] != len(data):
                raise Reject("count != values")
        else:
            if "elements" not in op or not size:
                return None                                 # not covered by the documented syntax
            o = op.get("offset") or 0
            if o % size or o // size + len(data) > op["elements"]:
                raise Reject("offset/data inconsistent with the element count")
    return op


B_PATHS = ["T", "Tag_1.Sub", "T[1].S", "@1/2/3", "@0x1FF/01/0x1A", "@0o17/0b11/007", "@4/5/6/7", '@4/5/{"connection":100}',
           '@{"class":4}/5', "@0x93/3"]
B_INDEX = ["", "[0]", "[3]", "[007]", "[1-5]", "[2-2]", "[5-1]"]
B_COUNT = ["", "*1", "*3", "*0x10"]
B_OFFSET = ["", "+0", "+4", "+3", " + 8 "]
B_VALUES = ["", "=1", "=1,2,3", "=(DINT)1,2", " = (REAL) 1.5, 2", "=1.5", "=1.5,2", "=(SINT)-128", "=(SINT)300", "=(USINT)-1",
            '=(SSTRING)"a,b","c"', "=(STRING)xyz", "=(BOOL)1,0", "=(INT) 007", "=(UINT)65535,0", "=(LINT)-9",
            "=(dint)4,5,6,7,8", "=(LREAL)2.5", "=(INT)1.5", "=(INT)70000"]
B_INT_TYPES = [None, "DINT", "SINT"]


def canon_op(d):
    """comparable form of an operation dict (type-exact values)"""
    if d is None:
        return None
    out = {}
    for k, v in d.items():
        if k == "path":
            out[k] = [sorted((kk, repr(vv)) for kk, vv in dict(s).items()) for s in v]
        elif k == "data":
            out[k] = [repr(x) for x in v]
        else:
            out[k] = repr(v)
    return out


def check_string(M, text, fragment, int_type):
    """-> (violations, outcome)"""
    try:
        want = ref_parse(text, fragment, int_type)
        wrej = False
    except Reject as e:
        want, wrej = None, str(e)
    try:
        got, = M.client.parse_operations([text], fragment=fragment, int_type=int_type)
        grej = False
    except Exception as e:
        got, grej = None, "%s: %s" % (type(e).__name__, str(e)[:120])
    if want is None and not wrej:
        return [], "unspecified"
    where = "parse_operations([%r], fragment=%r, int_type=%r)" % (text, fragment, int_type)
    if wrej:
        if not grej:
            return [("inconsistent-string-accepted", "%s accepted as %r; the documented syntax rejects it (%s)" % (where, dict(got), wrej))], "reject"
        return [], "reject"
    if grej:
        return [("wellformed-string-rejected", "%s raised %s; it spells %r" % (where, grej, want))], "accept"
    if canon_op(got) != canon_op(want):
        return [("string-means-something-else", "%s -> %r; it spells %r" % (where, dict(got), want))], "accept"
    return [], "accept"


def shard_b(acc, path, tier):
    M = sim.mods()
    n = 0
    for idx in B_INDEX:
        for cnt in B_COUNT:
            for off in B_OFFSET:
                for val in B_VALUES:
                    text = path + idx + cnt + off + val
                    for fragment in (False, True):
                        for it in B_INT_TYPES:
                            acc.ev()
                            if idx or cnt or off or val:
                                acc.ntc()
                            bad, outcome = check_string(M, text, fragment, it)
                            acc.outcome("B:" + outcome)
                            for kind, msg in bad:
                                acc.violation(kind, {"part": "B", "text": text, "fragment": fragment, "int_type": it}, msg)
                            n += 1
    acc.sample({"part": "B", "text": path + "[1-5]+4=(DINT)1,2", "cases": n})


# ---- format_path / parse_path round trip ------------------------------------------------------------
RT_NUMS = [0, 1, 26, 255, 256, 65535]
RT_ELEMS = [None, 0, 3, 70000]
RT_COUNTS = [None, 1, 5]


def rt_paths():
    for names in (["T"], ["Tag_1", "Sub"], ["A", "b", "C9"]):
        yield [{"symbolic": n} for n in names]
    for c in RT_NUMS:
        yield [{"class": c}]
        for i in RT_NUMS:
            yield [{"class": c}, {"instance": i}]
            for a in RT_NUMS:
                yield [{"class": c}, {"instance": i}, {"attribute": a}]
            yield [{"class": c}, {"instance": i}, {"connection": 100}]


def check_roundtrip(M, segs, elem, count):
    full = [dict(s) for s in segs] + ([{"element": elem}] if elem is not None else [])
    try:
        text = M.client.format_path([dict(s) for s in full], count=count)
    except Exception as e:
        return [("format_path-raises", "format_path(%r, count=%r) raised %s: %s" % (full, count, type(e).__name__, e))]
    try:
        back, e2, c2 = M.device.parse_path_elements(text)
        back2 = M.device.parse_path(text)
    except Exception as e:
        return [("formatted-path-unparsable", "format_path(%r, count=%r) = %r does not parse: %s" % (full, count, text, e))]
    bad = []
    if [dict(s) for s in back] != full or [dict(s) for s in back2] != full:
        bad.append(("path-roundtrip-differs", "format_path(%r, count=%r) = %r parses back to %r" % (full, count, text, back)))
    if elem is not None and (e2 != elem or c2 != count):
        bad.append(("path-roundtrip-element-count", "format_path(%r, count=%r) = %r parses back to element %r count %r"
                    % (full, count, text, e2, c2)))
    return bad


def shard_rt(acc, _item, tier):
    M = sim.mods()
    for segs in rt_paths():
        for elem in RT_ELEMS:
            for count in RT_COUNTS:
                acc.ev()
                if len(segs) >= 2 or elem is not None:
                    acc.ntc()
                bad = check_roundtrip(M, segs, elem, count)
                acc.outcome("RT:" + ("bad" if bad else "ok"))
                for kind, msg in bad:
                    acc.violation(kind, {"part": "RT", "segs": segs, "elem": elem, "count": count}, msg)
    acc.sample({"part": "RT", "segs": [{"class": 0x1FF}, {"instance": 1}, {"attribute": 26}], "elem": 3, "count": 5})


# ==================================================================================================
def shard(acc, item, tier, seed):
    if item[0] == "A":
        shard_a(acc, item[1], tier)
    elif item[0] == "B":
        shard_b(acc, item[1], tier)
    else:
        shard_rt(acc, None, tier)


def run(ctx):
    items = [("A", (i, j)) for i in range(NOPS) for j in range(NOPS)]
    if not ctx.quick:
        items += [("A", (i, j, k)) for i in range(NOPS) for j in range(NOPS) for k in range(NOPS)]
    items += [("B", p) for p in B_PATHS]
    items.append(("RT",))
    return ctx.pmap(__name__, "shard", items)


def guards(acc, ctx):
    g = []
    from mc import core
    known = core.load_known(ID)
    if any(core.match_known(known, v) is None for v in acc.violations):
        return g          # vacuity guards protect a silent run; a run that reports new violations is not vacuous (and a
                          # violating tree may legitimately never produce some of the outcomes below)
    o = acc.outcomes
    need = ["A:status=0x00", "A:status=0x05", "A:status=0xff", "A:bundled", "A:variant=byte", "A:variant=lazy",
            "A:variant=validating", "A:frames=1", "A:frames=3", "B:accept", "B:reject", "RT:ok"]
    for k in need:
        if not o.get(k):
            g.append("outcome %s never observed" % k)
    if o.get("B:accept", 0) < 5000 or o.get("B:reject", 0) < 5000:
        g.append("operation-string grammar: fewer than 5000 accepted or rejected strings (%r / %r)" % (o.get("B:accept"), o.get("B:reject")))
    if acc.counters.get("client_operations", 0) < (25000 if ctx.quick else 800000):
        g.append("fewer client operations executed than the tier's bound implies: %r" % acc.counters.get("client_operations"))
    return g


def replay(case):
    if case["part"] == "A":
        idxs = tuple(case["ops"])
        bad, _, _ = run_list(idxs, settings_for(case.get("tier", "quick"), len(idxs), case["variant"]), case["variant"])
        return [m for _, m in bad]
    M = sim.mods()
    if case["part"] == "B":
        bad, _ = check_string(M, case["text"], case["fragment"], case["int_type"])
        return [m for _, m in bad]
    return [m for _, m in check_roundtrip(M, case["segs"], case["elem"], case["count"])]


def preload():
    """import the code under test once in the (pristine) worker; shard children are forked from it"""
    from mc import sim as _sim
    _sim.mods()
