"""C05 -- invalid requests are refused without side effects; accepted writes stay readable (E-state).

Same live-simulator search as C03, but the alphabet is the *invalid neighbourhood* of every valid request (indices,
counts, byte offsets and declared-vs-supplied counts at and beyond the tag's bounds, the full request-type x tag-type
matrix with each request type's widest values, unknown tags / attributes / instances / classes, attribute writes of
the wrong size) executed from every state of the closed store graph.  Every acknowledged write is followed by
Read Tag, Read Tag Fragmented and Get Attribute Single of the tag on the issuing session AND on a second session.
"""
from mc import explore, refmodel, wire as W
from props import tagstore as TS

ID = "C05"
LEVEL = "model_checking"
ISOLATE_SHARDS = True        # every shard runs in a forked child of a pristine worker (mc/core.py)
RULE = ("closed store graph of the small configuration (states reached by the C03 same-type writes); from every state every "
        "request of the invalid-neighbourhood alphabet + cross-type matrix; every acknowledged write read back 3 ways on two "
        "sessions. non-trivial = distinct (state, request) that was refused, or acknowledged and read back")
BOUNDS = {
    "quick": "types INT, REAL, USINT, SSTRING (object seam) and DINT (whole frames, two sessions); config tiny = a[2], s, "
             "b[1]@0x401/1/1 (2^4 states, thorough: small = 2^6 states); indices "
             "{None,0,n-1,n,n+1,0xFFFF} x counts {0,1,n,n+1,0xFFFF}; offsets {0,size(n-1),size*n,size*n+1,mid,2^32-1}; declared "
             "vs supplied {0,1,n,n+1}; 13x13 type matrix with widest values; unknown tag/attribute/instance/class",
    "thorough": "all 13 tag types on the object seam, 5 types through whole frames with two sessions; same alphabets",
}
ASSUMPTIONS = [
    "a write carrying zero data values is malformed input (C08's domain): any failure without effect is accepted",
    "byte offsets that fall inside an element, and writes supplying more values than declared, are outside the statement: "
    "only 'no other tag changed / tag still readable' is demanded of them",
]

_rig = {}
BIG = 0xFFFF


def invalid_requests(cfg, addr_of):
    for name, typ, length, _ in cfg:
        t = W.TYPE_CODE[typ]
        n = 1 if length is None else length
        v0 = TS.VALS[typ][1]
        sym = lambda e: ("sym", name, e)
        cia = lambda e: ("cia",) + tuple(addr_of[name]) + (e,)
        elms = [None, 0, n - 1, n, n + 1, BIG]
        cnts = [0, 1, n, n + 1, BIG]
        for mk in (sym, cia):
            for e in elms:
                for c in cnts:
                    yield ("rd", mk(e), c)
                    yield ("rf", mk(e), c, 0)
            # same-type writes: every (element, declared, supplied)
            for e in [None, n - 1, n, n + 1, BIG]:
                for d in cnts:
                    for k in sorted({0, 1, n, n + 1}):
                        yield ("wt", mk(e), t, (v0,) * k, d)
                        yield ("wf", mk(e), t, (v0,) * k, d, 0)
        if t in W.SIZE:
            sz = W.SIZE[t]
            offs = sorted({0, sz * (n - 1), sz * n, sz * n + 1, (1 if sz > 1 else sz * n + 2), 2**32 - 1})
            for off in offs:
                yield ("rf", sym(None), n, off)
                yield ("rf", sym(None), n + 1, off)
                yield ("wf", sym(None), t, (v0,), n, off)
                yield ("wf", sym(None), t, (v0,) * n, n, off)
        # the request-type x tag-type matrix, widest values of the request type
        for rtyp in TS.TYPES:
            rt = W.TYPE_CODE[rtyp]
            for v in TS.EDGE[rtyp]:
                yield ("wt", sym(n - 1 if n > 1 else None), rt, (v,), None)
                yield ("wf", cia(None), rt, (v,), 1, 0)
            if n >= 2:
                # several values of which only a later one may be unrepresentable in the tag's type: a refusal must not leave the
                # earlier ones behind
                small = TS.SMALL[rtyp]
                for v in TS.EDGE[rtyp]:
                    for vec in ((small, v), (v, small)):
                        yield ("wt", sym(None), rt, vec, None)
                        yield ("wf", sym(None), rt, vec, 2, 0)
        if t in W.SIZE:
            good = W.enc_values(t, (v0,) * n)
            a = addr_of[name]
            for raw in (good[:-1], good + b"\x00", b"", good):
                yield ("sas", ("cia", a[0], a[1], a[2], None), raw)
    # unknown targets
    t = W.TYPE_CODE[cfg[0][1]]
    v0 = TS.VALS[cfg[0][1]][1]
    unknown = [("sym", "nosuch", None), ("sym", "a_", 0), ("sym", "", None), ("cia", 2, 1, 99, None), ("cia", TS.CLS, 1, 99, None),
               ("cia", TS.CLS, 9, 1, None), ("cia", 0x999, 1, 1, None), ("cia", 2, 2, 1, None)]
    for u in unknown:
        yield ("rd", u, 1)
        yield ("rf", u, 1, 0)
        yield ("wt", u, t, (v0,), None)
        yield ("wf", u, t, (v0,), None, 0)
        if u[0] == "cia":
            yield ("gas", u)
            yield ("sas", u, W.enc_values(t, (v0,)))


def matrix_requests(cfg, addr_of):
    """mixed-type configuration: for every tag every request type x {edge values, small value} as 1- and 2-value writes, plus a
    whole read of every tag -- explored to depth 2, so that every accepted cross-type write is followed by every other one"""
    for name, typ, length, _ in cfg:
        n = 1 if length is None else length
        yield ("rd", ("sym", name, None), n)
        for rtyp in TS.TYPES:
            rt = W.TYPE_CODE[rtyp]
            if rt in (W.SSTRING, W.STRING):
                continue
            small = TS.SMALL[rtyp]
            for v in TS.EDGE[rtyp]:
                yield ("wt", ("sym", name, None), rt, (v,), None)
                if n >= 2:
                    yield ("wt", ("sym", name, None), rt, (small, v), None)
            yield ("wf", ("sym", name, None), rt, (small,), n, 0)


def get_rig(cfgkey):
    """fresh simulator per state expansion (see props/c03_tags.get_rig)"""
    typ, variant, nvals, seam, via_main = cfgkey
    r = TS.Rig(TS.config(typ, variant), seam=seam, via_main=via_main)
    if _rig.get("key") != cfgkey:
        _rig["key"] = cfgkey
        _rig["closed"] = [q for q, closed in TS.valid_requests(r.cfg, r.sim.addr_of, nvals, cross=False)
                          if q[0] in ("wt",) and q[1][0] == "sym" and q[1][1] == q[1][1].lower()]
        _rig["alphabet"] = list(invalid_requests(r.cfg, r.sim.addr_of))
        if variant == "mixed":
            _rig["closed"] = []
            _rig["alphabet"] = list(matrix_requests(r.cfg, r.sim.addr_of))
    return r, _rig["closed"], _rig["alphabet"]


def readback(rig, name, both_sessions):
    """Read Tag, Read Tag Fragmented, Get Attribute Single of tag `name` (whole), on this and on a second session."""
    bad = []
    tag = rig.model.tags[name]
    reqs = [("rd", ("sym", name, None), tag.n), ("rf", ("sym", name, None), tag.n, 0),
            ("gas", ("cia",) + tuple(tag.address) + (None,))]
    for q in reqs:
        bad += rig.step(q)
    if both_sessions and rig.seam == "rr":
        rig.swap_session()
        try:
            for q in reqs:
                bad += [("second-session:" + k, m) for k, m in rig.step(q)]
        finally:
            rig.swap_session()
    return bad


def expand(acc, item, tier, seed):
    cfgkey, states, (k_, K_) = item
    alphabet = None
    for state in states:
        rig, closed, alphabet = get_rig(cfgkey)
        if cfgkey[1] == "mixed":
            # two passes over the WHOLE alphabet on one simulator in one process: every ordered pair of requests (r1 in pass 1,
            # r2 in pass 2) is executed with whatever r1 left behind outside the tag store (the store itself is re-seated);
            # slice 0 runs the alphabet forwards, slice 1 backwards (a "first use wins" cache depends on who comes first)
            alphabet = list(alphabet) if k_ % 2 == 0 else list(reversed(alphabet))
            alphabet = alphabet + alphabet
        else:
            alphabet = alphabet[k_::K_]
        if k_:
            closed = []

        def viol(k, m):
            case = {"cfg": cfgkey, "state": state, "history": list(rig.log)}
            if k.startswith("seat"):
                case["seat_check"] = True        # the violation is about the state after the history, not about its last reply
            acc.violation(k, case, m)

        for k, m in rig.seat(state):
            viol(k, m)
        base = rig.state()
        # successors of the store graph (same-type whole/partial writes by name): keeps the graph identical to C03's
        for req in closed:
            bad = rig.step(req)
            acc.count("transitions")
            after = rig.state()
            for k, m in bad:
                viol(k, m)
            if after != base:
                if TS.representable(after):
                    acc.succ.add((cfgkey, after))
                for k, m in rig.seat(state):
                    viol(k, m)
        for req in alphabet:
            acc.ev()
            acc.ntc()
            acc.count("transitions")
            rpy, exc = rig.execute(req)
            bad = rig.model.judge(req, rpy, exc, rig.sim.store())
            acked = False
            if rpy is not None:
                try:
                    acked = W.dec_reply(rpy)["status"] == 0
                except W.WireError:
                    pass
            tag, _, _ = rig.model.resolve(req[1])
            if req[0] in ("wt", "wf", "sas"):
                acc.outcome("%s:%s" % (req[0], "ack" if acked else ("refused" if rpy is not None else "enip-error")))
                if acked and tag is not None:
                    bad += [("after-ack:" + k, m) for k, m in readback(rig, tag.name, True)]
                    acc.count("transitions", 3)
                    acc.count("acked_writes_read_back")
            else:
                acc.outcome("%s:%s" % (req[0], "ok" if acked else ("refused" if rpy is not None else "enip-error")))
            for k, m in bad:
                viol(k, m)
            if rig.state() != base:
                if cfgkey[1] == "mixed" and acked:
                    if TS.representable(rig.state()):
                        acc.succ.add((cfgkey, rig.state()))       # depth-bounded: every accepted write is a new starting point
                for k, m in rig.seat(state):
                    viol(k, m)
    if alphabet:
        acc.sample({"cfg": cfgkey, "state": states[0], "history": [alphabet[len(alphabet) // 3]]})


def run(ctx):
    if ctx.quick:
        keys = [(t, "tiny", 2, "cm", False) for t in ("INT", "REAL", "USINT", "SSTRING")] + [("DINT", "tiny", 2, "rr", False)]
    else:
        keys = [(t, "small", 2, "cm", False) for t in TS.TYPES]
        keys += [(t, "small", 2, "rr", True) for t in ("SINT", "UINT", "LINT", "LREAL", "STRING")]
    roots = []
    for k in keys:
        cfg = TS.config(k[0], k[1])
        zero = "" if k[0] in ("SSTRING", "STRING") else (0.0 if k[0] in ("REAL", "LREAL") else 0)
        roots.append((k, tuple((name, tuple([zero] * (1 if ln is None else ln))) for name, _, ln, _ in cfg)))
    acc = explore.bfs(ctx, __name__, "expand", roots, chunk=1, splits=8)
    # tags of different types in one simulator, every accepted cross-type write followed by every other request (depth 2)
    mk = ("MIXED", "mixed", 2, "cm", False)
    mcfg = TS.config("INT", "mixed")
    mroot = tuple((name, tuple([0.0 if typ in ("REAL", "LREAL") else 0] * (1 if ln is None else ln))) for name, typ, ln, _ in mcfg)
    acc.merge(explore.bfs(ctx, __name__, "expand", [(mk, mroot)], chunk=1, splits=2, max_depth=1 if ctx.quick else 2,
                          max_states=None if ctx.quick else 4000))
    acc.counters.pop("cap_hit", None)
    acc.note("config 'mixed' (six tags of different types): from the root state (thorough: also from every state one accepted write away) "
             "the whole cross-type alphabet is run twice forwards and twice backwards on one simulator; the other configurations closed")
    acc.count("traces_validated_against_impl", acc.counters.get("transitions", 0))
    return acc


def guards(acc, ctx):
    g = []
    if len(acc.states) < 5 * 16:
        g.append("store graph did not close at >= 16 states per type (%d states)" % len(acc.states))
    for k in ("wt:ack", "wt:refused", "wf:ack", "wf:refused", "rd:refused", "rf:refused", "rd:ok", "sas:refused", "sas:ack"):
        if not acc.outcomes.get(k):
            g.append("outcome %s never observed" % k)
    if not acc.counters.get("acked_writes_read_back"):
        g.append("no acknowledged write was read back")
    return g


def replay(case):
    """Re-execute the recorded history on a fresh simulator; the last request gets the full treatment (judge + read-back)."""
    cfgkey = tuple(case["cfg"])
    rig, closed, alphabet = get_rig(cfgkey)
    hist = [TS.detuple(h) for h in case.get("history", [])]
    msgs = TS.replay_history(rig, hist[:-1]) if len(hist) > 1 else []
    if hist:
        last = hist[-1]
        if last[0] == "@2":
            if not rig.on_second:
                rig.swap_session()
            last = last[1]
        elif rig.on_second:
            rig.swap_session()
        rpy, exc = rig.execute(last)
        msgs += [m for k, m in rig.model.judge(last, rpy, exc, rig.sim.store())]
        tag, _, _ = rig.model.resolve(last[1])
        acked = False
        if rpy is not None:
            try:
                acked = W.dec_reply(rpy)["status"] == 0
            except W.WireError:
                pass
        if acked and tag is not None and last[0] in ("wt", "wf", "sas") and not rig.on_second:
            msgs += [m for k, m in readback(rig, tag.name, True)]
    msgs += TS.seat_check(rig, case)
    return msgs


def preload():
    """import the code under test once in the (pristine) worker; shard children are forked from it"""
    from mc import sim as _sim
    _sim.mods()
