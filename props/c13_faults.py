"""C13 -- under any connection fault the client never pairs a reply with the wrong request (E-env, fault enumeration).

The real client.connector / get_attribute.proxy / poll.run run over mc.clientenv (no sockets, no clocks) against the
real enip_srv_tcp.  The fault-free exchange of k = 5 distinguishable operations is recorded (server->client stream S,
client->server stream Q); then the complete fault menu is enumerated:

  S-cut   the server->client stream ends after p bytes, for EVERY p in [0, |S|): then (a) EOF, (b) silence until the
          client's timeout has elapsed on the virtual clock (afterwards the late bytes arrive); before the cut the bytes
          are delivered in whole chunks or one byte per recv()
  Q-cut   the server sees only the first q bytes of the client->server stream, for EVERY q in [0, |Q|), then EOF; the
          client's later sends vanish or raise EPIPE
  drop    reply frame j is never delivered, for every j
  pairs   (thorough: triples) of faults from a reduced menu on consecutive connections, then a healthy connection

Oracle, from the statement: every yielded result is the correct one for ITS operation; no result for an operation whose
reply frame was not completely delivered; the result stream either raises or yields exactly k results (never silently
fewer); after a failure the proxy has discarded its gateway (closed, gateway None), its next use opens a new connection,
and a use over a healthy connection returns the complete, correct data.
"""
import gc
import sys

from mc import clientenv as CE, refcip as R, sim

ID = "C13"
LEVEL = "fault_enumeration"
ISOLATE_SHARDS = True        # every shard runs in a forked child of a pristine worker (mc/core.py)
RULE = ("fault-free run of 5 distinguishable operations (reads of distinct values, a write, its read-back) recorded per "
        "(subject, bundling, scheduling); then one real client run per fault: every byte offset of the reply stream x {EOF, "
        "silence-until-timeout} x {whole, byte-wise delivery}, every byte offset of the request stream x {later sends vanish, "
        "EPIPE}, every dropped reply frame, ordered pairs/triples of faults from a reduced menu followed by a healthy "
        "connection.  non-trivial = a run in which a fault actually took effect (stream cut before its end, frame dropped)")
BOUNDS = {
    "quick": "connector.pipeline(depth 3) without and with bundling (multiple=100): all S-cuts x {eof, stall} whole + byte-wise eof, "
             "all Q-cuts (swallow; without bundling also EPIPE), all drops; connector.synchronous, operate(depth 3, validating) and "
             "operate(depth 0): all S-cuts x {eof, stall}, drops; proxy (depth 3, `with via:` + "
             "read, 3 uses): all S-cuts x {eof, stall}, drops, 13x13 fault pairs; proxy with bundling and proxy depth 0: all S-cuts (eof), drops; pipeline under lazy-server scheduling: all S-cuts (stall); "
             "poll.run: the reduced menu (13 faults) and 16 pairs",
    "thorough": "subjects pipeline / synchronous / operate(depth 3, validating) / operate(depth 0) x multiple {0, 100} x all S-cuts x "
                "{eof, stall} x {whole, byte} + all Q-cuts x {swallow, EPIPE} + all drops; pipeline also under lazy-server scheduling; "
                "proxy depth 3 (multiple 0 and 100) and depth 0: all S-cuts x {eof, stall} x {whole, byte}, all Q-cuts, drops, 33x33 "
                "pairs, 7^3 triples; poll.run: 33 single faults, 13x13 pairs",
}
ASSUMPTIONS = [
    "server = the real in-process Logix simulator; it answers inside the client's send (eager) or only when the client blocks "
    "(lazy); a fault-free server answers one frame per request, in order (checked on the recorded baseline)",
    "callers use the documented forms: `with connector: for r in connector.pipeline(...)`, `with via: via.read(...)`, poll.run "
    "with process/failure callbacks; a failed connector is not used again (the statement asks that of the proxy layer)",
    "timeouts are virtual: a select() that cannot be satisfied advances the clock by its full timeout",
]

T = 1.0
CFG = (("a", "INT", 4, None), ("b", "DINT", 3, "0x401/1/1"), ("r", "REAL", 2, None), ("s", "INT", 2, "0x401/1/2"), ("c", "INT", 2, None))
INIT = (("a", (11, 12, 13, 14)), ("b", (100001, 100002, 100003)), ("r", (1.5, -2.25)), ("s", (258, 772)), ("c", (0, 0)))

# connector-level operations and what each must yield (array model of the statement: reads return the elements, a write
# returns True -- or the written data under validate -- and is visible to the read after it)
TXT = ["a[0-1]", "b[0-2]", "c[1]=(INT)77", "c[0-1]", "r[0-1]"]
PATHS = [[{"symbolic": "a"}, {"element": 0}], [{"symbolic": "b"}, {"element": 0}], [{"symbolic": "c"}, {"element": 1}],
         [{"symbolic": "c"}, {"element": 0}], [{"symbolic": "r"}, {"element": 0}]]
WANT = [[11, 12], [100001, 100002, 100003], True, [0, 77], [1.5, -2.25]]
WANT_VALIDATING = [[11, 12], [100001, 100002, 100003], [77], [0, 77], [1.5, -2.25]]
K = len(TXT)

# proxy-level attributes (tag reads, typed Get Attribute Single reads, a write) and the values read() must yield
ATTRS = ["a[0-1]", ("@0x401/1/1", "DINT"), "c[1]=(INT)77", "c[0-1]", ("@0x401/1/2", "INT")]
WANT_PROXY = [[11, 12], [100001, 100002, 100003], True, [0, 77], [258, 772]]

SUBJECTS = {
    # name: (method, depth, validating)
    "pipeline": ("pipeline", 3, False),
    "synchronous": ("synchronous", 0, False),
    "operate3": ("operate", 3, True),
    "operate0": ("operate", 0, False),
}


class Runaway(BaseException):
    pass


def eq_val(want, got):
    if want is True or want is None:
        return got is want
    if not isinstance(got, (list, tuple)) or len(got) != len(want):
        return False
    return all(type(g) is not bool and float(w) == float(g) for w, g in zip(want, got))


def fresh_sim():
    S = sim.Sim(CFG)
    S.set_store(INIT)
    return S


def quiet_unraisable(acc=None):
    """cpppo's parser generators may raise while being closed with a partial frame; CPython reports that on stderr"""
    def hook(unraisable):
        if acc is not None:
            acc.count("unraisable_in_generator_cleanup")
    sys.unraisablehook = hook


def fault_kind(sock, env):
    """how the connection failed, as the client saw it"""
    if sock is None:
        return "no-connection"
    how = "timeout" if sock.timeouts else "eof"
    return how + ("-inside-frame" if sock.mid_frame else "-between-frames")


def member_chunks(sock, start=0):
    """for the SendRRData request chunks sent on this socket from chunk `start`: [chunk index of the n-th CIP request]"""
    out = []
    for c in range(start, len(sock.tx)):
        try:
            d = R.decode_request_frame(sock.tx[c])
        except Exception:
            continue
        if d.get("command") != 0x6F:
            continue
        cip = d.get("cip") or {}
        n = len(cip.get("requests") or []) if cip.get("service") == 0x0A else 1
        out += [c] * n
    return out


# ==================================================================================================
# connector-level subjects
# ==================================================================================================
def run_connector(subject, mult, sched, plan):
    """-> observation dict (JSON-able) of one run of the 5 operations over a connection with the given fault plan"""
    M = sim.mods()
    CE.install()
    method, depth, validating = SUBJECTS[subject]
    S = fresh_sim()
    res, exc, hang = [], None, None
    gc.disable()
    try:
        with CE.Env(S, plans=[plan], sched=sched) as env:
            conn = None
            try:
                conn = M.client.connector(host="sim", port=44818, timeout=T)
                ops = list(M.client.parse_operations(TXT))
                with conn:
                    if method == "pipeline":
                        it = conn.pipeline(ops, depth=depth, multiple=mult, timeout=T)
                    elif method == "synchronous":
                        it = conn.synchronous(ops, multiple=mult, timeout=T)
                    else:
                        it = conn.operate(ops, depth=depth, multiple=mult, timeout=T, validating=validating)
                    for r in it:
                        try:
                            segs = [dict(s) for s in r[2]["path"]["segment"]]
                        except Exception:
                            segs = None
                        res.append((r[0], segs, r[4], r[5]))
            except CE.Hang as e:
                hang = str(e)
            except Exception as e:
                exc = "%s: %s" % (type(e).__name__, str(e)[:160])
            sock = env.socks[0] if env.socks else None
            obs = dict(results=res, exc=exc, hang=hang, validating=validating,
                       fault=fault_kind(sock, env),
                       complete=sorted(sock.frames_complete) if sock else [],
                       chunks=member_chunks(sock) if sock else [],
                       delivered=len(sock.delivered_log) if sock else 0,
                       stream=bytes(sock.delivered_log) if sock else b"",
                       frames=[len(f) for f in sock.frames] if sock else [],
                       contexts=[(R.decode_reply_frame(f).get("context"), R.decode_request_frame(q).get("context"))
                                 for f, q in zip(sock.frames, sock.tx)] if sock and not plan else [],
                       tx=[len(x) for x in sock.tx] if sock else [],
                       dropped=sorted(sock.drop & set(range(len(sock.frames)))) if sock else [],
                       cut_hit=bool(sock and (sock.cut_hit or sock.q_dead)),
                       clock=env.clock.now - 1000.0, store=S.store())
            if conn is not None:
                conn.close()
    finally:
        gc.enable()
    return obs


def judge_connector(subject, mult, plan, obs, base):
    """-> [(kind, msg)] for one faulty run, given the fault-free baseline of the same (subject, mult, sched)"""
    bad = []
    where = "%s multiple=%d plan=%r" % (subject, mult, plan)
    want = WANT_VALIDATING if obs["validating"] else WANT
    if obs["hang"]:
        return [("client-hang:" + subject, "%s: the client would block forever: %s" % (where, obs["hang"]))]
    res = obs["results"]
    if len(res) > K:
        bad.append(("more-results-than-operations:" + subject, "%s: %d results for %d operations" % (where, len(res), K)))
    for n, (idx, segs, sts, val) in enumerate(res[:K]):
        bidx = base["results"][n][0]
        if segs != PATHS[n] or idx != bidx or sts != 0 or not eq_val(want[n], val):
            bad.append(("wrong-result:" + subject, "%s: result %d is (index %r, path %r, status %r, value %r); operation %d %r must "
                        "yield (index %r, status 0, value %r)" % (where, n, idx, segs, sts, val, n, TXT[n], bidx, want[n])))
        c = base["chunks"][n]
        if c not in obs["complete"]:
            bad.append(("result-without-complete-reply:" + subject, "%s: result %d (%r) was yielded although reply frame %d was "
                        "never completely delivered (complete frames %r, %d bytes delivered)"
                        % (where, n, val, c, obs["complete"], obs["delivered"])))
    if obs["exc"] is None and len(res) < K:
        # operate(depth=0) IS connector.synchronous: one classification for one code path
        bad.append(("silently-fewer-results:%s:%s" % ("synchronous" if subject == "operate0" else subject, obs["fault"]),
                    "%s: the result stream ended without an error after %d of %d results (connection failed: %s, %d reply "
                    "bytes delivered, frames %r)" % (where, len(res), K, obs["fault"], obs["delivered"], obs["frames"])))
    return bad


def baseline_connector(subject, mult, sched):
    obs = run_connector(subject, mult, sched, {})
    want = WANT_VALIDATING if obs["validating"] else WANT
    ok = (obs["exc"] is None and obs["hang"] is None and len(obs["results"]) == K
          and all(r[1] == PATHS[n] and r[2] == 0 and eq_val(want[n], r[3]) for n, r in enumerate(obs["results"]))
          and len(obs["frames"]) == len(obs["tx"]) and all(a == b for a, b in obs["contexts"])
          and len(obs["chunks"]) == K and sum(obs["frames"]) == obs["delivered"])
    return obs, ok


# ==================================================================================================
# proxy-level subject:  with via: via.read(...)   used repeatedly
# ==================================================================================================
def run_proxy(depth, mult, sched, plans, uses):
    """`uses` consecutive documented uses of one proxy; connection n suffers plans[n] (healthy beyond the list).
    -> (violations, observation)"""
    M = sim.mods()
    CE.install()
    from cpppo.server.enip import get_attribute as GA
    S = fresh_sim()
    bad, log = [], []
    subject = "proxy" if depth else "proxy-depth0"
    sil = "proxy" if depth else "synchronous"
    where = "proxy(depth=%d, multiple=%d) plans=%r" % (depth, mult, plans)
    gc.disable()
    try:
        with CE.Env(S, plans=plans, sched=sched) as env:
            via = GA.proxy("sim", port=44818, timeout=T, depth=depth, multiple=mult)
            prev_failed = False
            for use in range(uses):
                n_socks, n_refused = len(env.socks), env.refused
                g0 = via.gateway
                sock0 = g0.conn if g0 is not None else None
                tx0 = len(sock0.tx) if sock0 is not None else 0
                vals, exc, hang = [], None, None
                try:
                    with via:
                        for v in via.read(ATTRS):
                            vals.append(v)
                except CE.Hang as e:
                    hang = str(e)
                except Exception as e:
                    exc = "%s: %s" % (type(e).__name__, str(e)[:160])
                new_socks = env.socks[n_socks:]
                created = len(new_socks) + (env.refused - n_refused)
                if new_socks:
                    sock, start = new_socks[-1], 0       # this use opened its own connection
                elif created:
                    sock, start = None, 0                # the connection attempt was refused
                else:
                    sock, start = sock0, tx0             # the gateway of an earlier use was re-used
                tag = "use %d of %s" % (use, where)
                if hang:
                    bad.append(("client-hang:" + subject, "%s: the client would block forever: %s" % (tag, hang)))
                    break
                if len(vals) > K:
                    bad.append(("more-results-than-operations:" + subject, "%s: %d values for %d attributes" % (tag, len(vals), K)))
                chunks = member_chunks(sock, start) if sock is not None and vals else []
                for n, v in enumerate(vals[:K]):
                    if not eq_val(WANT_PROXY[n], v):
                        bad.append(("wrong-result:" + subject, "%s: value %d is %r; attribute %r must read %r"
                                    % (tag, n, v, ATTRS[n], WANT_PROXY[n])))
                    if n >= len(chunks) or chunks[n] not in sock.frames_complete:
                        bad.append(("result-without-complete-reply:" + subject, "%s: value %d (%r) was yielded although its reply "
                                    "frame was never completely delivered (complete %r)"
                                    % (tag, n, v, sorted(sock.frames_complete) if sock else None)))
                if exc is None and len(vals) < K:
                    bad.append(("silently-fewer-results:%s:%s" % (sil, fault_kind(sock, env)),
                                "%s: read() ended without an error after %d of %d values (connection failed: %s)"
                                % (tag, len(vals), K, fault_kind(sock, env))))
                if exc is not None:
                    if via.gateway is not None:
                        bad.append(("gateway-not-discarded:" + subject, "%s: failed with %s but the proxy still holds gateway %r"
                                    % (tag, exc, via.gateway)))
                    elif sock is not None and not sock.closed and (gc.collect() or True) and not sock.closed:
                        # (a connector whose construction failed is closed by its finaliser; give the collector a chance)
                        bad.append(("connection-not-closed:" + subject, "%s: failed with %s, gateway dropped but its socket was "
                                    "not closed" % (tag, exc)))
                if prev_failed and not created:
                    bad.append(("no-reconnect-after-failure:" + subject, "%s: the previous use failed, yet this use opened no new "
                                "connection" % tag))
                healthy = created and sock is not None and not sock.plan
                if healthy and (exc is not None or len(vals) != K):
                    bad.append(("healthy-connection-failed:" + subject, "%s: fresh fault-free connection, yet the use ended with %r "
                                "after %d values" % (tag, exc, len(vals))))
                log.append(dict(use=use, values=len(vals), exc=exc, created=created,
                                fault=fault_kind(sock, env) if exc or len(vals) < K else None))
                prev_failed = exc is not None
            obs = dict(uses=log, connections=len(env.socks), refused=env.refused,
                       streams=[(len(s.delivered_log), [len(f) for f in s.frames], [len(x) for x in s.tx]) for s in env.socks],
                       clock=env.clock.now - 1000.0)
            via.close_gateway()
    finally:
        gc.enable()
    return bad, obs


# ==================================================================================================
# poll.run with virtual sleep
# ==================================================================================================
def run_poll(mult, plans, want_polls=2, limit=120.0):
    M = sim.mods()
    CE.install()
    from cpppo.server.enip import get_attribute as GA, poll
    S = fresh_sim()
    bad = []
    where = "poll.run(proxy(depth=3, multiple=%d)) plans=%r" % (mult, plans)

    class Proc(object):
        done = False

        def __init__(self):
            self.got = []

        def __call__(self, p, v):
            self.got.append((p, v))
            if len(self.got) > 50 * K:
                raise Runaway("process() called %d times" % len(self.got))

    proc = Proc()
    fails = []
    state = {}

    def failure(exc):
        fails.append((state["env"].clock.now, "%s: %s" % (type(exc).__name__, str(exc)[:100]), len(state["env"].socks) + state["env"].refused))
        if len(fails) > 50:
            raise Runaway("failure() called %d times" % len(fails))

    def on_sleep(clock):
        if len(proc.got) >= want_polls * K + state.get("extra", 0) or clock.now > 1000.0 + limit or clock.sleeps > 2000:
            proc.done = True

    gc.disable()
    try:
        with CE.Env(S, plans=plans, sched="eager", on_sleep=on_sleep) as env:
            state["env"] = env
            via = GA.proxy("sim", port=44818, timeout=T, depth=3, multiple=mult)
            hang = None
            try:
                poll.run(via, process=proc, failure=failure, cycle=1.0, params=list(ATTRS), pass_thru=True)
            except CE.Hang as e:
                hang = str(e)
            except Runaway as e:
                bad.append(("poll-runaway", "%s: %s (virtual clock +%.1fs, %d sleeps)" % (where, e, env.clock.now - 1000, env.clock.sleeps)))
            if hang:
                bad.append(("client-hang:poll", "%s: would block forever: %s" % (where, hang)))
            # every processed value is the right one for its parameter, and polls are complete
            for n, (p, v) in enumerate(proc.got):
                i = n % K
                if p != ATTRS[i] or not eq_val(WANT_PROXY[i], v):
                    bad.append(("wrong-result:poll", "%s: processed item %d is (%r, %r); expected (%r, %r)"
                                % (where, n, p, v, ATTRS[i], WANT_PROXY[i])))
            if len(proc.got) % K:
                bad.append(("silently-fewer-results:poll", "%s: %d values processed, not a whole number of polls of %d"
                            % (where, len(proc.got), K)))
            if not hang and len(proc.got) < want_polls * K:
                bad.append(("poll-no-recovery", "%s: only %d values processed within %.0f virtual seconds (%d failures: %r)"
                            % (where, len(proc.got), limit, len(fails), fails[:4])))
            # each failure discards the connection: the next attempt needs a new one
            attempts = len(env.socks) + env.refused
            if fails and attempts < len(fails) + 1 and len(proc.got) >= want_polls * K:
                bad.append(("no-reconnect-after-failure:poll", "%s: %d failures but only %d connection attempts" % (where, len(fails), attempts)))
            gc.collect()       # a connector whose construction failed is closed by its finaliser (reference cycle)
            open_socks = [s.ordinal for s in env.socks if not s.closed]
            if len(open_socks) > 1:
                bad.append(("connection-not-closed:poll", "%s: connections %r are still open at the end" % (where, open_socks)))
            obs = dict(processed=len(proc.got), failures=len(fails), attempts=attempts, clock=env.clock.now - 1000.0,
                       sleeps=env.clock.sleeps)
            via.close_gateway()
    finally:
        gc.enable()
    return bad, obs


# ==================================================================================================
# fault menus
# ==================================================================================================
def reduced_menu(frames, tx, size):
    """Representative single faults from the recorded frame lengths of a fault-free connection (reply frames `frames`,
    request chunks `tx`): inside the first header, at and around every frame boundary, inside payloads; drops; Q-cuts."""
    bounds, pos = [], 0
    for f in frames:
        pos += f
        bounds.append(pos)
    menu = []
    cuts = [0, 5, bounds[0]]                                    # nothing; inside the register reply header; right after it
    for b0, b1 in zip(bounds, bounds[1:]):
        cuts += [b0 + 3, b0 + 24, b1 - 1, b1]                  # in a header, end of header, last byte missing, between frames
    cuts = sorted(set(c for c in cuts if c < bounds[-1]))
    if size == "small":
        keep = [0, bounds[0], bounds[1] + 3 if len(bounds) > 2 else 5, bounds[-2], bounds[-1] - 1]
        cuts = sorted(set(c for c in keep if c < bounds[-1]))
    for c in cuts:
        for then in ("eof", "stall"):
            menu.append({"cut_s": c, "then": then})
    drops = range(len(frames)) if size != "small" else [len(frames) - 2]
    for j in drops:
        menu.append({"drop": [j]})
    qb, pos = [], 0
    for t in tx:
        pos += t
        qb.append(pos)
    qcuts = [qb[0] - 4, qb[-2], qb[-1] - 1] if size != "small" else [qb[-2] + 10]
    for q in qcuts:
        menu.append({"cut_q": q})
    menu.append({"refuse": True})
    return menu


# ==================================================================================================
# shards
# ==================================================================================================
_base = {}


def get_base(subject, mult, sched):
    key = (subject, mult, sched)
    if key not in _base:
        obs, ok = baseline_connector(subject, mult, sched)
        if not ok:
            raise RuntimeError("fault-free baseline of %r is wrong: %r" % (key, {k: obs[k] for k in ("results", "exc", "hang", "frames", "tx")}))
        _base[key] = obs
    return _base[key]


def plans_of(fault, lo, hi, tier):
    """the fault plans of one shard: fault = (class, option...), offsets / ordinals lo..hi-1"""
    cls = fault[0]
    for x in range(lo, hi):
        if cls == "S":
            yield {"cut_s": x, "then": fault[1], "mode": fault[2]}
        elif cls == "Q":
            yield {"cut_q": x, "q_after": fault[1]}
        elif cls == "D":
            yield {"drop": [x], "mode": fault[1]}


def shard(acc, item, tier, seed):
    quiet_unraisable(acc)
    what = item[0]
    if what == "conn":
        _, subject, mult, sched, fault, lo, hi = item
        base = get_base(subject, mult, sched)
        for plan in plans_of(fault, lo, hi, tier):
            obs = run_connector(subject, mult, sched, plan)
            acc.ev()
            acc.count("client_runs")
            if obs["cut_hit"] or obs["dropped"]:
                acc.ntc()
            acc.outcome("conn:%s:%s:%d-results" % (subject, "error" if obs["exc"] else "clean-end", len(obs["results"])))
            acc.outcome("fault:" + (obs["fault"] if obs["exc"] or len(obs["results"]) < K else "none"))
            for kind, msg in judge_connector(subject, mult, plan, obs, base):
                acc.violation(kind, {"what": "conn", "subject": subject, "mult": mult, "sched": sched, "plan": plan}, msg)
        acc.sample({"what": "conn", "subject": subject, "mult": mult, "sched": sched, "fault": list(fault), "offsets": [lo, hi]})
    elif what == "proxy":
        _, depth, mult, sched, fault, lo, hi = item
        for plan in plans_of(fault, lo, hi, tier):
            bad, obs = run_proxy(depth, mult, sched, [plan], 3)
            acc.ev()
            acc.count("client_runs", 3)
            if any(u["exc"] for u in obs["uses"]):
                acc.ntc()
            for u in obs["uses"]:
                acc.outcome("proxy:use%d:%s" % (u["use"], "error" if u["exc"] else "ok" if u["values"] == K else "short"))
            if obs["connections"] + obs["refused"] > 1:
                acc.outcome("proxy:reconnected")
            for kind, msg in bad:
                acc.violation(kind, {"what": "proxy", "depth": depth, "mult": mult, "sched": sched, "plans": [plan], "uses": 3}, msg)
        acc.sample({"what": "proxy", "depth": depth, "mult": mult, "fault": list(fault), "offsets": [lo, hi]})
    elif what == "multi":
        _, subject, depth, mult, seqs = item
        for plans in seqs:
            acc.ev()
            if subject == "proxy":
                bad, obs = run_proxy(depth, mult, "eager", list(plans), len(plans) + 2)
                acc.count("client_runs", len(plans) + 2)
                acc.outcome("multi:proxy:connections=%d" % (obs["connections"] + obs["refused"]))
                case = {"what": "proxy", "depth": depth, "mult": mult, "sched": "eager", "plans": list(plans), "uses": len(plans) + 2}
            else:
                bad, obs = run_poll(mult, list(plans))
                acc.count("client_runs", obs["attempts"])
                acc.outcome("multi:poll:failures=%d" % obs["failures"])
                acc.outcome("multi:poll:recovered" if obs["processed"] >= 2 * K else "multi:poll:not-recovered")
                case = {"what": "poll", "mult": mult, "plans": list(plans)}
            acc.ntc()
            for kind, msg in bad:
                acc.violation(kind, case, msg)
        acc.sample({"what": "multi", "subject": subject, "first": list(seqs[0]) if seqs else None, "sequences": len(seqs)})


def chunked(n, size):
    return [(lo, min(n, lo + size)) for lo in range(0, n, size)]


def run(ctx):
    quiet_unraisable()
    quick = ctx.quick
    items = []
    STEP = 24

    def conn_items(subject, mult, sched, s_opts, q_opts, d_opts):
        base = get_base(subject, mult, sched)
        nS, nQ, nF = base["delivered"], sum(base["tx"]), len(base["frames"])
        for opt in s_opts:
            items.extend(("conn", subject, mult, sched, ("S",) + opt, lo, hi) for lo, hi in chunked(nS, STEP))
        for opt in q_opts:
            items.extend(("conn", subject, mult, sched, ("Q", opt), lo, hi) for lo, hi in chunked(nQ, STEP))
        for opt in d_opts:
            items.append(("conn", subject, mult, sched, ("D", opt), 0, nF))

    if quick:
        for mult in (0, 100):
            conn_items("pipeline", mult, "eager", [("eof", "whole"), ("stall", "whole"), ("eof", "byte")], ["swallow"], ["whole"])
        conn_items("synchronous", 0, "eager", [("eof", "whole"), ("stall", "whole")], [], ["whole"])
        conn_items("pipeline", 0, "lazy", [("stall", "whole")], [], [])
        conn_items("pipeline", 0, "eager", [], ["error"], [])
        conn_items("operate3", 0, "eager", [("eof", "whole"), ("stall", "whole")], [], ["whole"])
        conn_items("operate0", 0, "eager", [("eof", "whole"), ("stall", "whole")], [], ["whole"])
    else:
        for subject in SUBJECTS:
            for mult in (0, 100):
                conn_items(subject, mult, "eager", [(t, m) for t in ("eof", "stall") for m in ("whole", "byte")],
                           ["swallow", "error"], ["whole", "byte"])
        for mult in (0, 100):
            conn_items("pipeline", mult, "lazy", [(t, m) for t in ("eof", "stall") for m in ("whole", "byte")], ["swallow"], ["whole"])

    # ---- proxy: fault-free recording of one use gives the stream lengths of a fresh gateway
    def proxy_items(depth, mult, s_opts, q_opts, d_opts):
        bad, obs = run_proxy(depth, mult, "eager", [], 1)
        if bad or obs["uses"][0]["exc"] or obs["uses"][0]["values"] != K:
            raise RuntimeError("fault-free proxy baseline wrong: %r %r" % (bad, obs))
        nS, frames, tx = obs["streams"][0]
        for opt in s_opts:
            items.extend(("proxy", depth, mult, "eager", ("S",) + opt, lo, hi) for lo, hi in chunked(nS, STEP // 2))
        for opt in q_opts:
            items.extend(("proxy", depth, mult, "eager", ("Q", opt), lo, hi) for lo, hi in chunked(sum(tx), STEP // 2))
        for opt in d_opts:
            items.append(("proxy", depth, mult, "eager", ("D", opt), 0, len(frames)))
        return frames, tx

    if quick:
        frames, tx = proxy_items(3, 0, [("eof", "whole"), ("stall", "whole")], [], ["whole"])
        proxy_items(3, 100, [("eof", "whole")], [], ["whole"])
        proxy_items(0, 0, [("eof", "whole")], [], ["whole"])
    else:
        frames, tx = proxy_items(3, 0, [(t, m) for t in ("eof", "stall") for m in ("whole", "byte")], ["swallow", "error"], ["whole"])
        proxy_items(3, 100, [(t, m) for t in ("eof", "stall") for m in ("whole", "byte")], ["swallow"], ["whole"])
        proxy_items(0, 0, [("eof", "whole"), ("stall", "whole")], ["swallow"], ["whole"])

    # ---- sequences of faults, then a healthy connection
    full = reduced_menu(frames, tx, "full")
    medium = full[::2] + ([] if {"refuse": True} in full[::2] else [{"refuse": True}])
    small = reduced_menu(frames, tx, "small")
    pair_menu = small if quick else medium
    pairs = [(a, b) for a in pair_menu for b in pair_menu]
    for lo, hi in chunked(len(pairs), 12):
        items.append(("multi", "proxy", 3, 0, pairs[lo:hi]))
    if not quick:
        tri_menu = small[::2]
        triples = [(a, b, c) for a in tri_menu for b in tri_menu for c in tri_menu]
        for lo, hi in chunked(len(triples), 10):
            items.append(("multi", "proxy", 3, 0, triples[lo:hi]))
    poll_single = [(f,) for f in (small if quick else medium)]
    poll_pairs = [(a, b) for a in small[::4] for b in small[::4]] if quick else [(a, b) for a in small for b in small]
    seqs = poll_single + poll_pairs
    for lo, hi in chunked(len(seqs), 6):
        items.append(("multi", "poll", 3, 0, seqs[lo:hi]))
    acc = ctx.pmap(__name__, "shard", items)
    acc.note("fault-free streams: %s" % ", ".join("%s/m%d/%s S=%d Q=%d frames=%d" % (k[0], k[1], k[2], v["delivered"], sum(v["tx"]), len(v["frames"]))
                                                   for k, v in sorted(_base.items())))
    acc.note("menus: pairs over %d faults, poll over %d sequences" % (len(pair_menu), len(seqs)))
    return acc


def guards(acc, ctx):
    g = []
    from mc import core
    known = core.load_known(ID)
    if any(core.match_known(known, v) is None for v in acc.violations):
        return g          # vacuity guards protect a silent run; a run that reports new violations is not vacuous (and a
                          # violating tree may legitimately never produce some of the outcomes below)
    o = acc.outcomes
    need = ["conn:pipeline:error:0-results", "conn:pipeline:error:2-results", "conn:pipeline:error:4-results",
            "fault:eof-between-frames", "fault:eof-inside-frame", "fault:timeout-between-frames", "fault:timeout-inside-frame",
            "proxy:use0:error", "proxy:use1:ok", "proxy:reconnected", "multi:poll:recovered"]
    for k in need:
        if not o.get(k):
            g.append("outcome %s never observed" % k)
    if not any(k.startswith("multi:proxy:connections=3") for k in o):
        g.append("no fault pair ever needed three connections")
    if not any(k.startswith("multi:poll:failures=2") for k in o):
        g.append("poll.run never failed twice before recovering")
    if acc.n_nontrivial < (1500 if ctx.quick else 15000):
        g.append("only %d runs in which a fault took effect" % acc.n_nontrivial)
    return g


def replay(case):
    quiet_unraisable()
    if case["what"] == "conn":
        base = get_base(case["subject"], case["mult"], case["sched"])
        plan = dict(case["plan"])
        obs = run_connector(case["subject"], case["mult"], case["sched"], plan)
        return [m for _, m in judge_connector(case["subject"], case["mult"], plan, obs, base)]
    if case["what"] == "proxy":
        bad, _ = run_proxy(case["depth"], case["mult"], case["sched"], [dict(p) for p in case["plans"]], case["uses"])
        return [m for _, m in bad]
    bad, _ = run_poll(case["mult"], [dict(p) for p in case["plans"]])
    return [m for _, m in bad]


def preload():
    """import the code under test once in the (pristine) worker; shard children are forked from it"""
    from mc import sim as _sim
    _sim.mods()
