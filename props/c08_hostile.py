"""C08 -- malformed or hostile input cannot hang, crash or corrupt the simulator (E-env: fault enumeration).

Subject: the real main.enip_srv_tcp loop run through the production per-connection wrapper network.server_thread.run,
under a scripted recv(); work is measured deterministically as the number of Python calls the server thread makes.
Hostile inputs: the COMPLETE one-edit neighbourhood of every kind of valid frame (every byte x a substitution
alphabet, every deletion, every insertion, every truncation, every length/count/offset/size field from the reference
codec's field map x {0,1,true-1,true+1,2*true,max}; truncations by 1..8 bytes at the end of every region a length field measures
with all enclosing lengths adjusted; thorough: all pairs of such field edits), all inputs of length <= 2,
all 24-byte headers over boundary command/length values -- each placed at several points of a session and followed
by probes on the same connection, on a parked older session and on a new session.
Datagram service: the real main.enip_srv_udp loop under a scripted recvfrom() (mc.sim.run_udp); one hostile datagram from peer A
(one-edit neighbourhood of 4 valid datagrams, 1..24 surplus bytes after a complete frame, all 1-byte and 256 2-/24-byte
datagrams) followed by valid datagrams from peer B and from A, whose replies must equal those of a fresh simulator.
"""
import itertools
import struct

from mc import refcip as R, sim, wire as W

ID = "C08"
LEVEL = "fault_enumeration"
ISOLATE_SHARDS = True        # every shard runs in a forked child of a pristine worker (mc/core.py)
RULE = ("one-edit (thorough: also two-field-edit) neighbourhood of 15 kinds of valid frame + all strings of length <= 2 + boundary "
        "headers, x placements in a session; oracle: bounded steps (Python calls of the server thread <= K*(bytes+1), K = 4 x the "
        "largest per-byte cost seen on valid traffic), nothing escapes the connection runner, connection answered or closed, store "
        "unchanged unless the input contains a frame the reference decoder accepts as a well-formed write, other sessions correct. "
        "datagram service (enip_srv_udp): the same neighbourhoods of 4 valid datagrams + 1..24 surplus bytes, each followed by valid "
        "datagrams of two peers that must be answered exactly as on a fresh simulator. "
        "non-trivial = distinct hostile inputs that differ from every valid seed")
BOUNDS = {
    "quick": "7 seed frames; substitution alphabet {00,FF,b^01,b^80}; all deletions, insertions of 00, truncations; all length-field "
             "edits; placements {after Register, after Forward Open}; all inputs of length <= 1 and 2-byte inputs with both bytes "
             "in a 12-value set; headers over 9 commands x 4 lengths",
    "thorough": "15 seed frames; substitution alphabet {00,01,7F,80,FE,FF,b^01,b^80,b+1,b-1}; insertions of 00/FF; all pairs of "
                "length-field edits; 4 placements; all inputs of length <= 2; headers over 16 commands x 5 lengths",
}
ASSUMPTIONS = ["'any byte sequence whatsoever' is covered as (all very short strings) U (the complete 1-edit, and for length fields 2-edit, "
               "neighbourhood of every kind of valid frame); long random strings would be sampling and are not part of the run",
               "the step bound is over Python-level calls of the server thread (a deterministic proxy for time)"]

CFG = (("a", "INT", 4, None), ("b", "DINT", 2, "0x401/1/1"))
ADDR = ("127.0.0.1", 10001)
SESSION = 0x1000
CONN_T_O = 0x1A2B3C4D


WRITE_REQUESTS = {}      # seed name -> encoded write request(s) inside it (filled by seeds())


def seeds(tier):
    """name -> (frame bytes, [(field, start, end, kind)] length-like fields, needs_forward_open)"""
    a = R.symbolic("a")
    WRITE_REQUESTS.update({
        "rr_write": [R.write_tag(a, R.INT, [1, 2, 3])],
        "rr_write_wrapped": [R.write_tag(R.symbolic("a", 1), R.INT, [9])],
        "rr_bundle": [R.write_tag(a, R.INT, [5, 5])],
        "unit_write": [R.write_tag(a, R.INT, [4, 4])],
        "rr_write_frag": [R.write_frag(a, R.INT, [6], 4, 4)],
    })
    rp = [{"port": 1, "link": 0}]
    out = {}

    def add(name, pair, fo=False):
        b, fm = pair
        out[name] = (b, fm.lengths(), fo)

    add("register", R.register(fmap=True))
    add("rr_write", R.send_rr_data(SESSION, R.write_tag(a, R.INT, [1, 2, 3]), fmap=True))
    add("rr_write_wrapped", R.send_rr_data(SESSION, R.write_tag(R.symbolic("a", 1), R.INT, [9]), route_path=rp, fmap=True))
    add("rr_bundle", R.send_rr_data(SESSION, R.multiple([R.read_tag(a, 2), R.write_tag(a, R.INT, [5, 5])]), fmap=True))
    add("rr_sas", R.send_rr_data(SESSION, R.set_attribute_single(R.logical(0x401, 1, 1), struct.pack("<ii", 7, 8)), fmap=True))
    add("rr_fwd_open", R.send_rr_data(SESSION, R.forward_open(T_O_connection_ID=CONN_T_O), fmap=True))
    add("unit_write", R.send_unit_data(SESSION, 0, 1, R.write_tag(a, R.INT, [4, 4]), fmap=True), fo=True)
    if tier != "quick":
        add("list_services", R.list_services(fmap=True))
        add("list_identity", R.list_identity(fmap=True))
        add("rr_read", R.send_rr_data(SESSION, R.read_tag(a, 4), fmap=True))
        add("rr_read_frag", R.send_rr_data(SESSION, R.read_frag(a, 4, 2), route_path=rp, fmap=True))
        add("rr_write_frag", R.send_rr_data(SESSION, R.write_frag(a, R.INT, [6], 4, 4), route_path=[], fmap=True))
        add("rr_gas", R.send_rr_data(SESSION, R.get_attribute_single(R.logical(2, 1, 1)), fmap=True))
        add("rr_fwd_open_large", R.send_rr_data(SESSION, R.forward_open(T_O_connection_ID=CONN_T_O, large=True, O_T_NCP=0x42000FA0,
                                                                        T_O_NCP=0x42000FA0), fmap=True))
        add("rr_fwd_close", R.send_rr_data(SESSION, R.forward_close(), fmap=True), fo=True)
        add("unregister", R.unregister(SESSION, fmap=True))
    return out


def edits(seed, lengths, tier):
    """yields (label, hostile bytes) -- every single edit; dedup is done by the caller"""
    n = len(seed)
    for i in range(n):
        b = seed[i]
        subs = {0x00, 0xFF, b ^ 0x01, b ^ 0x80}
        if tier != "quick":
            subs |= {0x01, 0x7F, 0x80, 0xFE, (b + 1) & 0xFF, (b - 1) & 0xFF}
        for v in sorted(subs - {b}):
            yield ("sub", i, v), seed[:i] + bytes([v]) + seed[i + 1:]
        yield ("del", i), seed[:i] + seed[i + 1:]
        yield ("ins", i, 0), seed[:i] + b"\x00" + seed[i:]
        if tier != "quick":
            yield ("ins", i, 255), seed[:i] + b"\xff" + seed[i:]
        if i:
            yield ("trunc", i), seed[:i]
    fields = field_edits(seed, lengths)
    for lab, data in fields:
        yield lab, data
    for lab, data in consistent_truncations(seed, lengths):
        yield lab, data
    if tier != "quick":
        for (la, (s1, e1, v1)), (lb, (s2, e2, v2)) in itertools.combinations(raw_field_edits(seed, lengths), 2):
            if la[1] == lb[1]:
                continue
            d = bytearray(seed)
            d[s1:e1] = v1
            d[s2:e2] = v2
            yield ("field2", la[1], la[2], lb[1], lb[2]), bytes(d)


def consistent_truncations(seed, lengths):
    """Truncation at an inner nesting level with every ENCLOSING level kept consistent: the last k bytes of the region a length field
    measures are removed and every length field whose region contains them is decremented by k -- the frame, the CPF item and any
    wrapper still add up; only the innermost structure (a bundle member, a value list, a path) comes up short."""
    regions = []
    for name, s, e, kind in lengths:
        if kind != "len":
            continue
        v = int.from_bytes(seed[s:e], "little")
        start = 24 if (s, e) == (2, 4) else e
        if v and start + v <= len(seed):
            regions.append((name, s, e, start, start + v))
    for name, s, e, start, end in regions:
        for k in range(1, min(8, end - start) + 1):
            d = bytearray(seed[:end - k] + seed[end:])
            for _n2, s2, e2, start2, end2 in regions:
                if start2 <= end - k and end <= end2:
                    v2 = int.from_bytes(seed[s2:e2], "little") - k
                    d[s2:e2] = v2.to_bytes(e2 - s2, "little")
            yield ("ctrunc", name, k, end), bytes(d)


def raw_field_edits(seed, lengths):
    out = []
    for name, s, e, kind in lengths:
        w = e - s
        true = int.from_bytes(seed[s:e], "little")
        top = (1 << (8 * w)) - 1
        for v in sorted({0, 1, max(true - 1, 0), min(true + 1, top), min(2 * true, top), top} - {true}):
            out.append((("field", name, v), (s, e, v.to_bytes(w, "little"))))
    return out


def field_edits(seed, lengths):
    for lab, (s, e, vb) in raw_field_edits(seed, lengths):
        d = bytearray(seed)
        d[s:e] = vb
        yield lab, bytes(d)


# ------------------------------------------------------------------------------------------------------
def contains_wellformed_write(data):
    """Does the hostile byte string contain a complete frame that the reference decoder accepts as a well-formed request able to
    write (Write Tag [Fragmented], Set Attribute Single, or a bundle containing one)?"""
    try:
        frames, rest = R.split_frames(data)
    except Exception:
        frames = []
        # fall back: walk frames by header length
        try:
            b = data
            while len(b) >= 24:
                ln = struct.unpack_from("<H", b, 2)[0]
                if len(b) < 24 + ln:
                    break
                frames.append(b[:24 + ln])
                b = b[24 + ln:]
        except Exception:
            pass

    def writes(cip):
        if cip is None:
            return False
        svc = cip.get("service")
        if svc in (0x4D, 0x53, 0x10):
            return True
        if svc == 0x0A:
            return any(writes(m) for m in cip.get("requests", []))
        return False

    for f in frames:
        fb = f if isinstance(f, (bytes, bytearray)) else None
        try:
            d = R.decode_request_frame(fb) if fb is not None else f
        except Exception:
            continue
        try:
            if writes(d.get("cip")):
                return True
        except Exception:
            continue
    return False


TAG_TYPES = {"a": (R.INT, 4), "b": (R.DINT, 2)}


def explained_by_embedded_write(delivered, base_store, store):
    """Lenient reading of 'complete, well-formed write request': the store change is acceptable if every changed element now holds
    a value carried by SOME contiguous substring of the delivered bytes that the reference decoder accepts as a complete,
    well-formed CIP write request (Write Tag [Fragmented] of the tag's own or a compatible type, Set Attribute Single carrying
    exactly the attribute's size, or a bundle of those) -- the simulator may be lenient about the wrapping around it."""
    changed = {}
    for (n, old), (_, new) in zip(base_store, store):
        for i, (o, v) in enumerate(zip(old, new)):
            if o != v:
                changed.setdefault(n, set()).add(v)
    if not changed:
        return True
    carried = set()

    def harvest(d):
        svc = d.get("service")
        if svc in (0x4D, 0x53) and isinstance(d.get("data"), list):
            carried.update(v for v in d["data"] if isinstance(v, int) and not isinstance(v, bool))
        elif svc == 0x10 and isinstance(d.get("data"), (bytes, bytearray)):
            raw = bytes(d["data"])
            for fmt, n in (("<h", 4), ("<i", 2)):
                sz = struct.calcsize(fmt)
                if len(raw) == sz * n:
                    carried.update(struct.unpack_from(fmt, raw, k * sz)[0] for k in range(n))
        elif svc == 0x0A:
            for m in d.get("requests", []):
                if isinstance(m, dict):
                    harvest(m)

    n = len(delivered)
    starts = [i for i in range(n) if delivered[i] in (0x4D, 0x53, 0x10, 0x0A)]
    for i in starts:
        for j in range(i + 6, min(n, i + 80) + 1):
            try:
                d = R.dec_request(delivered[i:j])
            except Exception:
                continue
            harvest(d)
    return all(vals <= carried for vals in changed.values())


_K = {}


def step_budget():
    """K = 4 x the largest per-byte step cost over valid traffic (measured once per process, deterministic)."""
    if "K" in _K:
        return _K["K"]
    worst = 0.0
    sd = seeds("thorough")
    S = sim.Sim(CFG)
    ss = sim.Session(S, ADDR, count_steps=True, runner=True)
    before = ss.steps
    ss.feed(sd["register"][0])
    worst = max(worst, (ss.steps - before) / (len(sd["register"][0]) + 1))
    for name in ("rr_read", "rr_write", "rr_bundle", "rr_write_wrapped", "rr_fwd_open", "rr_gas", "list_identity", "list_services", "rr_sas"):
        before = ss.steps
        ss.feed(sd[name][0])
        worst = max(worst, (ss.steps - before) / (len(sd[name][0]) + 1))
    before = ss.steps
    ss.close()
    _K["K"] = int(4 * worst) + 1
    _K["base"] = 4 * max(ss.steps - before, 2000) + 20000      # constant part: session start + termination handling
    return _K["K"]


_effect = {}


def seed_effect(name, tier, placement):
    """The store a valid, unmutated seed frame leaves behind in this placement (what 'the write this frame spells' does)."""
    key = (name, placement)
    if key not in _effect:
        data, lengths, fo = seeds("thorough")[name]
        bad, store = run_hostile(data, placement, need_fo=fo, probes=False, want_store=True)
        if bad:
            raise RuntimeError("harness: valid seed %s violates the oracle: %r" % (name, bad))
        _effect[key] = store
    return _effect[key]


TIER_OF_RUN = ["quick"]
_poisoned = [False]      # a server thread of this worker process is stuck for good (holding a class-level parser lock)


def cuts_a_write(seedname, seed, lo, hi):
    """bytes [lo,hi) removed from `seed` lie inside the bytes of the seed's write request, and what remains of that request is
    refused by the reference decoder (cut in mid-value or in its header): the only request of the frame able to write is then
    not a complete, well-formed write request"""
    for w in WRITE_REQUESTS.get(seedname, ()):
        pos = seed.find(w)
        if pos < 0 or not (pos <= lo and hi <= pos + len(w)):
            continue
        rest = w[:lo - pos] + w[hi - pos:]
        try:
            R.dec_request(rest)
        except Exception:
            return True
    return False


def run_hostile(hostile, placement, need_fo=False, probes=True, allowed=(), want_store=False, no_change=False):
    try:
        return _run_hostile(hostile, placement, need_fo, probes, allowed, want_store, no_change)
    except sim.SessionHang as exc:
        _poisoned[0] = True
        bad = [("hang", "after %d hostile bytes in placement %r a session of the simulator stopped responding: %s"
                % (len(hostile), placement, exc))]
        return (bad, None) if want_store else bad


def _run_hostile(hostile, placement, need_fo=False, probes=True, allowed=(), want_store=False, no_change=False):
    """Place `hostile` in a session; returns [(kind,msg)].  allowed: stores that are acceptable besides 'unchanged' (the effect
    of the valid frame the hostile input was derived from: a lenient parser may still perform exactly that write)."""
    bad = []
    K = step_budget()
    S = sim.Sim(CFG)
    older = None
    if probes:
        older = sim.Session(S, ("127.0.0.1", 10009), wait_timeout=25)
        S.rnd.script = [0x2000]
        older.feed(W.register(b"ctx-oldr"))
    cap = 40 * (K * (len(hostile) + 400) + _K["base"])
    ss = sim.Session(S, ADDR, count_steps=True, step_cap=cap, runner=True, wait_timeout=25)
    fed = 0
    conn_id = 0
    pre = []
    if placement in ("registered", "connected", "between"):
        pre.append(W.register(b"ctx-regi"))
    fo_index = None
    if placement == "connected" or need_fo:
        if not pre:
            pre.append(W.register(b"ctx-regi"))
        fo_index = len(pre)
        pre.append(R.send_rr_data(SESSION, R.forward_open(T_O_connection_ID=CONN_T_O)))
    if placement == "between":
        pre.append(W.send_rr_data(SESSION, W.write_tag(W.tag_path("a"), W.INT, [1, 1, 1, 1]), b"ctx-wr-a"))
    for fi, f in enumerate(pre):
        r = ss.feed(f)
        fed += len(f)
        if fi == fo_index:
            try:
                conn_id = R.decode_reply_frame(r[0])["cip"]["O_T_connection_ID"]
            except Exception as exc:
                # the preamble is valid traffic on a fresh session: if it is not served, an EARLIER input broke the simulator
                bad.append(("valid-traffic-broken", "a valid Register + Forward Open on a new session is no longer answered properly "
                            "(replies %r: %s: %s) -- state left behind by earlier input in this process" % (r, type(exc).__name__, exc)))
                return (bad, None) if want_store else bad
    if need_fo and conn_id:
        # patch the connection id of a unit-data seed so the *unmutated* seed would be valid here
        hostile = patch_conn(hostile, conn_id)
    base_store = S.store()
    steps0 = ss.steps
    sent0 = len(ss.conn.sent)
    if ss.alive:
        ss.feed(hostile)
        fed += len(hostile)
    # a valid probe on the same connection (it may be swallowed as payload of a hostile header -- not an error)
    probe = W.send_rr_data(SESSION, W.read_tag(W.tag_path("b"), 2), b"ctx-prob")
    if ss.alive:
        ss.feed(probe)
    if ss.alive:
        ss.feed(None)
    if ss.alive:
        ss.feed(b"")
        guard = 0
        while ss.alive and guard < 10:
            ss.feed(b"")
            guard += 1
    used = ss.steps - steps0
    budget = K * (len(hostile) + 80) + _K["base"]
    if isinstance(ss.exc, sim.StepBudgetExceeded):
        bad.append(("hang", "server thread aborted after %d steps on %d hostile bytes (budget %d): no termination in bounded time"
                    % (ss.steps - steps0, len(hostile), budget)))
    elif ss.alive:
        bad.append(("eof-not-honoured", "connection still being served after EOF"))
    elif used > budget:
        bad.append(("superlinear-work", "%d steps for %d hostile bytes exceeds the linear budget %d (K=%d per byte)"
                    % (used, len(hostile), budget, K)))
    if ss.exc is not None and not isinstance(ss.exc, sim.StepBudgetExceeded):
        bad.append(("escaped-connection-runner", "%s: %s escaped network.server_thread.run" % (type(ss.exc).__name__, ss.exc)))
    if not ss.alive and not ss.conn.closed:
        bad.append(("connection-not-closed", "server loop ended without closing the connection"))
    store = S.store()
    if no_change and store != base_store and not want_store:
        # the frame's write request was cut short (all enclosing lengths consistent) and the reference decoder refuses what is left
        # of it: the only request able to write is not a complete, well-formed write
        bad.append(("store-changed-by-truncated-request", "store %r -> %r after a frame whose innermost request was cut short "
                    "(enclosing lengths consistent; the reference decoder refuses what is left of the write request)" % (base_store, store)))
    elif store != base_store and store not in allowed and not want_store and not contains_wellformed_write(hostile + probe) \
            and not explained_by_embedded_write(hostile + probe, base_store, store):
        bad.append(("store-changed-by-malformed-input", "store %r -> %r: not the effect of the valid frame this input was derived from "
                    "(%r), and the delivered bytes (input + following valid frame) contain no well-formed write request" % (base_store, store, list(allowed))))
    M = sim.mods()
    if probes:
        want_a, want_b = list(dict(store)["a"]), list(dict(store)["b"])
        new = sim.Session(S, ("127.0.0.1", 10010), wait_timeout=25)
        rn = new.feed(W.register(b"ctx-new-"))
        same = sim.Session(S, ADDR, wait_timeout=25)          # a client reconnecting from the very same address and port
        rs = same.feed(W.register(b"ctx-same")) if same.alive else []
        if not rs and not same.alive:
            bad.append(("other-session-broken", "a new session from the same peer address was closed by the server unserved"))
        for who, sess, first in (("older", older, older.conn.sent[0]), ("new", new, rn[0] if rn else None),
                                 ("same-peer", same, rs[0] if rs else None)):
            if who == "same-peer" and not same.alive:
                continue
            try:
                handle = W.split_frames(first)[0]["session"]
                rr = sess.feed(W.send_rr_data(handle, W.read_tag(W.tag_path("a"), 4), b"ctx-prba"))
                va = W.dec_read_reply(W.dec_send_data(W.split_frames(b"".join(rr))[0])["cip"])["values"]
                rr = sess.feed(W.send_rr_data(handle, W.write_tag(W.tag_path("b", 1), W.DINT, [want_b[1]]), b"ctx-prbw"))
                st = W.dec_reply(W.dec_send_data(W.split_frames(b"".join(rr))[0])["cip"])["status"]
                if va != want_a or st != 0:
                    bad.append(("other-session-wrong", "%s session after hostile input: read a -> %r (store %r), write status %r"
                                % (who, va, want_a, st)))
            except Exception as exc:
                bad.append(("other-session-broken", "%s session failed after hostile input: %s: %s" % (who, type(exc).__name__, exc)))
        older.close()
        new.close()
        same.close()
        # (observation, not demanded by the statement: a connection that ends in a *parse* failure never gives the Connection
        #  Manager its termination call, so its Forward Open entry stays in Connection_Manager.forwards -- see DESIGN.md)
    if want_store:
        return bad, store
    return bad


# ------------------------------------------------------------------------------------------------------
# datagram service (main.enip_srv_udp): one socket serves every peer, so what one peer's datagram leaves behind is what the
# next peer's datagram meets.  script = [hostile from peer A] + [valid datagrams from peer B and from A]
UDP_A, UDP_B = ("10.0.0.1", 1111), ("10.0.0.2", 2222)
_udp = {}


def udp_seeds():
    a = R.symbolic("a")
    out = {}
    for name, pair in (("list_identity", R.list_identity(fmap=True)), ("list_services", R.list_services(fmap=True)),
                       ("register", R.register(fmap=True)),
                       ("rr_write", R.send_rr_data(SESSION, R.write_tag(a, R.INT, [1, 2, 3]), fmap=True))):
        out[name] = (pair[0], pair[1].lengths())
    return out


def udp_probes():
    return [(R.list_identity(), UDP_B), (R.list_services(), UDP_A), (R.list_identity(), UDP_A)]


def udp_baseline():
    """what the valid probe datagrams are answered on a simulator that has seen nothing else + the per-byte step cost of valid datagrams"""
    if "base" not in _udp:
        S = sim.Sim(CFG)
        r = sim.run_udp(S, udp_probes(), step_cap=10 ** 7)
        if r["escaped"] or r["blown"] or len(r["sent"]) != 3:
            raise RuntimeError("harness: valid datagrams are not served: %r" % (r,))
        _udp["base"] = [(rpy, to) for _i, rpy, to in r["sent"]]
        worst = 0.0
        for name, (data, _l) in udp_seeds().items():
            S = sim.Sim(CFG)
            rr = sim.run_udp(S, [(data, UDP_A)], step_cap=10 ** 7)
            worst = max(worst, rr["steps"][0] / (len(data) + 1))
        _udp["K"] = int(4 * worst) + 1
        _udp["const"] = 4 * max(r["steps"]) + 20000
    return _udp


def run_udp_hostile(hostile, allowed=()):
    bad = []
    u = udp_baseline()
    S = sim.Sim(CFG)
    base_store = S.store()
    budget = u["K"] * (len(hostile) + 80) + u["const"]
    r = sim.run_udp(S, [(hostile, UDP_A)] + udp_probes(), step_cap=40 * budget)
    if r["escaped"]:
        bad.append(("udp:escaped-datagram-loop", "%s left enip_srv_udp: the datagram service is down" % r["escaped"]))
    if r["blown"]:
        bad.append(("udp:hang", "datagram service aborted after %d steps on a %d-byte datagram (budget %d)" % (max(r["steps"]), len(hostile), budget)))
    elif r["steps"][0] > budget:
        bad.append(("udp:superlinear-work", "%d steps for a %d-byte datagram exceeds the linear budget %d" % (r["steps"][0], len(hostile), budget)))
    own = [(rpy, to) for i, rpy, to in r["sent"] if i == 0]
    if len(own) > 1 or any(to != UDP_A for _r, to in own):
        bad.append(("udp:hostile-datagram-replies", "one datagram from %r produced replies %r" % (UDP_A, own)))
    for k, (want, to) in enumerate(u["base"]):
        got = [(rpy, t) for i, rpy, t in r["sent"] if i == k + 1]
        if got != [(want, to)]:
            bad.append(("udp:other-datagram-wrong", "valid datagram #%d from %r after the hostile one: replies %r, on a fresh simulator %r"
                        % (k + 1, to, [(g.hex(), t) for g, t in got], (want.hex(), to))))
            break
    store = S.store()
    if store != base_store and store not in allowed and not contains_wellformed_write(hostile) \
            and not explained_by_embedded_write(hostile, base_store, store):
        bad.append(("store-changed-by-malformed-input", "datagram: store %r -> %r and the datagram contains no well-formed write request"
                    % (base_store, store)))
    return bad


def udp_seed_effect(name):
    if ("effect", name) not in _udp:
        S = sim.Sim(CFG)
        sim.run_udp(S, [(udp_seeds()[name][0], UDP_A)], step_cap=10 ** 7)
        _udp[("effect", name)] = S.store()
    return _udp[("effect", name)]


def udp_inputs(name, tier):
    data, lengths = udp_seeds()[name]
    for label, hostile in edits(data, lengths, tier):
        yield label, hostile
    # a datagram longer than the frame it carries: 1..24 surplus bytes (a whole header's worth) of three kinds
    for n in range(1, 25):
        for fill in (b"\x00", b"\xff", data):
            yield ("surplus", n, fill[0]), data + (fill * 24)[:n]


def patch_conn(frame, conn_id):
    """SendUnitData seed: connection id lives at payload offset 6+2+4 = frame offset 36..40"""
    if len(frame) >= 40 and frame[0:2] == b"\x70\x00":
        return frame[:36] + struct.pack("<I", conn_id) + frame[40:]
    return frame


def shard(acc, item, tier, seed, stop_at=None):
    """stop_at: replay mode (run this shard's inputs in order up to and including input number stop_at, in a fresh process)"""
    what = item[0]
    counter = [0]
    real_violation = acc.violation

    def violation(kind, case, msg):
        case = dict(case)
        case["tier"] = tier
        case["shard"] = list(item)
        case["upto"] = counter[0]
        real_violation(kind, case, msg)

    acc.violation = violation
    try:
        _shard(acc, item, tier, seed, stop_at, counter)
    finally:
        del acc.violation


def _shard(acc, item, tier, seed, stop_at, counter):
    what = item[0]
    if _poisoned[0]:
        acc.count("shards_skipped_in_a_worker_with_a_stuck_server_thread")
        return
    if what == "seed":
        _, name, placement, k, K = item
        data, lengths, fo = seeds(tier)[name]
        allowed = (seed_effect(name, tier, placement),)
        seen = set()
        n = 0
        for label, hostile in edits(data, lengths, tier):
            if hostile in seen or hostile == data:
                continue
            seen.add(hostile)
            n += 1
            if n % K != k:
                continue
            counter[0] += 1
            if stop_at is not None and counter[0] > stop_at:
                return
            acc.ev()
            acc.ntc()
            acc.outcome(label[0])
            # a consistent inner truncation that cuts the seed's (only) write request in mid-value or in its header: nothing may change
            no_change = label[0] == "ctrunc" and cuts_a_write(name, data, label[3] - label[2], label[3])
            if no_change:
                acc.outcome("ctrunc-cuts-the-write")
            bad = run_hostile(hostile, placement, need_fo=fo, probes=True, allowed=allowed, no_change=no_change)
            for kk, m in bad:
                acc.violation(kk, {"hostile": hostile, "placement": placement, "fo": fo, "label": list(label), "seed": name,
                                   "no_change": no_change}, m)
            if _poisoned[0]:
                return
        acc.sample({"hostile": data[:20] + b"\xff" + data[21:], "placement": placement, "fo": fo, "seed": name})
    elif what == "udp":
        _, name, k, K = item
        allowed = (udp_seed_effect(name),)
        data = udp_seeds()[name][0]
        seen = set()
        n = 0
        for label, hostile in udp_inputs(name, tier):
            if hostile in seen or hostile == data:
                continue
            seen.add(hostile)
            n += 1
            if n % K != k:
                continue
            counter[0] += 1
            if stop_at is not None and counter[0] > stop_at:
                return
            acc.ev()
            acc.ntc()
            acc.outcome("udp:" + label[0])
            for kk, m in run_udp_hostile(hostile, allowed):
                acc.violation(kk, {"hostile": hostile, "udp": True, "seed": name, "label": list(label)}, m)
        if k == 0:
            for a in range(256):
                for hostile in (bytes([a]), bytes([a, 0]), bytes([a]) * 24):
                    counter[0] += 1
                    if stop_at is not None and counter[0] > stop_at:
                        return
                    acc.ev()
                    acc.ntc()
                    acc.outcome("udp:short")
                    for kk, m in run_udp_hostile(hostile):
                        acc.violation(kk, {"hostile": hostile, "udp": True, "seed": None}, m)
        acc.sample({"hostile": data + b"\x00", "udp": True, "seed": name})
    elif what == "short":
        _, first_bytes, second = item
        for a in first_bytes:
            cases = [bytes([a])] + [bytes([a, b]) for b in second]
            for hostile in cases:
                counter[0] += 1
                if stop_at is not None and counter[0] > stop_at:
                    return
                acc.ev()
                acc.ntc()
                acc.outcome("short")
                for placement in ("fresh", "registered"):
                    for kk, m in run_hostile(hostile, placement, probes=(a % 16 == 0)):
                        acc.violation(kk, {"hostile": hostile, "placement": placement, "fo": False, "seed": "short"}, m)
        acc.sample({"hostile": bytes([first_bytes[0]] + list(second[:1])), "placement": "fresh", "fo": False, "seed": "short"})
    elif what == "headers":
        _, cmds, lens = item
        for c in cmds:
            for ln in lens:
                for sess in (0, SESSION):
                    hostile = struct.pack("<HHII", c, ln, sess, 0) + b"hdr-ctx." + b"\x00" * 4
                    counter[0] += 1
                    if stop_at is not None and counter[0] > stop_at:
                        return
                    acc.ev()
                    acc.ntc()
                    acc.outcome("header")
                    for placement in ("fresh", "registered"):
                        for kk, m in run_hostile(hostile, placement, probes=True):
                            acc.violation(kk, {"hostile": hostile, "placement": placement, "fo": False, "seed": "header"}, m)
        acc.sample({"hostile": struct.pack("<HHII", cmds[0], lens[-1], 0, 0) + b"\x00" * 12, "placement": "fresh", "fo": False, "seed": "header"})


def run(ctx):
    items = []
    sd = seeds(ctx.tier)
    placements = ["registered", "connected"] if ctx.quick else ["fresh", "registered", "connected", "between"]
    K = 6 if ctx.quick else 12
    for name in sd:
        for p in placements:
            for k in range(K):
                items.append(("seed", name, p, k, K))
    if ctx.quick:
        second = [0x00, 0x01, 0x04, 0x63, 0x65, 0x66, 0x6F, 0x70, 0x7F, 0x80, 0xFE, 0xFF]
        items.append(("short", second, second))
        items.append(("short", [b for b in range(256) if b not in second], []))
        cmds = [0x0000, 0x0001, 0x0004, 0x0063, 0x0065, 0x006F, 0x0070, 0x00FF, 0xFFFF]
        lens = [0, 1, 24, 0xFFFF]
    else:
        allb = list(range(256))
        for a in range(0, 256, 8):
            items.append(("short", allb[a:a + 8], allb))
        cmds = [0x0000, 0x0001, 0x0002, 0x0004, 0x0005, 0x0063, 0x0064, 0x0065, 0x0066, 0x006F, 0x0070, 0x0071, 0x00FF, 0x0100, 0x7FFF, 0xFFFF]
        lens = [0, 1, 4, 24, 0xFFFF]
    for c in cmds:
        items.append(("headers", [c], lens))
    for name in udp_seeds():
        for k in range(2):
            items.append(("udp", name, k, 2))
    return ctx.pmap(__name__, "shard", items)


def guards(acc, ctx):
    g = []
    for k in ("sub", "del", "ins", "trunc", "field", "ctrunc", "ctrunc-cuts-the-write", "short", "header", "udp:sub", "udp:trunc", "udp:surplus", "udp:short", "udp:field"):
        if not acc.outcomes.get(k):
            g.append("outcome %s never observed" % k)
    return g


def replay(case):
    if case.get("shard"):
        # re-run the whole shard prefix in this fresh process: state leaked by earlier inputs of the shard is reproduced
        from mc import core

        def tup(x):
            return tuple(tup(v) for v in x) if isinstance(x, list) else x
        acc = core.Acc()
        item = tup(case["shard"])
        if item[0] == "short":
            item = (item[0], list(item[1]), list(item[2]))
        elif item[0] == "headers":
            item = (item[0], list(item[1]), list(item[2]))
        shard(acc, item, "thorough" if case.get("tier") == "thorough" else TIER_OF_RUN[0], 0, stop_at=case["upto"])
        msgs = [v["msg"] for v in acc.violations if v["case"].get("upto") == case["upto"]]
        if msgs:
            return msgs
    if case.get("udp"):
        return [m for k, m in run_udp_hostile(case["hostile"], (udp_seed_effect(case["seed"]),) if case.get("seed") else ())]
    allowed = ()
    if case.get("seed") not in (None, "short", "header"):
        allowed = (seed_effect(case["seed"], "thorough", case["placement"]),)
    return [m for k, m in run_hostile(case["hostile"], case["placement"], need_fo=case.get("fo", False), probes=True, allowed=allowed,
                                      no_change=bool(case.get("no_change")))]


def preload():
    """import the code under test once in the (pristine) worker; shard children are forked from it"""
    from mc import sim as _sim
    _sim.mods()
