"""C07 -- a Multiple Service Packet is equivalent to its requests issued one by one (E-state).

From every state of the closed tag-store graph, every list of 1..N members over the member alphabet is run twice on the
real simulator: (a) as one Multiple Service Packet, (b) member by member; replies must be byte-identical member for
member, final stores identical, the bundle's own status 0 and its offset table exact (checked on the raw bytes by
mc.wire.dec_multiple_reply: first offset 2+2N, each next advanced by the previous message's length, last message ends
at the end of the data).  Stand-alone members are additionally judged by the array model.
"""
import itertools

from mc import explore, refmodel, wire as W
from props import tagstore as TS

ID = "C07"
LEVEL = "model_checking"
ISOLATE_SHARDS = True        # every shard runs in a forked child of a pristine worker (mc/core.py)
RULE = ("closed store graph of config tiny (a[2], s, b[1]@0x401/1/1; 2 values per element); from every state every list of "
        "1..N members over the member alphabet, run bundled and unbundled. non-trivial = distinct (state, list) with >= 2 "
        "members containing a write or a refused member")
BOUNDS = {
    "quick": "INT with the reply budget Logix.MAX_BYTES scaled down to 6 bytes (a whole tag just fits one fragment), lists of length 1..2; "
             "INT on the object seam: 15-member alphabet (incl. an attribute read of the Identity object), lists of length 1..3 (3615 lists) from all 16 states; SINT (1-byte elements: "
             "odd-length member replies) through whole frames (logix.process): lists of length 1..2",
    "thorough": "INT and REAL on the object seam with the 20-member alphabet, lists of length 1..3 (8420) from 16 states, length 4 "
                "over an 8-member sub-alphabet; SINT, LINT, SSTRING through whole frames, lists of length 1..3 over 10 members",
}
ASSUMPTIONS = [
    "a member that is unroutable stand-alone (unknown tag/object => encapsulation-level error, no CIP reply exists) is only "
    "required to carry a non-zero status inside the bundle, change nothing and leave its neighbours' replies intact",
]

_rig = {}


def members(typ, size):
    t = W.TYPE_CODE[typ]
    v = TS.VALS[typ]
    other = W.DINT if t != W.DINT else W.LINT
    other_v = TS.EDGE["DINT" if t != W.DINT else "LINT"][0]
    A = [
        ("raw", "Get Attribute Single of Identity product name @1/1/7 (a plain CIP object that is not a tag and does not route)",
         W.get_attribute_single(W.cia_path(1, 1, 7))),
        ("rd", ("sym", "a", None), 2),
        ("wt", ("sym", "a", None), t, (v[1], v[0]), None),
        ("rd", ("sym", "a", 1), 1),
        ("wt", ("sym", "a", 1), t, (v[1],), None),
        ("rd", ("sym", "a", 2), 1),                                   # refused: range
        ("wt", ("sym", "s", None), other, (other_v,), None),           # refused: type (or value not holdable)
        ("rd", ("sym", "nosuch", None), 1),                           # unknown tag
        ("wt", ("sym", "s", None), t, (v[1],), None),
        ("rf", ("sym", "a", None), 2, 0),
        ("wf", ("sym", "a", None), t, (v[0],), 2, 0),
        ("gas", ("cia", TS.CLS, 1, 1, None)),
        ("wt", ("cia", TS.CLS, 1, 1, None), t, (v[1],), None),
        ("wt", ("sym", "A", None), t, (v[0], v[0]), None),
        ("rd", ("sym", "s", None), 1),
    ]
    B = [
        ("wt", ("sym", "s", None), t, (v[0],), None),
        ("wt", ("cia", TS.CLS, 1, 1, None), t, (v[0],), None),
        ("rd", ("cia", 2, 1, 99, None), 1),                           # unknown attribute
        ("wt", ("sym", "a", None), t, (v[1],), 3),                    # refused: declared beyond the tag
        ("nested", (("rd", ("sym", "a", None), 2), ("wt", ("sym", "a", 1), t, (v[1],), None))),
        ("rd", ("cia", TS.CLS, 1, None, None), 1),
    ]
    if t in W.SIZE:
        B += [("sas", ("cia", 2, 1, 1, None), W.enc_values(t, (v[1], v[1]))),
              ("wf", ("sym", "a", None), t, (v[1],), 2, W.SIZE[t]),
              ("rf", ("sym", "a", None), 2, W.SIZE[t])]
    full = A + B
    return full[:size]


def encode(m):
    if m[0] == "raw":
        return bytes(m[2])
    if m[0] == "nested":
        return W.multiple([encode(x) for x in m[1]])
    return refmodel.encode_request(m)


def get_rig(cfgkey):
    """fresh simulator per state expansion (see props/c03_tags.get_rig)"""
    typ, variant, nvals, seam, via_main = cfgkey[:5]
    max_bytes = cfgkey[8] if len(cfgkey) > 8 else None      # scaled-down reply budget (Logix.MAX_BYTES): a bundle's members
    return TS.Rig(TS.config(typ, variant), seam=seam, via_main=via_main, max_bytes=max_bytes)   # must not eat into each other's


def exec_raw(rig, cip):
    if rig.seam == "cm":
        try:
            return rig.sim.cm(cip, rig.addr), None
        except Exception as exc:
            return None, "%s: %s" % (type(exc).__name__, exc)
    try:
        rpy, status, fr = rig.sim.rr(rig.session, cip, rig.addr, route_path=[("port", (1, 0))])
    except Exception as exc:
        return None, "logix.process raised %s: %s" % (type(exc).__name__, exc)
    if rpy is None:
        rig.renew_session()                            # the failed session ended; continue on a new one
        return None, "encapsulation status 0x%02x" % (status or 0)
    return rpy, None


def check_list(rig, state, lst):
    """-> (violations, final_state, had_write_or_refusal)"""
    bad = []
    bad += rig.seat(state)
    # (b) one by one, judged by the array model
    solo = []
    for m in lst:
        cip = encode(m)
        rpy, exc = exec_raw(rig, cip)
        if m[0] == "raw":
            if rig.state() != state and not any(x[0] in ("wt", "wf", "sas", "nested") for x in lst):
                bad.append(("standalone:foreign-request-changed-store", "%s changed the tag store" % (m[1],)))
        elif m[0] != "nested":
            bad += [("standalone:" + k, msg) for k, msg in rig.model.judge(m, rpy, exc, rig.sim.store())]
        else:
            rig.model.load_observed(rig.sim.store())
        solo.append((rpy, exc))
    final_solo = rig.state()
    bad += rig.seat(state)
    # (a) bundled
    rpy, exc = exec_raw(rig, W.multiple([encode(m) for m in lst]))
    final_bundle = rig.state()
    interesting = any(m[0] in ("wt", "wf", "sas", "nested") for m in lst) or any(r is None or r[2:3] != b"\x00" for r, _ in solo)
    if rpy is None:
        bad.append(("bundle-no-reply", "bundle %r got no CIP reply: %s" % (lst, exc)))
        return bad, final_bundle, interesting
    try:
        r = W.dec_multiple_reply(rpy)
    except W.WireError as e:
        bad.append(("bundle-framing", "bundle %r reply %s: %s" % (lst, rpy.hex(), e)))
        return bad, final_bundle, interesting
    if r["status"] != 0:
        bad.append(("bundle-status", "bundle %r answered with status 0x%02x %r" % (lst, r["status"], r["ext"])))
    if len(r["members"]) != len(lst):
        bad.append(("bundle-member-count", "bundle %r: %d replies for %d members" % (lst, len(r["members"]), len(lst))))
        return bad, final_bundle, interesting
    for k, (m, (srpy, sexc), brpy) in enumerate(zip(lst, solo, r["members"])):
        if srpy is None:
            # unroutable stand-alone: only a non-zero status is required inside the bundle
            try:
                d = W.dec_reply(brpy)
                if d["status"] == 0:
                    bad.append(("unroutable-member-succeeded", "member %d %r of %r fails stand-alone (%s) but succeeded in the bundle"
                                % (k, m, lst, sexc)))
            except W.WireError as e:
                bad.append(("bundle-member-malformed", "member %d of %r: %s" % (k, lst, e)))
        elif bytes(brpy) != bytes(srpy):
            bad.append(("member-reply-differs", "member %d %r of bundle %r: bundled reply %s, stand-alone reply %s"
                        % (k, m, lst, bytes(brpy).hex(), bytes(srpy).hex())))
    if final_bundle != final_solo:
        bad.append(("final-store-differs", "bundle %r from %r: store %r bundled vs %r one by one" % (lst, state, final_bundle, final_solo)))
    rig.model.load_observed(rig.sim.store())
    return bad, final_bundle, interesting


def expand(acc, item, tier, seed):
    cfgkey, states, (k_, K_) = item
    typ = cfgkey[0]
    lists = list(all_lists(typ, cfgkey))[k_::K_]
    for state in states:
        rig = get_rig(cfgkey)
        done = []
        for lst in lists:
            acc.ev()
            acc.count("transitions", 1 + len(lst))
            bad, final, interesting = check_list(rig, state, lst)
            if interesting and len(lst) >= 2:
                acc.ntc()
            acc.outcome("len=%d" % len(lst))
            if final != state and TS.representable(final):
                acc.succ.add((cfgkey, final))
                acc.outcome("changed")
            for k, m in bad:
                acc.violation(k, {"cfg": cfgkey, "state": state, "pre": list(done), "list": lst}, m)
            done.append(lst)
    if lists:
        acc.sample({"cfg": cfgkey, "state": states[0], "pre": [], "list": lists[len(lists) // 2]})


def all_lists(typ, cfgkey):
    size, maxlen, extra = cfgkey[5], cfgkey[6], cfgkey[7]
    ms = members(typ, size)
    for n in range(1, maxlen + 1):
        for lst in itertools.product(ms, repeat=n):
            yield lst
    if extra:
        sub = [ms[i] for i in (0, 1, 3, 4, 5, 6, 7, 9)]
        for lst in itertools.product(sub, repeat=extra):
            yield lst


def run(ctx):
    if ctx.quick:
        keys = [("INT", "tiny", 2, "cm", False, 15, 3, 0), ("SINT", "tiny", 2, "rr", True, 15, 2, 0),   # SINT: odd-length replies
                ("INT", "tiny", 2, "cm", False, 15, 2, 0, 6)]      # reply budget of 6 bytes: a whole tag just fits one fragment
    else:
        keys = [("INT", "tiny", 2, "cm", False, 21, 3, 4), ("REAL", "tiny", 2, "cm", True, 21, 3, 0),
                ("USINT", "tiny", 2, "rr", False, 10, 3, 0), ("LINT", "tiny", 2, "rr", True, 10, 3, 0), ("BOOL", "tiny", 2, "cm", False, 14, 3, 0),
                ("SSTRING", "tiny", 2, "rr", False, 10, 3, 0),
                ("INT", "tiny", 2, "cm", False, 21, 3, 0, 6), ("LINT", "tiny", 2, "rr", False, 21, 2, 0, 16)]
    roots = []
    for k in keys:
        cfg = TS.config(k[0], k[1])
        zero = "" if k[0] in ("SSTRING", "STRING") else (0.0 if k[0] in ("REAL", "LREAL") else 0)
        roots.append((k, tuple((name, tuple([zero] * (1 if ln is None else ln))) for name, _, ln, _ in cfg)))
    acc = explore.bfs(ctx, __name__, "expand", roots, chunk=1, splits=16)
    acc.count("traces_validated_against_impl", acc.counters.get("transitions", 0))
    return acc


def guards(acc, ctx):
    g = []
    if len(acc.states) < 16:
        g.append("fewer than 16 states (%d)" % len(acc.states))
    for k in ("len=1", "len=2", "changed"):
        if not acc.outcomes.get(k):
            g.append("outcome %s never observed" % k)
    return g


def detuple(x):
    if isinstance(x, list):
        return tuple(detuple(v) for v in x)
    return x


def replay(case):
    cfgkey = detuple(case["cfg"])
    rig = get_rig(cfgkey)
    state = tuple((n, tuple(v)) for n, v in case["state"])
    for lst in case.get("pre", []):
        check_list(rig, state, detuple(lst))          # the lists run earlier on the same simulator (hidden state, if any)
    bad, _, _ = check_list(rig, state, detuple(case["list"]))
    return [m for k, m in bad]


def preload():
    """import the code under test once in the (pristine) worker; shard children are forked from it"""
    from mc import sim as _sim
    _sim.mods()
