"""C09 -- concurrent sessions are isolated and each request is atomic (E-sched: schedule exploration).

2-3 REAL threads, each one session issuing 1-2 requests against a shared tag, run under mc.sched's baton scheduler:
every lock cpppo owns is replaced by a cooperative lock (each dfa_base.lock found through gc, Object.lock,
Connection_Manager.lock, UCMM.lock, setup.lock), and sys.monitoring LINE events on the watched functions make every
source line of the request path a scheduling point.  All schedules with at most `bound` preemptions are executed
(iterative context bounding, DFS over choice sequences); each execution is checked for exceptions, own-replies-only,
and linearizability against the array model by brute force over the admissible total orders.
"""
import ast
import gc
import inspect
import itertools
import os
import struct

from mc import core, sched, sim, wire as W

ID = "C09"
LEVEL = "model_checking"
ISOLATE_SHARDS = True        # every shard runs in a forked child of a pristine worker (mc/core.py)
RULE = ("every schedule of the harness threads with <= bound preemptions, scheduling points at every library lock operation, "
        "request boundary and source line of the watched request-path functions; non-trivial = distinct complete schedules "
        "(choice sequences) containing >= 1 context switch while both threads were inside a request")
BOUNDS = {}       # filled below from plan(): the programs, seams, granularities and preemption bounds actually explored per tier
ASSUMPTIONS = [
    "CPython runs C-level list slice copy / slice assignment from a list atomically (GIL); every Python-level line around them is a "
    "scheduling point",
    "<= 3 sessions, <= 2 requests each; preemption bound as stated",
    "module-level tables written only during set-up (directory, symbol, parser tables) are read-only while the sessions run: reads "
    "of them are not scheduling points",
    "the watch-set is the anchored function list plus every function of automata.py/device.py/logix.py/ucmm.py that an AST scan finds "
    "using a module-level or class-level mutable object; completeness of that scan is assumed (no Python-level race detector exists "
    "in this image)",
]

N = 3                     # elements of the shared tag
_env = {}


# ------------------------------------------------------------------------------------------------------
# watch-set

ANCHORS = [
    ("automata", "dfa_post.__exit__"), ("automata", "dfa_post.post_process_closure"), ("automata", "dfa_base.__enter__"),
    ("automata", "dfa_base.__exit__"),
    ("device", "Attribute.__getitem__"), ("device", "Attribute.__setitem__"), ("device", "Attribute.produce"),
    ("device", "Message_Router.request"), ("device", "Connection_Manager.request"), ("device", "Object.request"),
    ("device", "state_multiple_service.terminate"), ("device", "lookup"), ("device", "resolve"), ("device", "resolve_tag"),
    ("logix", "Logix.request"), ("logix", "Logix.reply_elements"), ("logix", "process"), ("logix", "setup"), ("logix", "Logix.produce"),
    ("parser", "typed_data.produce"), ("parser", "TYPE.produce"), ("parser", "BOOL.produce"),
    ("ucmm", "UCMM.request"),
]


FULL_LINE_FUNCTIONS = ("typed_data.produce", "Attribute.produce", "TYPE.produce", "BOOL.produce")


def _code_objects(fn):
    """a function's code object and those of the closures/lambdas nested in it"""
    fn = inspect.unwrap(fn)
    if isinstance(fn, (staticmethod, classmethod)):
        fn = fn.__func__
    code = getattr(fn, "__code__", None)
    out = []

    def walk(c):
        out.append(c)
        for k in c.co_consts:
            if hasattr(k, "co_code"):
                walk(k)

    if code is not None:
        walk(code)
    return out


def shared_mutable_users(module):
    """AST scan: functions of `module` that read or write a module-level mutable object or a class-level mutable attribute"""
    try:
        src = inspect.getsource(module)
    except OSError:
        return []
    tree = ast.parse(src)
    mutable_ctor = {"dict", "list", "set", "dotdict", "defaultdict", "OrderedDict", "deque"}

    def is_mutable(v):
        if isinstance(v, (ast.Dict, ast.List, ast.Set, ast.ListComp, ast.DictComp, ast.SetComp)):
            return True
        if isinstance(v, ast.Call):
            f = v.func
            name = f.id if isinstance(f, ast.Name) else (f.attr if isinstance(f, ast.Attribute) else "")
            return name in mutable_ctor
        return False

    mod_names, cls_attrs = set(), set()
    for node in tree.body:
        if isinstance(node, ast.Assign) and is_mutable(node.value):
            for t in node.targets:
                if isinstance(t, ast.Name):
                    mod_names.add(t.id)
        if isinstance(node, ast.ClassDef):
            for sub in node.body:
                if isinstance(sub, ast.Assign) and is_mutable(sub.value):
                    for t in sub.targets:
                        if isinstance(t, ast.Name):
                            cls_attrs.add(t.id)
    users = []

    def visit_funcs(body, prefix):
        for node in body:
            if isinstance(node, ast.ClassDef):
                visit_funcs(node.body, prefix + node.name + ".")
            elif isinstance(node, (ast.FunctionDef, ast.AsyncFunctionDef)):
                hit = False
                for sub in ast.walk(node):
                    if isinstance(sub, ast.Name) and sub.id in mod_names:
                        hit = True
                    elif isinstance(sub, ast.Attribute) and sub.attr in cls_attrs and isinstance(sub.value, (ast.Name, ast.Attribute)):
                        base = sub.value
                        txt = base.id if isinstance(base, ast.Name) else base.attr
                        if txt in ("self", "cls", "__class__") or txt[:1].isupper():
                            hit = True
                if hit:
                    users.append(prefix + node.name)
    visit_funcs(tree.body, "")
    return users


MUTATORS = {"append", "pop", "setdefault", "clear", "update", "locked", "remove", "insert", "extend", "popitem", "add", "discard"}
# module-level objects that are written only while the simulator is being set up (before the harness threads start) and are
# read-only afterwards: reading them is not a scheduling point (recorded in ASSUMPTIONS)
QUIESCENT = {"directory", "symbol", "log", "ITEM_PARSERS", "TYPES_SUPPORTED", "COMMAND_PARSERS", "service", "transit", "command"}


def interesting_lines(module):
    """(first line of function -> set of line numbers) is not needed: returns the set of source lines of `module` whose statement
    touches data that may be shared: a subscript load/store, a store to an attribute, a call of a container/lock method, or a
    reference to a module-level / class-level mutable object.  Lines that only log or compute on locals are not scheduling
    points (a preemption there is equivalent to one at the next such line)."""
    try:
        src = inspect.getsource(module)
    except OSError:
        return None
    tree = ast.parse(src)
    shared_names = set()
    for node in ast.walk(tree):
        if isinstance(node, (ast.Module, ast.ClassDef)):
            for sub in node.body:
                if isinstance(sub, ast.Assign):
                    for t in sub.targets:
                        if isinstance(t, ast.Name):
                            shared_names.add(t.id)
    lines = set()

    def mark(stmt):
        hit = False
        for sub in ast.walk(stmt):
            if isinstance(sub, (ast.FunctionDef, ast.Lambda)) and sub is not stmt:
                continue
            if isinstance(sub, ast.Subscript) and not isinstance(sub.value, ast.Name):
                hit = True           # x.y[...] / f()[...]: indexing something reached through an object (a bare local name is private)
            elif isinstance(sub, ast.Attribute) and isinstance(sub.ctx, (ast.Store, ast.Del)):
                hit = True
            elif isinstance(sub, ast.Call) and isinstance(sub.func, ast.Attribute) and sub.func.attr in MUTATORS:
                hit = True
            elif isinstance(sub, ast.Attribute) and sub.attr in shared_names and sub.attr not in QUIESCENT \
                    and isinstance(sub.value, (ast.Name, ast.Attribute)):
                base = sub.value.id if isinstance(sub.value, ast.Name) else sub.value.attr
                if base in ("self", "cls", "__class__") or base[:1].isupper():
                    hit = True
            elif isinstance(sub, ast.Name) and sub.id in shared_names and not sub.id[:1].isupper() and sub.id not in QUIESCENT:
                hit = True
            if hit:
                break
        if hit:
            # simple statements: their own lines; compound statements: only the header line(s)
            end = stmt.end_lineno
            if isinstance(stmt, (ast.For, ast.While, ast.If, ast.With, ast.Try)):
                body = getattr(stmt, "body", None)
                end = (body[0].lineno - 1) if body else stmt.lineno
            for ln in range(stmt.lineno, max(end, stmt.lineno) + 1):
                lines.add(ln)

    def walk_body(body):
        for stmt in body:
            if isinstance(stmt, (ast.FunctionDef, ast.AsyncFunctionDef, ast.ClassDef)):
                walk_body(stmt.body)
                continue
            if isinstance(stmt, (ast.For, ast.While, ast.If, ast.With, ast.Try)):
                # header expression only
                hdr = ast.copy_location(ast.Expr(value=ast.Tuple(elts=[], ctx=ast.Load())), stmt)
                fields = []
                if isinstance(stmt, (ast.For,)):
                    fields = [stmt.target, stmt.iter]
                elif isinstance(stmt, (ast.While, ast.If)):
                    fields = [stmt.test]
                elif isinstance(stmt, ast.With):
                    fields = [i.context_expr for i in stmt.items]
                for f in fields:
                    fake = ast.Expr(value=f)
                    fake.lineno, fake.end_lineno = f.lineno, f.end_lineno
                    mark(fake)
                for name in ("body", "orelse", "finalbody"):
                    walk_body(getattr(stmt, name, []) or [])
                for h in getattr(stmt, "handlers", []) or []:
                    walk_body(h.body)
                continue
            mark(stmt)
    walk_body(tree.body)
    return lines


def resolve_qual(module, qual):
    obj = module
    for part in qual.split("."):
        obj = inspect.getattr_static(obj, part) if inspect.isclass(obj) else getattr(obj, part, None)
        if obj is None:
            return None
    return obj


EXCLUDE_AST = ("config", "produce", "register_service_parser", "__init__", "__repr__", "__str__", "main", "parse_", "port_link")


def watch_codes(M):
    mods = {"automata": M.cpppo.automata, "device": M.device, "logix": M.logix, "ucmm": M.ucmm, "parser": M.parser}
    codes, names, missing = [], [], []
    for mname, qual in ANCHORS:
        fn = resolve_qual(mods[mname], qual)
        if fn is None:
            # a refactoring may have renamed or split an anchored function: its successors are still picked up by the AST scan
            # below if they touch shared state; only a wholesale disappearance of the anchors is a broken check
            missing.append("%s.%s" % (mname, qual))
            continue
        for c in _code_objects(fn):
            if c not in codes:
                codes.append(c)
                names.append("%s.%s" % (mname, c.co_qualname))
    for mname, module in mods.items():
        for qual in shared_mutable_users(module):
            if any(x in qual for x in EXCLUDE_AST) and not any(qual == a[1] for a in ANCHORS):
                continue
            fn = resolve_qual(module, qual)
            if fn is None:
                continue
            for c in _code_objects(fn):
                if c not in codes:
                    codes.append(c)
                    names.append("%s.%s (ast)" % (mname, c.co_qualname))
    if len(missing) > len(ANCHORS) // 3:
        raise core.HarnessError("most watch-set anchors are gone (%r): the check no longer knows the request path" % (missing,))
    if missing:
        names.append("(anchors not found, covered by the AST scan only: %s)" % ", ".join(missing))
    return codes, names


# ------------------------------------------------------------------------------------------------------
def env(n=N, gran="G1"):
    """Per-process environment: simulator, cooperative locks, line watch."""
    key = (n, gran)
    if _env.get("key") == key:
        return _env
    if _env.get("watch") is not None and _env["watch"].on:
        _env["watch"].stop()
    M = sim.mods()
    S = sim.Sim((("a", "INT", n, None), ("p", "INT", 2, None)))
    # replace every lock the library owns
    nlocks = 0
    for o in gc.get_objects():
        try:
            if isinstance(o, M.cpppo.automata.dfa_base) and not isinstance(o.lock, sched.CoopLock):
                o.lock = sched.CoopLock("dfa:%s" % (o.__class__.__name__,))
                nlocks += 1
        except Exception:
            continue
    for cls, nm in ((M.device.Object, "Object.lock"), (M.device.Connection_Manager, "CM.lock"), (M.ucmm.UCMM, "UCMM.lock")):
        if not isinstance(cls.lock, sched.CoopLock):
            cls.lock = sched.CoopLock(nm)
    if not isinstance(M.logix.setup.lock, sched.CoopLock):
        M.logix.setup.lock = sched.CoopLock("setup.lock")
    # state machines created later (cold-start program: objects are created by the racing sessions) get cooperative locks too
    import threading as _threading

    class ThreadingShim:
        @staticmethod
        def Lock():
            return sched.CoopLock("dfa:late")

        def __getattr__(self, name):
            return getattr(_threading, name)

    if not isinstance(M.cpppo.automata.threading, ThreadingShim):
        M.cpppo.automata.threading = ThreadingShim()
    # name the shared top-level parsers so that schedules are readable
    for nm, p in (("Object.parser", M.device.Object.parser), ("CM.parser", M.device.Connection_Manager.parser),
                  ("CM.parser_service_path", M.device.Connection_Manager.parser_service_path), ("UCMM.parser", M.ucmm.UCMM.parser),
                  ("Logix.parser", M.logix.Logix.parser)):
        p.lock.name = nm
    codes, names = watch_codes(M)
    keep = {}
    for module in (M.cpppo.automata, M.device, M.logix, M.ucmm):
        ls = interesting_lines(module)
        if ls is None:
            raise core.HarnessError("no source for %s" % module)
        keep[module.__file__] = ls
    # the element-by-element encoding of a reply iterates over what a read returned: every line there is a point (a read that
    # hands out the live list instead of a copy is only torn while the reply is being produced)
    for c in codes:
        if c.co_qualname.startswith(FULL_LINE_FUNCTIONS):
            keep.setdefault(c.co_filename, set()).update(ln for _, _, ln in c.co_lines() if ln)
    watch = sched.LineWatch(codes if gran != "G0" else [], keep=keep)
    watch.start()
    _env.update(key=key, S=S, M=M, watch=watch, watch_names=names, nlocks=nlocks,
                kwds_full=dict(S.kwds), kwds_notags=dict(S.kwds, tags=type(S.kwds["tags"])()))
    return _env


# ------------------------------------------------------------------------------------------------------
# programs: per thread a list of requests; a request is ("w", beg, vals) / ("r", beg, n) / ("b", [members...])

def programs(tier):
    ones, twos = (1,) * N, (2,) * N
    P = {
        "W|R": [[("w", 0, ones)], [("r", 0, N)]],
        "WR|WR": [[("w", 0, ones), ("r", 0, N)], [("w", 0, twos), ("r", 0, N)]],
        "B|B": [[("b", [("w", 0, ones), ("r", 0, N)])], [("b", [("w", 0, twos), ("r", 0, N)])]],
        "B|R": [[("b", [("w", 0, ones), ("w", 0, twos)])], [("r", 0, N)]],
        "private": [[("w", 0, (1,)), ("r", 0, 1)], [("w", 1, (2,)), ("r", 1, 1)]],
        "W|W|R": [[("w", 0, ones)], [("w", 0, twos)], [("r", 0, N)]],
        # the shared tag read as a whole attribute through the secondary service (Get Attribute Single, raw bytes)
        "W|G": [[("w", 0, ones)], [("ga",)]],
        # a write whose request type differs from the tag's type (its values are converted) against a whole-tag read
        "Wx|R": [[("wx", 0, ones)], [("r", 0, N)]],
        # both sessions arrive at a simulator whose CIP objects do not exist yet: one-time creation under setup.lock
        "cold": [[("w", 0, ones)], [("r", 0, N)]],
        # ... and a simulator WITHOUT configured tags (setup() has nothing to check per request), whose sessions ask for an attribute
        # of the Identity object through the Connection Manager: every object must exist once any request is routed
        "cold0": [[("g",)], [("g",)]],
    }
    if tier != "quick":
        P["B3|B3"] = [[("b", [("w", 0, ones), ("r", 0, N), ("w", 1, (5,))])], [("b", [("r", 0, N), ("w", 0, twos), ("r", 1, 2)])]]
        P["WW|RR"] = [[("w", 0, ones), ("w", 0, twos)], [("r", 0, N), ("r", 0, N)]]
    return P


def encode(req):
    if req[0] == "wx":     # the same write carried as SINT values: a request type other than the tag's (converted element-wise)
        return W.write_tag(W.tag_path("a", req[1] if req[1] else None), W.SINT, list(req[2]))
    if req[0] == "w":
        return W.write_tag(W.tag_path("a", req[1] if req[1] else None), W.INT, list(req[2]))
    if req[0] == "r":
        return W.read_tag(W.tag_path("a", req[1] if req[1] else None), req[2])
    if req[0] == "g":
        return W.get_attribute_single(W.cia_path(1, 1, 7))        # Identity product name
    if req[0] == "ga":
        return W.get_attribute_single(W.cia_path(2, 1, 1))        # tag a: the first attribute auto-allocated in the Message Router
    return W.multiple([encode(m) for m in req[1]])


IDENTITY_NAME = b"\x141756-L61/B LOGIX5561"        # SSTRING: the simulator's default Identity product name


def flatten(prog):
    """per thread: list of atomic operations (bundle members individually)"""
    out = []
    for reqs in prog:
        ops = []
        for r in reqs:
            if r[0] == "b":
                ops += list(r[1])
            else:
                ops.append(r)
        out.append(ops)
    return out


def decode_results(reqs, replies):
    """-> per atomic op: ('w', status) or ('r', status, values); raises W.WireError"""
    out = []
    for r, rp in zip(reqs, replies):
        if r[0] == "b":
            d = W.dec_multiple_reply(rp)
            if d["status"] != 0 or len(d["members"]) != len(r[1]):
                raise W.WireError("bundle status %r members %d" % (d["status"], len(d["members"])))
            for m, mr in zip(r[1], d["members"]):
                out += decode_results([m], [mr])
        elif r[0] in ("w", "wx"):
            d = W.dec_reply(rp)
            if d["service"] != 0xCD:
                raise W.WireError("write answered with service 0x%02x" % d["service"])
            out.append(("w", d["status"]))
        elif r[0] == "g":
            d = W.dec_reply(rp)
            if d["service"] != 0x8E:
                raise W.WireError("Get Attribute Single answered with service 0x%02x" % d["service"])
            out.append(("g", d["status"], bytes(d["payload"])))
        elif r[0] == "ga":
            d = W.dec_reply(rp)
            if d["service"] != 0x8E:
                raise W.WireError("Get Attribute Single answered with service 0x%02x" % d["service"])
            raw = bytes(d["payload"])
            if d["status"] == 0 and len(raw) != 2 * N:
                raise W.WireError("Get Attribute Single of the %d-element INT tag returned %d bytes" % (N, len(raw)))
            out.append(("r", d["status"], tuple(struct.unpack("<%dh" % (len(raw) // 2), raw))))
        else:
            d = W.dec_read_reply(rp)
            if d["service"] != 0xCC:
                raise W.WireError("read answered with service 0x%02x" % d["service"])
            out.append(("r", d["status"], tuple(d.get("values") or ())))
    return out


def linearizable(ops, results, final):
    """brute force: is there an interleaving of the per-thread op lists (program order kept) that explains every result and the
    final store on a plain list model?"""
    nthreads = len(ops)
    idx = [0] * nthreads
    init = [0] * N

    def rec(store, idx):
        if all(idx[t] == len(ops[t]) for t in range(nthreads)):
            return tuple(store) == tuple(final)
        for t in range(nthreads):
            i = idx[t]
            if i == len(ops[t]):
                continue
            op, res = ops[t][i], results[t][i]
            if op[0] in ("w", "wx"):
                if res != ("w", 0):
                    continue
                s2 = list(store)
                s2[op[1]:op[1] + len(op[2])] = list(op[2])
            elif op[0] == "g":
                if res[:2] != ("g", 0) or res[2] != IDENTITY_NAME:      # a constant attribute: the same answer whenever it is read
                    continue
                s2 = store
            elif op[0] == "ga":
                if res != ("r", 0, tuple(store)):
                    continue
                s2 = store
            else:
                if res != ("r", 0, tuple(store[op[1]:op[1] + op[2]])):
                    continue
                s2 = store
            idx[t] += 1
            ok = rec(s2, idx)
            idx[t] -= 1
            if ok:
                return True
        return False

    return rec(init, idx)


class Runner:
    def __init__(self, pname, prog, seam, gran, n=N):
        self.pname, self.prog, self.seam, self.gran = pname, prog, seam, gran
        self.e = env(n, gran)
        self.S = self.e["S"]
        self.outcomes = {}
        self.violations = []
        self.execs = 0
        self.max_points = 0
        self.switch_inside = 0

    def reset(self):
        S = self.S
        S.kwds = self.e["kwds_notags"] if self.pname == "cold0" else self.e["kwds_full"]
        if self.pname in ("cold", "cold0"):
            M = self.e["M"]
            M.device.lookup_reset()
            M.logix.setup_reset()
        S.attrs["a"].default[:] = [0] * len(S.attrs["a"].default)
        S.attrs["p"].default[:] = [0, 0]
        M = self.e["M"]
        M.ucmm.UCMM.sessions.clear()
        M.device.Connection_Manager.forwards.clear()
        for p in (M.device.Object.parser, M.logix.Logix.parser):
            if hasattr(p, "post"):
                p.post.clear()

    def thread_fn(self, t, replies, sc):
        S = self.S
        addr = ("127.0.0.1", 10001 + t)

        def fn():
            if self.seam == "cm":
                for r in self.prog[t]:
                    sc[0].point(("request", t))
                    replies[t].append(S.cm(encode(r), addr))
            else:
                rp, proceed, status = S.frame(W.register(b"reg-%04d" % t), addr)
                sess = W.dec_frame(rp)[0]["session"]
                for k, r in enumerate(self.prog[t]):
                    sc[0].point(("request", t))
                    ctx = b"T%dreq%03d" % (t, k)
                    rp, proceed, status = S.frame(W.send_rr_data(sess, encode(r), ctx), addr)
                    f = W.dec_frame(rp)[0]
                    if f["context"] != ctx or f["session"] != sess or f["status"] != 0:
                        raise AssertionError("reply to another request: context %r session %x status %x (expected %r %x 0)"
                                             % (f["context"], f["session"], f["status"], ctx, sess))
                    replies[t].append(W.dec_send_data(f)["cip"])
                    self.order.append(t)
        return fn

    def run_one(self, prefix):
        self.reset()
        self.order = []          # threads in the order their (frame seam) requests were answered
        nt = len(self.prog)
        replies = [[] for _ in range(nt)]
        sc = [None]
        s = sched.Scheduler([self.thread_fn(t, replies, sc) for t in range(nt)], prefix=prefix)
        sc[0] = s
        x = s.run()
        self.execs += 1
        self.max_points = max(self.max_points, len(x.points))
        case = {"program": self.pname, "seam": self.seam, "gran": self.gran, "schedule": list(x.choices)}
        if isinstance(s.error, sched.Divergence):
            raise core.HarnessError("schedule replay diverged: %s" % s.error)
        if s.error is not None:
            self.violations.append(("deadlock", case, "%s under schedule %r" % (s.error, trace(x))))
            return None
        bad = None
        for w in s.workers:
            if w.exc is not None:
                bad = ("exception-in-session", "thread T%d raised %s: %s" % (w.idx, type(w.exc).__name__, w.exc))
                break
        final = tuple(self.S.attrs["a"].default)
        if bad is None:
            try:
                results = [decode_results(self.prog[t], replies[t]) for t in range(nt)]
                if any(len(replies[t]) != len(self.prog[t]) for t in range(nt)):
                    bad = ("missing-reply", "replies per thread %r" % ([len(r) for r in replies],))
            except W.WireError as e:
                bad = ("malformed-or-foreign-reply", str(e))
        if bad is None:
            ops = flatten(self.prog)
            if not linearizable(ops, results, final):
                bad = ("not-linearizable", "no sequential order of %r explains results %r and final store %r" % (ops, results, final))
            else:
                key = (tuple(map(tuple, results)), final)
                if self.pname == "cold0":
                    # reads of a constant: the only admissible difference between executions is who was answered first
                    key += (tuple(self.order),)
                self.outcomes[key] = self.outcomes.get(key, 0) + 1
        if bad is not None:
            self.violations.append((bad[0], case, "%s: %s; schedule %s" % (self.pname, bad[1], trace(x))))
        return x


def trace(x, limit=14):
    """readable summary of the context switches of an execution"""
    out, prev = [], None
    for (running, tag, en), c in zip(x.points, x.choices):
        nxt = en[c]
        if nxt != prev:
            out.append("T%s@%s" % (nxt, ":".join(str(v) for v in tag)))
            prev = nxt
    return " -> ".join(out[:limit]) + (" ..." if len(out) > limit else "")


# ------------------------------------------------------------------------------------------------------
def shard(acc, item, tier, seed):
    pname, seam, gran, bound, prefix, sub_bound_used = item
    prog = programs(tier)[pname]
    r = Runner(pname, prog, seam, gran)
    counters = {}
    n = sched.explore(r.run_one, bound, prefix=prefix, budget=200000, counters=counters)
    acc.ev(n)
    acc.ntc(max(n - 1, 0))
    acc.count("transitions", n)
    acc.cmax("max_points", r.max_points)
    if counters.get("cap_hit"):
        acc.count("cap_hit")
    for key, cnt in r.outcomes.items():
        acc.outcome("%s/%s/%s:%s" % (pname, seam, gran, core.h64(key) % 10**6), cnt)
        acc.state((pname, key))
    for kind, case, msg in r.violations:
        acc.violation(kind, case, msg)
    if not prefix:
        acc.sample({"program": pname, "seam": seam, "gran": gran, "schedule": [0] * 8, "watch": r.e["watch_names"][:6]})


def root_prefixes(pname, prog, seam, gran, bound, tier):
    """Run the default schedule once and return the first-level deviations (sharding by schedule prefix)."""
    r = Runner(pname, prog, seam, gran)
    x = r.run_one([])
    out = [()]
    if x is None:
        return out, r
    for i, (running, tag, en) in enumerate(x.points):
        if len(en) < 2:
            continue
        cost = x.preempt[i] + (1 if running is not None and en[0] == running else 0)
        if cost > bound:
            continue
        for alt in range(1, len(en)):
            out.append(tuple(x.choices[:i] + [alt]))
    return out, r


def plan(tier):
    """(program, seam, granularity, preemption bound).  G0 = lock operations + request boundaries; G1 = G0 + every source line of the
    watched functions that touches possibly shared data."""
    if tier == "quick":
        return [("W|R", "cm", "G1", 2), ("B|B", "cm", "G0", 2), ("B|B", "cm", "G1", 1), ("WR|WR", "cm", "G1", 1), ("B|R", "cm", "G1", 1),
                ("private", "cm", "G1", 1), ("W|W|R", "cm", "G0", 1), ("W|G", "cm", "G1", 1), ("Wx|R", "cm", "G1", 1), ("W|R", "frame", "G1", 1), ("B|B", "frame", "G0", 1),
                ("cold", "frame", "G1", 1), ("cold0", "frame", "G1", 1)]
    # executions grow like points^bound / bound!: line granularity (G1, 300-900 points per program) gets bound 2 only for the
    # single-request programs; lock granularity (G0, 120-500 points) gets the higher bound
    return [("W|R", "cm", "G1", 2), ("W|R", "cm", "G0", 3), ("B|R", "cm", "G1", 2), ("W|G", "cm", "G1", 2), ("Wx|R", "cm", "G1", 2),
            ("WR|WR", "cm", "G1", 1), ("WR|WR", "cm", "G0", 2), ("B|B", "cm", "G1", 1), ("B|B", "cm", "G0", 2),
            ("B3|B3", "cm", "G1", 1), ("B3|B3", "cm", "G0", 1), ("WW|RR", "cm", "G1", 1), ("WW|RR", "cm", "G0", 2),
            ("private", "cm", "G1", 1), ("private", "cm", "G0", 2), ("W|W|R", "cm", "G0", 2), ("W|W|R", "cm", "G1", 1),
            ("W|R", "frame", "G1", 1), ("W|R", "frame", "G0", 2), ("B|B", "frame", "G0", 1), ("WR|WR", "frame", "G0", 1),
            ("cold", "frame", "G1", 1), ("cold", "frame", "G0", 2), ("cold0", "frame", "G1", 1), ("cold0", "frame", "G0", 2)]


for _tier in ("quick", "thorough"):
    BOUNDS[_tier] = ("program/seam/granularity/preemption-bound (cm = Connection_Manager.request seam, frame = whole frames through "
                     "logix.process incl. Register; G0 = lock operations + request boundaries, G1 = G0 + shared-data source lines): "
                     + "; ".join("%s/%s/%s/%d" % p for p in plan(_tier)))


def run(ctx):
    # the root executions run in a child process too (the parent must stay free of cpppo state)
    only = os.environ.get("VERIF_C09_ONLY")          # debugging aid: restrict to one program name
    items = [("root", p) for p in plan(ctx.tier) if not only or p[0] == only]
    roots = ctx.pmap(__name__, "root_shard", items)
    total = core.Acc()
    work = []
    for entry in sorted(roots.succ, key=repr):
        pname, seam, gran, bound, prefix = entry
        work.append((pname, seam, gran, bound, list(prefix), False))
    work.sort(key=lambda w: (len(w[4]), repr(w)))      # early deviations own the largest subtrees: schedule them first
    roots.succ = set()
    total.merge(roots)
    total.merge(ctx.pmap(__name__, "explore_shard", work))
    total.count("traces_validated_against_impl", total.counters.get("transitions", 0))
    return total


def root_shard(acc, item, tier, seed):
    _, (pname, seam, gran, bound) = item
    prog = programs(tier)[pname]
    prefixes, r = root_prefixes(pname, prog, seam, gran, bound, tier)
    acc.ev()
    acc.count("transitions")
    acc.cmax("max_points", r.max_points)
    acc.outcome("points:%s/%s/%s=%d" % (pname, seam, gran, r.max_points))
    for kind, case, msg in r.violations:
        acc.violation(kind, case, msg)
    for p in prefixes[1:]:
        acc.succ.add((pname, seam, gran, bound, tuple(p)))
    acc.sample({"program": pname, "seam": seam, "gran": gran, "schedule": [], "points": r.max_points,
                "watch": r.e["watch_names"][:40]})


def explore_shard(acc, item, tier, seed):
    pname, seam, gran, bound, prefix, _ = item
    prog = programs(tier)[pname]
    r = Runner(pname, prog, seam, gran)
    counters = {}
    # remaining bound below this prefix is handled by explore(): cost is computed from the execution itself
    n = sched.explore(r.run_one, bound, prefix=prefix, budget=400000, counters=counters)
    acc.ev(n)
    acc.ntc(n)
    acc.count("transitions", n)
    acc.cmax("max_points", r.max_points)
    if counters.get("cap_hit"):
        acc.count("cap_hit")
    for key, cnt in r.outcomes.items():
        acc.outcome("%s/%s/%s:outcome-%06d" % (pname, seam, gran, core.h64(key) % 10**6), cnt)
        acc.state((pname, key))
    for kind, case, msg in r.violations:
        acc.violation(kind, case, msg)


def guards(acc, ctx):
    g = []
    per_prog = {}
    for k in acc.outcomes:
        if ":outcome-" in k:
            per_prog.setdefault(k.split(":")[0], set()).add(k)
    only = os.environ.get("VERIF_C09_ONLY")
    for pname, seam, gran, bound in plan(ctx.tier):
        if only and pname != only:
            continue
        key = "%s/%s/%s" % (pname, seam, gran)
        if pname in ("private",):
            continue
        if len(per_prog.get(key, ())) < 2:
            g.append("program %s: fewer than 2 distinct admissible outcomes observed (%d) -- nothing collided" % (key, len(per_prog.get(key, ()))))
    return g


def replay(case):
    prog = programs("thorough")[case["program"]]
    r = Runner(case["program"], prog, case["seam"], case["gran"])
    r.run_one(list(case["schedule"]))
    return [m for k, c, m in r.violations]


def preload():
    """import the code under test once in the (pristine) worker; shard children are forked from it"""
    from mc import sim as _sim
    _sim.mods()
