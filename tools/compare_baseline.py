#!/usr/bin/env python3
"""compare a junit xml against BASELINE.json stable_pass: python3 tools/compare_baseline.py <junit.xml>"""
import json, sys, xml.etree.ElementTree as ET
base = json.load(open("/root/.vp/BASELINE.json"))
want = set(base["stable_pass"])
root = ET.parse(sys.argv[1]).getroot()
res = {}
for tc in root.iter("testcase"):
    name = "%s::%s" % (tc.get("classname"), tc.get("name"))
    ok = not any(ch.tag in ("failure", "error", "skipped") for ch in tc)
    res[name] = ok
missing = sorted(n for n in want if not res.get(n))
print("baseline stable_pass: %d; passing now: %d; missing/failing: %d" % (len(want), sum(1 for n in want if res.get(n)), len(missing)))
for n in missing:
    print("  NOT PASSING:", n, "(absent)" if n not in res else "")
sys.exit(1 if missing else 0)
