#!/usr/bin/env python3
"""Regenerates the table of seeded changes in DESIGN.md (between the SEEDED-TABLE markers) from seeded/*/meta.json + notes."""
import glob, json, os, re
V = os.path.dirname(os.path.dirname(os.path.abspath(__file__)))
rows = []
SUMM = json.load(open(os.path.join(V, "tools", "seeded_summaries.json")))
for d in sorted(glob.glob(os.path.join(V, "seeded", "*"))):
    mp = os.path.join(d, "meta.json")
    if not os.path.exists(mp):
        continue
    m = json.load(open(mp))
    if "property" not in m:
        continue                      # benign-* entries (false-alarm test) are summarised in DESIGN.md 7.8
    extra = SUMM.get("%s-%s" % (m["property"], m["k"]), {})
    if extra and (m.get("summary") != extra.get("summary") or m.get("needs") != extra.get("needs")):
        m.update(extra)
        json.dump(m, open(mp, "w"), indent=1)
    what = m.get("summary", "")
    if m.get("needs"):
        what += " — needs: " + m["needs"]
    if not what:
        diff = open(os.path.join(d, "patch.diff")).read()
        files = sorted(set(re.findall(r"^\+\+\+ b/(\S+)", diff, re.M)))
        what = ", ".join(files)
        np_ = os.path.join(d, "notes.md")
        if os.path.exists(np_):
            body = [l.strip(" #*-`") for l in open(np_).read().splitlines() if l.strip(" #*-`")]
            if body:
                what += " — " + " ".join(body[:3])[:260]
    checks = "; ".join("%s→exit %s" % (c, r["exit"]) for c, r in sorted(m.get("checks_run", {}).items()))
    rows.append("| %s-%s | %s | %s | %s | %s |" % (m["property"], m["k"], what.replace("|", "/"), m.get("verdict", "?"),
                                                  ", ".join(m.get("caught_by", [])) or "— (missed)", checks))
table = "| seeded change | what it changes / needs | confirmed | caught by | runs |\n|---|---|---|---|---|\n" + "\n".join(rows)
p = os.path.join(V, "DESIGN.md")
s = open(p).read()
a, b = "<!-- SEEDED-TABLE-BEGIN -->", "<!-- SEEDED-TABLE-END -->"
if a in s:
    s = s[:s.index(a) + len(a)] + "\n" + table + "\n" + s[s.index(b):]
    open(p, "w").write(s)
print(table)
