#!/usr/bin/env python3
"""python3-vt tools/validate_evidence.py : validate MANIFEST.json and every evidence file against the schemas."""
import glob, json, os, sys
import jsonschema
V = os.path.dirname(os.path.dirname(os.path.abspath(__file__)))
ok = True
man = json.load(open(os.path.join(V, "MANIFEST.json")))
jsonschema.validate(man, json.load(open("/root/.vp/MANIFEST.schema.json")))
es = json.load(open("/root/.vp/EVIDENCE.schema.json"))
for c in man["checks"]:
    p = c["evidence_file"]
    try:
        doc = json.load(open(p))
        jsonschema.validate(doc, es)
        assert doc["level"] == c["level_claimed"]["category"], "level mismatch"
        print("ok  ", p, doc["tier"], doc["coverage"].get("evaluations"), doc["coverage"].get("distinct_nontrivial"))
    except Exception as e:
        ok = False
        print("BAD ", p, str(e)[:300])
sys.exit(0 if ok else 1)
