#!/bin/bash
# usage: tools/try_patch.sh <patch.diff> <CHECK> [tier] -- apply a patch to a scratch copy of /repo HEAD, run one check against it, remove the copy
set -e
d=$(mktemp -d /tmp/try.XXXXXX)
mkdir $d/cpppo
git -C /repo archive HEAD | tar -x -C $d/cpppo
( cd $d/cpppo && git apply --whitespace=nowarn "$1" )
cd /verif
VERIF_REPO=$d/cpppo ./check $2 --tier ${3:-quick} --workers ${WORKERS:-10} 2>&1 | grep -v "^KNOWN" | tail -${TAIL:-6} | cut -c1-500
echo "exit=${PIPESTATUS[0]}"
rm -rf $d
