#!/usr/bin/env python3
"""Regenerates the measured-coverage table in DESIGN.md (between COVERAGE-TABLE markers) from evidence/*.json and MANIFEST.json."""
import glob, json, os
V = os.path.dirname(os.path.dirname(os.path.abspath(__file__)))
man = json.load(open(os.path.join(V, "MANIFEST.json")))
rows = []
for c in man["checks"]:
    e = json.load(open(c["evidence_file"]))
    cov = e["coverage"]
    rows.append("| %s | %s | %s | %s | %s | %s | %s | %s |" % (
        c["property_id"], c["level_claimed"]["category"], e["tier"], "{:,}".format(cov.get("evaluations", 0)),
        "{:,}".format(cov.get("distinct_nontrivial", 0)), "{:,}".format(cov.get("states", 0)) if "states" in cov else "–",
        cov.get("distinct_outcomes", "–"), ", ".join(cov.get("known_findings_observed", [])) or "–"))
table = ("| property | level | tier | evaluations | distinct non-trivial | states | distinct outcomes | known findings observed |\n"
         "|---|---|---|---|---|---|---|---|\n" + "\n".join(rows))
p = os.path.join(V, "DESIGN.md")
s = open(p).read()
a, b = "<!-- COVERAGE-TABLE-BEGIN -->", "<!-- COVERAGE-TABLE-END -->"
if a in s:
    s = s[:s.index(a) + len(a)] + "\n" + table + "\n" + s[s.index(b):]
    open(p, "w").write(s)
print(table)
