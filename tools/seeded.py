#!/usr/bin/env python3
"""Confirm and file a seeded property-breaking change produced by an independent agent.

    python3 tools/seeded.py <PROP> <k> [--checks C03,C05] [--tier quick] [--no-suite] [--name short-name]

Input:  /tmp/seed/<PROP>/out/change<k>.diff, demo<k>.py, notes<k>.md
Steps:  scratch copy of /repo (directory named cpppo), apply the diff there; demo must PASS on a clean copy and FAIL on
        the changed one; the repository's baseline suite must still pass on the changed copy (compared with
        BASELINE.json stable_pass); run the given checks with VERIF_REPO=<changed copy>; write
        /verif/seeded/<PROP>-<k>/{patch.diff,demo.py,notes.md,meta.json}; remove the scratch copies.
"""
import argparse
import json
import os
import shutil
import subprocess
import sys
import tempfile
import time

VERIF = os.path.dirname(os.path.dirname(os.path.abspath(__file__)))


def _isolate():
    p = subprocess.run("unshare -n bash -c 'ip link set lo up'", shell=True, capture_output=True)
    return "unshare -n bash -c 'ip link set lo up; exec \"$@\"' -- " if p.returncode == 0 else "flock /tmp/seed-suite.lock "


ISOLATE = _isolate()


def sh(cmd, cwd=None, env=None, timeout=3600):
    p = subprocess.run(cmd, shell=True, cwd=cwd, env=env, capture_output=True, text=True, timeout=timeout)
    return p.returncode, p.stdout + p.stderr


def main():
    ap = argparse.ArgumentParser()
    ap.add_argument("prop")
    ap.add_argument("k")
    ap.add_argument("--checks", default=None)
    ap.add_argument("--tier", default="quick")
    ap.add_argument("--no-suite", action="store_true")
    ap.add_argument("--workers", default="8")
    ap.add_argument("--src", default=None, help="directory holding change<k>.diff etc. (default /tmp/seed/<PROP>/out)")
    ap.add_argument("--tag", default=None, help="name of the filed change: seeded/<PROP>-<tag> (default: k)")
    args = ap.parse_args()
    src = args.src or "/tmp/seed/%s/out" % args.prop
    diff = os.path.join(src, "change%s.diff" % args.k)
    demo = os.path.join(src, "demo%s.py" % args.k)
    notes = os.path.join(src, "notes%s.md" % args.k)
    for f in (diff, demo):
        if not os.path.exists(f):
            sys.exit("missing %s" % f)
    checks = (args.checks or args.prop).split(",")
    base = tempfile.mkdtemp(prefix="seedchk-%s-%s." % (args.prop, args.k))
    args.tag = args.tag or args.k
    meta = {"property": args.prop, "k": args.tag, "checks_run": {}, "at": time.strftime("%Y-%m-%d %H:%M:%S")}
    try:
        clean, changed = os.path.join(base, "clean"), os.path.join(base, "changed")
        for d in (clean, changed):
            os.makedirs(d)
            rc, out = sh("mkdir %s/cpppo && git -C /repo archive HEAD | tar -x -C %s/cpppo" % (d, d))
            if rc:
                sys.exit("archive failed: " + out)
        rc, out = sh("git apply --whitespace=nowarn %s" % diff, cwd=changed + "/cpppo")
        meta["applies"] = rc == 0
        if rc:
            # the diff may have been made against an older HEAD: try with 3-way fuzz via patch(1)
            rc2, out2 = sh("patch -p1 --no-backup-if-mismatch < %s" % diff, cwd=changed + "/cpppo")
            meta["applies"] = rc2 == 0
            if rc2:
                print("PATCH DOES NOT APPLY\n" + out + out2)
                meta["verdict"] = "does-not-apply"
                return finish(args, meta, diff, demo, notes)
        env = dict(os.environ)
        env["PYTHONHASHSEED"] = "0"
        res = {}
        for label, d in (("clean", clean), ("changed", changed)):
            env["PYTHONPATH"] = d
            rc, out = sh("/venv/bin/python %s" % demo, cwd=d, env=env, timeout=900)
            res[label] = (rc, out[-1500:])
            print("demo on %s: exit %d\n%s" % (label, rc, out[-600:]))
        meta["demo_clean_exit"], meta["demo_changed_exit"] = res["clean"][0], res["changed"][0]
        meta["demo_ok"] = res["clean"][0] == 0 and res["changed"][0] != 0
        if not args.no_suite:
            env["PYTHONPATH"] = changed
            junit = os.path.join(base, "junit.xml")
            t = time.time()
            # the repository's tests bind fixed localhost ports: never run two suites in one network namespace.  Each suite gets
            # its own namespace (unshare -n, loopback up) so several confirmations can run side by side; flock is the fallback
            rc, out = sh(ISOLATE + "/venv/bin/python -m pytest -ra -q -p no:cacheprovider --timeout=900 --continue-on-collection-errors "
                         "--junitxml=%s" % junit, cwd=changed + "/cpppo", env=env, timeout=14400)
            rc2, cmp_out = sh("python3 %s/tools/compare_baseline.py %s" % (VERIF, junit))
            print("repo suite on changed copy (%.0fs): %s" % (time.time() - t, cmp_out.strip()))
            meta["suite_compare"] = cmp_out.strip()
            meta["suite_ok"] = rc2 == 0
            if rc2 != 0:
                # timing-sensitive tests flake when the box is loaded: re-run each failing test file alone, once
                failing = [l.split("NOT PASSING:")[1].split()[0] for l in cmp_out.splitlines() if "NOT PASSING:" in l]
                still = []
                for name in failing:
                    mod, test = name.rsplit("::", 1)
                    path = mod.replace(".", "/") + ".py"
                    rc3, out3 = sh(ISOLATE + "/venv/bin/python -m pytest -q -p no:cacheprovider --timeout=900 %s" % path,
                                   cwd=changed + "/cpppo", env=env, timeout=3600)
                    ok = (" %s " % test) not in out3 and ("::%s " % test) not in out3 and "FAILED %s::%s" % (path, test) not in out3 \
                        and " passed" in out3
                    print("  re-run of %s alone: %s" % (path, "passes" if ok else "still failing"))
                    if not ok:
                        still.append(name)
                meta["suite_rerun_still_failing"] = still
                meta["suite_ok"] = not still
        for c in checks:
            env2 = dict(os.environ)
            env2["VERIF_REPO"] = changed + "/cpppo"
            t = time.time()
            rc, out = sh("%s/check %s --tier %s --workers %s" % (VERIF, c, args.tier, args.workers), cwd=VERIF, env=env2, timeout=7200)
            lines = [l for l in out.splitlines() if l.startswith(("VIOLATION", "violation kind", "BROKEN", "HARNESS", c + " tier"))]
            print("check %s on changed copy: exit %d (%.0fs)\n  %s" % (c, rc, time.time() - t, "\n  ".join(lines[:8])))
            meta["checks_run"][c] = {"exit": rc, "tier": args.tier, "lines": lines[:6], "wall_s": round(time.time() - t)}
        caught = [c for c, r in meta["checks_run"].items() if r["exit"] == 1]
        meta["caught_by"] = caught
        meta["verdict"] = ("kept" if meta.get("demo_ok") and meta.get("suite_ok", True) else "rejected")
        return finish(args, meta, diff, demo, notes)
    finally:
        shutil.rmtree(base, ignore_errors=True)


def finish(args, meta, diff, demo, notes):
    out = os.path.join(VERIF, "seeded", "%s-%s" % (args.prop, args.tag))
    os.makedirs(out, exist_ok=True)
    shutil.copy(diff, os.path.join(out, "patch.diff"))
    shutil.copy(demo, os.path.join(out, "demo.py"))
    if os.path.exists(notes):
        shutil.copy(notes, os.path.join(out, "notes.md"))
    old = {}
    mp = os.path.join(out, "meta.json")
    if os.path.exists(mp):
        old = json.load(open(mp))
        runs = old.get("checks_run", {})
        runs.update(meta.get("checks_run", {}))
        meta["checks_run"] = runs
        for k in ("suite_compare", "suite_ok"):
            if k not in meta and k in old:
                meta[k] = old[k]
        meta["caught_by"] = [c for c, r in meta["checks_run"].items() if r["exit"] == 1]
    json.dump(meta, open(mp, "w"), indent=1)
    print("verdict: %s; caught by: %s -> %s" % (meta.get("verdict"), meta.get("caught_by"), out))


if __name__ == "__main__":
    main()
