#!/usr/bin/env python3
"""False-alarm test: apply a behaviour-preserving refactoring (produced by an independent agent) to a scratch copy of /repo and run
every quick check against it; all must exit 0.

    python3 tools/benign.py <AREA> <k> [--checks C01,C02,...] [--workers N]

Input: /tmp/benign/<AREA>/out/change<k>.diff (+ notes<k>.md).  Output: /verif/seeded/benign-<AREA>-<k>/{patch.diff,notes.md,meta.json}.
"""
import argparse
import json
import os
import shutil
import subprocess
import sys
import tempfile
import time

VERIF = os.path.dirname(os.path.dirname(os.path.abspath(__file__)))
ALL = ["C%02d" % i for i in range(1, 21)]


def sh(cmd, cwd=None, env=None, timeout=7200):
    p = subprocess.run(cmd, shell=True, cwd=cwd, env=env, capture_output=True, text=True, timeout=timeout)
    return p.returncode, p.stdout + p.stderr


def main():
    ap = argparse.ArgumentParser()
    ap.add_argument("area")
    ap.add_argument("k")
    ap.add_argument("--checks", default=",".join(ALL))
    ap.add_argument("--workers", default="10")
    args = ap.parse_args()
    src = "/tmp/benign/%s/out" % args.area
    diff = os.path.join(src, "change%s.diff" % args.k)
    notes = os.path.join(src, "notes%s.md" % args.k)
    base = tempfile.mkdtemp(prefix="benign-%s-%s." % (args.area, args.k))
    meta = {"kind": "behaviour-preserving refactoring (false-alarm test)", "area": args.area, "k": args.k, "checks_run": {},
            "at": time.strftime("%Y-%m-%d %H:%M:%S")}
    try:
        rc, out = sh("mkdir %s/cpppo && git -C /repo archive HEAD | tar -x -C %s/cpppo" % (base, base))
        rc, out = sh("git apply --whitespace=nowarn %s" % diff, cwd=base + "/cpppo")
        meta["applies"] = rc == 0
        if rc:
            print("PATCH DOES NOT APPLY\n" + out)
        else:
            env = dict(os.environ)
            env["PYTHONPATH"] = base
            junit = os.path.join(base, "junit.xml")
            rc, out = sh("flock /tmp/seed-suite.lock /venv/bin/python -m pytest -ra -q -p no:cacheprovider --timeout=900 "
                         "--continue-on-collection-errors --junitxml=%s" % junit, cwd=base + "/cpppo", env=env, timeout=14400)
            rc2, cmp_out = sh("python3 %s/tools/compare_baseline.py %s" % (VERIF, junit))
            meta["suite_compare"] = cmp_out.strip()
            print("repo suite:", cmp_out.strip().splitlines()[0])
            for c in args.checks.split(","):
                env2 = dict(os.environ)
                env2["VERIF_REPO"] = base + "/cpppo"
                t = time.time()
                rc, out = sh("%s/check %s --tier quick --workers %s" % (VERIF, c, args.workers), cwd=VERIF, env=env2)
                lines = [l for l in out.splitlines() if l.startswith(("VIOLATION", "violation kind", "BROKEN", "HARNESS"))]
                meta["checks_run"][c] = {"exit": rc, "wall_s": round(time.time() - t), "lines": lines[:5]}
                print("check %s: exit %d (%.0fs) %s" % (c, rc, time.time() - t, " | ".join(lines[:2])[:300]))
            meta["alarms"] = [c for c, r in meta["checks_run"].items() if r["exit"] != 0]
            print("alarms:", meta["alarms"])
    finally:
        shutil.rmtree(base, ignore_errors=True)
    out = os.path.join(VERIF, "seeded", "benign-%s-%s" % (args.area, args.k))
    os.makedirs(out, exist_ok=True)
    shutil.copy(diff, os.path.join(out, "patch.diff"))
    if os.path.exists(notes):
        shutil.copy(notes, os.path.join(out, "notes.md"))
    json.dump(meta, open(os.path.join(out, "meta.json"), "w"), indent=1)


if __name__ == "__main__":
    main()
