#!/usr/bin/env python3
"""Regenerates /verif/MANIFEST.json from the table below (and validates it against the schema)."""
import glob
import json
import os
import sys

VERIF = os.path.dirname(os.path.dirname(os.path.abspath(__file__)))

# id -> (category, technique, text, level_note, design_ref)
CHECKS = {
    "C19": ("exploration",
            "bounded-exhaustive enumeration of range multisets x reach x limit against the real merge()/shatter(), set-of-integers oracle",
            "Every multiset of up to 3 (quick) / 4 (thorough) ranges over a boundary alphabet of 73 ranges (bank starts, both sides of "
            "the 10000 and 40000 bank edges, nested/overlapping/adjacent/duplicate shapes), every reach in {None,0,1,2,5,100} and limit "
            "in {None,1,2,3}, plus large-count pairs around the default 123/1968 limits and shatter() for every count 0..2100: all "
            "executed on the real functions; an enumeration, not a sample, so within the alphabet no input violates the statement. "
            "The real poller loop (poller_modbus._poller) is run for 4 poll cycles under a virtual clock against a scripted device for "
            "every non-empty subset of 9 addresses in 3 banks (two far enough for a merged run longer than one transfer) x reach {1,3,100} x "
            "{no failure, one transient read failure at every read position of cycles 0/1, a read failing in every cycle, a register "
            "registered later, the reach changed at run time} x failure kind {exception response, no response, connection error}; "
            "merge() is called with every order of presentation of each multiset: every cycle's reads must satisfy the same clauses for the "
            "registers known at that time and only known addresses may be stored.",
            "Addresses/counts outside the alphabet and sets of more than 4 ranges are not enumerated; merge is a sorted sweep whose "
            "decisions depend only on neighbouring ranges, which is why 4 ranges over clustered addresses exercise every branch pairing.",
            "DESIGN.md §3 C19"),
    "C03": ("model_checking",
            "explicit-state BFS to closure over tag-store states of the live simulator; every request of the alphabet executed by the "
            "real request path from every state; array-model oracle on wire bytes",
            "Breadth-first search over the contents of the tag store of a real in-process Logix simulator. From every reachable state "
            "every well-formed request of the alphabet (Read/Write Tag [Fragmented], Get/Set Attribute Single; symbolic name in two "
            "cases, class/instance/attribute, default attribute; every start index, count and value vector over a per-type boundary "
            "alphabet; cross-type writes as read-back probes) is executed through Connection_Manager.request or whole frames through "
            "logix.process, and judged against an independent array model decoding the reply bytes. The search runs until the state "
            "graph closes, so by induction every request history over the alphabet ends in an explored state all of whose successors "
            "were checked. States are re-established only by real Write Tag requests.",
            "Values outside the boundary alphabets and tags longer than 3 elements are not enumerated here (C04 covers long ranges). "
            "The oracle (mc/refmodel.py, mc/wire.py) is trusted; it shares no code with cpppo.",
            "DESIGN.md §3 C03"),
    "C04": ("exploration",
            "bounded-exhaustive enumeration of (type, reply budget, tag length, start, count) read transfers driven to completion and of "
            "all fragment compositions/orders of write ranges, on the real request path",
            "Logix.MAX_BYTES (a user-alterable class attribute) is scaled to every value 1..20 (thorough 1..40) so that every alignment "
            "of range end and budget boundary occurs, plus the production 488. Every read transfer of every (start,count) of tags of "
            "length 1..12 (1..24) is driven by advancing the offset by the bytes received, with a horizon, checking per-fragment "
            "status, whole-element and budget bounds and the exact concatenation; every composition of a write range into consecutive "
            "fragments is written (every order for <= 4 fragments) and the store compared with the array model. A tag of the widest "
            "element type on the same Logix object is transferred first under every budget (the budget must not leak between requests).",
            "Element types are the fixed-size ones; strings/UDTs are outside the property as stated. Per-request max_size is not "
            "reachable from the wire.",
            "DESIGN.md §3 C04"),
    "C05": ("model_checking",
            "explicit-state BFS over the closed store graph; from every state the complete invalid-neighbourhood alphabet and the "
            "request-type x tag-type matrix on the real request path; refusal status + store-unchanged + read-back oracles",
            "From every state of the closed tag-store graph every request of the invalid neighbourhood of the valid alphabet is executed "
            "on the real simulator: indices/counts at n-1, n, n+1, 0, 0xFFFF; byte offsets at and beyond the end and inside an element; "
            "declared count vs supplied values (more and fewer); all 13x13 (request type, tag type) pairs with the request type's "
            "widest values; unknown tag, attribute, instance and class; Set Attribute Single one byte short/long. The oracle demands "
            "the documented failure status for an existing tag, a bit-identical store after every refusal, and after every "
            "acknowledged write a successful Read Tag, Read Tag Fragmented and Get Attribute Single on the issuing and on a second "
            "session (whole-frame seam).",
            "Zero-data writes are treated as malformed input (C08); sub-element offsets and surplus data are outside the statement and "
            "only checked for harmlessness.",
            "DESIGN.md §3 C05"),
    "C07": ("model_checking",
            "explicit-state BFS over the closed store graph; from every state every list of 1..N members run bundled and unbundled on "
            "the real request path; byte-for-byte differential oracle + offset-table check on raw bytes",
            "From every state of the closed tag-store graph every list of 1..3 members over a 14..20-member alphabet (reads, writes, "
            "fragmented forms with offsets, attribute services, range/type refusals, unknown tag and attribute, a nested bundle) is "
            "executed twice on the real simulator - as one Multiple Service Packet and member by member - and compared: member "
            "replies byte-identical, final stores identical, bundle status 0, offset table exact on the raw bytes; stand-alone "
            "members are also judged by the array model.",
            "Members unroutable stand-alone have no CIP reply to compare with; only a non-zero status and no effect is demanded. "
            "Lists longer than 3 (4 on a sub-alphabet in the thorough tier) are not enumerated.",
            "DESIGN.md §3 C07"),
    "C02": ("fault_enumeration",
            "exhaustive enumeration of stream chunkings (all 2-way, all 3-way of short streams, field-boundary neighbourhoods, "
            "byte-wise, coalesced, injected empty recv answers) and of every truncation offset against the real server loop and "
            "the real framing machine",
            "Streams of 1..3 request frames are delivered to the real main.enip_srv_tcp loop under a scripted recv() in every "
            "enumerated chunking; after EVERY chunk the replies sent so far must equal the replies to exactly the frames whose final "
            "byte has been delivered and the tag store must equal the store after exactly those frames (so a request is acted upon iff "
            "complete). Every truncation offset followed by EOF (also delivered byte-wise): no reply for and no effect of the "
            "unfinished frame, the request processor never invoked on it (spy), connection closed, a parked older session and a new "
            "session still read the right data. parser.enip_machine alone is fed the same chunkings through cpppo.chainable over an "
            "instrumented iterator: identical parsed content and source.sent == sum(24+length) after every frame.",
            "k-way splits beyond 3 arbitrary cuts are covered through the boundary-neighbourhood family and byte-at-a-time only; the "
            "OS accept loop is outside the harness; the client-side framing (client.__next__) is exercised by C13's cut enumeration.",
            "DESIGN.md §3 C02"),
    "C06": ("model_checking",
            "explicit-state BFS over session states (alive, registered, open connections, store) of the real server loop, every frame "
            "from every state; all frame sequences up to a length in two deliveries; pipelined runs",
            "The real main.enip_srv_tcp loop is driven frame by frame. BFS over canonical session states to closure: from every state "
            "each of 30 frames (Register, List*, legacy, SendRRData with ok/refused reads and writes, succeeding and failing attribute "
            "services, bundle, wrapped fragmented read, unknown service/class/instance/tag, small and large Forward Open, Forward Close, SendUnitData on the open "
            "connection, wrong/zero session handles, malformed CPF, unsupported command, Unregister; 4 sender contexts). Oracle per "
            "request: exactly one reply, same command/context/session, service|0x80 in the same framing, non-zero status for "
            "unsupported/unroutable, session ends only for the listed reasons. All sequences up to length 2 (3 thorough) are also "
            "written as ONE chunk before any reply is read: the reply stream must be byte-identical; runs of up to 64 pipelined "
            "requests must be answered in order. Environment answers: randint 0 / duplicate, conn.send raising; a second session from the "
            "same host; requests forwarded through a [UCMM] Route entry to a scripted other device that answers in time, late or never.",
            "<= 2 open connections per session; contexts from 4 values; sequence length bound; the forwarded-to device is a scripted "
            "transport answering with replies recorded from a real simulator.",
            "DESIGN.md §3 C06"),
    "C01": ("exploration",
            "four-way differential of cpppo parse/produce against an independent struct-only reference codec (mc/refcip.py) over a "
            "grammar catalogue x boundary alphabets x deviation-bounded composites",
            "About 45 grammar elements (20 scalar types, strings, IFACEADDRS, status, typed data x 14 types, EPATH in four forms with every "
            "sequence of <= 3 (4) segments over a 34-segment alphabet, all request/reply templates of the Object, Message Router, Logix "
            "and Connection Manager services, bundles of 1..3, CPF of 0..3 items over 8 kinds, every encapsulation command, the "
            "Unconnected Send wrapper and its error reply, small/large Forward Open NCP bit fields, composite frames with <= 1 (2) "
            "fields off nominal) x per-field boundary alphabets. Oracle, all four must agree: cpppo produce == reference encode; "
            "cpppo parse recovers every field; cpppo produce(parse(bytes)) == bytes for canonical bytes; reference decode == value; "
            "out-of-range values must be refused by produce.",
            "Field combinations beyond d=2 and containers above the size bounds are not enumerated; shapes cpppo documents as "
            "unsupported (extended status with status 0, empty STRUCT data, bare 0x52 Read Tag Fragmented, 16-byte service name) are "
            "outside the grammar and listed as evidence notes. mc/refcip.py (self-tested against 77 captured packets) is trusted.",
            "DESIGN.md §3 C01"),
    "C08": ("fault_enumeration",
            "complete one-edit (two-field-edit) neighbourhood of every kind of valid frame + all very short inputs + boundary headers, "
            "placed in sessions of the real server loop run through network.server_thread.run; deterministic step counting",
            "Every hostile input of the enumerated neighbourhood (every byte x substitution alphabet, every deletion, insertion, "
            "truncation, every length/count/offset/size field of the reference codec's field map x {0,1,true-1,true+1,2*true,max}; "
            "thorough: all pairs of field edits; all inputs of length <= 2; headers over boundary commands and lengths) is delivered "
            "to the real enip_srv_tcp loop after Register / after Forward Open / between writes, followed by a valid frame and EOF. "
            "Oracle: the server thread's Python-call count stays within K*(bytes+c) (K = 4 x worst per-byte cost on valid traffic; a "
            "hard cap turns a livelock into a reported hang), nothing escapes the connection runner, the connection is closed, the "
            "store is unchanged unless explained by a complete well-formed write carried in the delivered bytes, and a parked older "
            "session and a new session read and write correctly afterwards. Truncations at an inner nesting level with all enclosing "
            "lengths kept consistent (ctrunc) must change nothing when the write request itself is cut. The datagram service "
            "(real enip_srv_udp under a scripted recvfrom) gets the same neighbourhoods plus 1..24 surplus bytes, each followed by "
            "valid datagrams of two peers that must be answered exactly as on a fresh simulator.",
            "Long random strings are not part of the deciding run (that would be sampling). A lenient reading of 'well-formed write' "
            "is used: the simulator may ignore sloppy wrapping around a complete CIP write request.",
            "DESIGN.md §3 C08"),
    "C09": ("model_checking",
            "stateless schedule exploration of real server threads under a baton scheduler: every library lock replaced by a cooperative "
            "lock, sys.monitoring line events on the watched request-path functions, iterative preemption bounding (DFS over choice "
            "sequences), brute-force linearizability oracle",
            "2-3 real threads, each a session issuing 1-2 requests (plain and bundled reads/writes colliding on one tag, plus private "
            "elements; cold starts with and without configured tags where the racing sessions create the CIP objects) against the real simulator at the Connection_Manager.request seam and through whole frames (logix.process incl. "
            "Register). Scheduling points: every operation on any lock cpppo owns (each dfa_base.lock found through gc, class-level "
            "parser locks, UCMM.lock, setup.lock), request boundaries and, at granularity G1, every source line of the watched "
            "functions that touches possibly shared data (anchor list + AST scan). All schedules with <= 2 (thorough 3) preemptions "
            "are executed; each execution must raise nothing, give every session exactly its own replies, and be explained by some "
            "total order of all requests (bundle members individually) on a list model, final store included.",
            "<= 3 sessions, <= 2 requests each; preemption bounds as stated per program; C-level list slice operations are atomic "
            "under the GIL; completeness of the AST-derived watch-set is assumed (no Python race detector is available).",
            "DESIGN.md §3 C09"),
    "C10": ("exploration",
            "bounded-exhaustive enumeration of parser machines x sentences x every limit value/form x tails x chunkings, repeat counts, and "
            "iterator operation sequences on the real automata; safety + equality-with-unlimited-parse oracle over an instrumented source",
            "102 machine specs covering every state class of parser.py and every registered service machine (found by introspection) x "
            "180 (214) valid sentences x every integer limit 0..len+2 given as constructor int, data path after a parsed length prefix, "
            "callable, enclosing dfa (6 forms) x tails x chunkings (whole, byte-wise, split at the limit; thorough every 2-way split); "
            "52 templates whose own length field takes every value 0..natural+2; dfa(repeat=n / '<path>') for n 0..4 with short, exact "
            "and surplus input; every sequence of <= 6 (7) next/peek/push/chain operations on peeking/chaining against a list model. "
            "Oracle: a terminal run consumed <= limit, the unread remainder is exactly input[sent:], sent == symbols pulled - pending, "
            "limits >= len(w) give the unlimited result, a terminal repeat ran exactly n times.",
            "Sentences are short and hand-written; at most two nested limits are placed by the harness; HART/PCCC parsers not imported.",
            "DESIGN.md §3 C10"),
    "C16": ("model_checking",
            "explicit-state BFS over mapping-operation histories on the real dotdict (state = canonical nested structure rebuilt by history "
            "replay); nested-dict reference model; full invariant set evaluated in every state",
            "All histories of <= 3 (quick) / <= 4 (thorough) operations over 577 / 1292 operations (set by item/attribute/chain, setdefault, "
            "del, pop +/- default, update, constructor x dotted, back-tracking, leading-dot, indexed and reserved paths x scalar / plain "
            "dict / dotdict / list values) executed on the real class; in each of ~5k / ~75k states 100 / 219 lookup paths x 4 lookup "
            "forms, all iteration forms (+depth), copy and deepcopy are compared with an independent nested-dict model.",
            "Depth-bounded (the graph does not close); names {a,b,c,l}; statement-silent corners are accepted and listed in the evidence.",
            "DESIGN.md §3 C16"),
    "C17": ("exploration",
            "bounded-exhaustive enumeration zone x offset transition x instant offset x sub-ms fraction x precision x rendering through the "
            "real render/parse, independent zoneinfo/datetime oracle; exhaustive duration component products",
            "All 599 tz-database zones x every UTC-offset transition found by a zoneinfo scan (2022-26 quick; 2015-30 and reduced 1970-2037 "
            "thorough) x 19-27 instant offsets around each x 7 sub-millisecond fractions x precisions 0..6, rendered with zone name, "
            "numeric offset and UTC and parsed back; oracle-built gap/fold wall times must be rejected; all ordered pairs of instants "
            "0.1 ms apart for the comparison clause; 53k durations (component boundary product + every microsecond count < 20000); "
            "offset format/parse.",
            "zoneinfo/tzdata is the trusted oracle; abbreviation renderings and 25 hyphenated zone names are documented as unsupported "
            "(counted, not judged); precision 0..2 is held to one unit of the last digit (rendering truncates there).",
            "DESIGN.md §3 C17"),
    "C20": ("exploration",
            "bounded-exhaustive enumeration of value trees (shapes x leaf alphabets) through the real dump/parse against an independent "
            "grammar encoder/decoder; exhaustive chunking x tail enumeration of the real tnet_machine and tnet_from",
            "Every tree shape of container depth <= 3 with <= 2 children (26,683; thorough adds 3-child shapes) filled from a 22-leaf "
            "alphabet (ints incl. 2^63, floats incl. inf, booleans, None, byte strings that look like length prefixes/colons/type tags, "
            "multi-byte text) as full products up to 3-4 leaf positions and all 1- (2-) position deviations beyond; dump is byte-compared "
            "with a from-the-grammar encoder, parse compared type-exactly. Every supported streaming payload x 20 tails x every 2-way "
            "cut (thorough 3-way for short streams) and byte-wise feeding through tnet_machine and tnet_from (scripted recv); "
            "separator-delimited message streams (newline, CR LF, blank line) through tnet_from(ignore=...) in every chunking.",
            "Depth 3 is deviation-bounded, not a full product; machine payload types ^ ! ] } are unsupported by the machine.",
            "DESIGN.md §3 C20"),
    "C11": ("exploration",
            "bounded-exhaustive enumeration of expression ASTs x input strings on the real regex/regex_bytes machines; Brzozowski "
            "derivative oracle cross-validated against Python re on every pair",
            "Every expression AST of <= 4 (thorough 5) nodes over literals {a,b}, classes [ab], [^a], '.', concatenation, alternation, "
            "grouping, *, +, ?, {m,n} (m<=n<=2), de-duplicated by printed form (4175 / 44605 expressions) x every string over {a,b,c} "
            "of length <= 5, for cpppo.regex and cpppo.regex_bytes (terminal, greedy) and the string/string_bytes wrappers; the "
            "multi-byte family over {e-acute, ., [^e-acute], a} x strings over {e-acute, e-circumflex (same lead byte), a}, a 3-byte "
            "family (U+20AC with siblings sharing two bytes / the lead byte) and a family whose second symbol has a different lead byte; 2-way "
            "chunkings and symbol-at-a-time feeding. Oracle: the machine consumes the longest prefix with a non-empty residual "
            "language, stores exactly it, is terminal iff that prefix (length >= 1) is a sentence, and fails non-terminally otherwise.",
            "Four input universes, <= 5 nodes, <= 5 symbols. Three known-finding kinds on the pinned tree: a mis-reduction inside the "
            "third-party greenery library, byte-wise '.' when a multi-byte literal is vacuous, and '.' taking one byte of a symbol whose "
            "lead byte differs from the literal's.",
            "DESIGN.md §3 C11"),
    "C18": ("model_checking",
            "explicit-state, deviation-bounded exploration of the real history loader under a virtual clock: schedule prefixes replayed on "
            "fresh loaders over a bounded-exhaustive space of histories, file layouts and parameters; sorted-list model oracle",
            "Histories of 4-6 records (every tie/increase pattern) written by the real logger, every composition into 1..3 rotated files "
            "(natural-order suffixes incl. .9/.10), per file plain/gz/bz2/plain+gz, at most one injected comment/corrupt line at every "
            "position; replayed by the real loader with the clock owned by the harness: every schedule of clock advances per load() "
            "from a menu up to a horizon within a joint deviation bound (2 quick / 3 thorough) over start point, factor, look-ahead, "
            "limit, upcoming and schedule. Oracle: the union of load() results is every logged record exactly once, in order, ms-exact, "
            "never before clock+look-ahead and no later than the first load after it, final register map = last logged values; all six "
            "loader states and the expected transitions must be observed.",
            "Joint deviation bound rather than a full cross product; clock advances only between load() calls; <= 6 records, 3 files. "
            "One known finding (file starting at the timestamp of a flat predecessor is skipped).",
            "DESIGN.md §3 C18"),
    "C12": ("exploration",
            "bounded-exhaustive enumeration of operation lists x client settings on the real client.connector (fake socket, virtual clock) "
            "against the real server loop, array-model oracle on yielded results + reference decoding of the recorded request frames; "
            "exhaustive operation-string grammar against a reference parser",
            "Every list of <= 3 (thorough 4) operations over a 10-operation alphabet (tag and @class/instance/attribute reads, element "
            "ranges, byte offset, casted writes, refused read and write, Get/Set Attribute Single, operations with their own "
            "route/send path) x settings {synchronous, depth 1,2,3,5} x multiple {0,80,150,500} x fragment on/off, each one real "
            "client run over mc/clientenv.py against the real enip_srv_tcp, also with byte-at-a-time reply delivery: exactly one "
            "result per operation, in order, identical (status, value) across all settings and equal to the array model; no "
            "Multiple Service Packet in the recorded traffic mixes route/send paths. Every string of the operation grammar (10 "
            "paths x 7 indices x 4 counts x 5 offsets x 20 value parts x fragment x 3 int types) is compared with an independent "
            "reference parser; format_path/parse_path round trips over 2940 segment lists.",
            "Quick uses a covering subset of 10 settings; lists longer than 3 (4) are not enumerated.",
            "DESIGN.md §3 C12"),
    "C13": ("fault_enumeration",
            "complete enumeration of connection faults (every byte offset of the reply and request streams x EOF/timeout, every dropped "
            "frame, pairs/triples of faults then recovery) on the real client.connector / proxy / poll.run over a fake socket and a "
            "virtual clock",
            "The fault-free exchange of 5 distinguishable operations is recorded, then one real client run per fault: the server->client "
            "stream cut at EVERY byte offset followed by EOF or by silence until the virtual clock passes the timeout (bytes before "
            "the cut delivered whole or one per recv), the client->server stream cut at every offset, every reply frame dropped, "
            "ordered pairs (thorough triples) of faults followed by a healthy connection; subjects connector.pipeline / synchronous / "
            "operate, get_attribute.proxy used as documented, poll.run. Oracle: every yielded result is correct for its own "
            "operation, none for an operation whose reply was not completely delivered, the stream raises or yields exactly k "
            "results, after a failure the proxy has discarded its gateway and its next use reconnects and returns correct data.",
            "k = 5 operations at depth 3; timeouts are virtual; callers use the documented `with` forms.",
            "DESIGN.md §3 C13"),
    "C14": ("model_checking",
            "explicit-state BFS over the real server loop driven by two independent clients: pylogix in-process on a socket shim, and the "
            "reference codec encoding every request kind byte by byte; array-model and reference-decoder oracles",
            "Part A: pylogix 1.1.6 runs in-process against the real main.enip_srv_tcp (Register, Forward Open, SendUnitData, Forward "
            "Close); BFS to closure over (tag store, connected?, pylogix type cache) with every state re-seated from a fresh PLC "
            "object by real requests; alphabet of 51+22 API calls (Read scalar/element/range/arrays needing >= 3 replies, multi-tag "
            "reads, Write scalar/element/range/array needing >= 2 fragmented writes, out-of-range index, unknown tag, Close + "
            "reconnect) over the element types both sides support, plus all call sequences of length <= 3. Values and status strings "
            "must equal the array model; after Close the forwards table and the session table are empty. Part B: every request kind "
            "encoded by mc/refcip.py over 7 transports (bare SendRRData, Unconnected Send with/without route path, small and large "
            "Forward Open connections open simultaneously, bundles unconnected and connected) from every state of the closed store "
            "graph; every reply must decode with the reference decoder, echo session/context/connection id/sequence, and carry the "
            "model's values.",
            "pylogix' API subset (no STRING/UDT); one TCP session at a time; pylogix drops extended status (checked in part B).",
            "DESIGN.md §3 C14"),
    "C15": ("exploration",
            "complete product personality x request route path x service on freshly configured real simulators (UCMM subclass and "
            "main() argument parsing), access-counting Attribute class; exhaustive route-path text grammar vs reference parser",
            "All 13 personalities (none, simple, five single-segment paths incl. extended port and address link, two two-segment "
            "paths, empty list, three with a route table no request leads into) x 18 request route paths (absent, empty, equal, other port/link, longer, shorter, numeric vs address "
            "link) x 5 services (read, write, Get Attribute Single, bundle, Forward Open), each on a fresh simulator configured both "
            "through a UCMM subclass and through main()'s --route-path/-S parsing, each request issued twice on the simulator: accept iff the statement's rule says so; a refusal "
            "must carry an error status, perform zero Attribute accesses (counted through the attribute_class extension point) and "
            "leave the store unchanged. All route-path texts of 1..2 (3) segments over port/link alphabets in 5 notations are "
            "compared with the segments they spell, as text and as the decoded list object (parsed twice, argument unchanged). Every ordered "
            "pair of personalities is also built as two simulators one after the other in one process. Client side: every sequence of "
            "<= 2 (3) calls on one client object x route_path argument x changes of its route_path_default in between; each request put "
            "on the wire must carry the route path its call spelled (reference decoder).",
            "No request leads with a hop of a configured route table (no forwarding); main() only admits single-segment route paths.",
            "DESIGN.md §3 C15"),
}

NOT_YET = "check not built yet in this round (see DESIGN.md build order); not claimed until its check and evidence exist"


def main():
    props = [json.loads(l) for l in open(os.path.join(VERIF, "properties.jsonl"))]
    ids = [p["id"] for p in props]
    built = {os.path.basename(p)[:3].upper() for p in glob.glob(os.path.join(VERIF, "props", "c[0-9][0-9]_*.py"))}
    na_reasons = {}
    path = os.path.join(VERIF, "tools", "not_applicable.json")
    if os.path.exists(path):
        na_reasons = json.load(open(path))
    checks, na = [], []
    for i in ids:
        if i in CHECKS and i in built and i not in na_reasons:
            cat, tech, text, note, ref = CHECKS[i]
            checks.append({
                "property_id": i,
                "quick_cmd": "./check %s --tier quick" % i,
                "thorough_cmd": "./check %s --tier thorough" % i,
                "evidence_file": "/verif/evidence/%s.json" % i,
                "replay_cmd_template": "./check %s --replay {path}" % i,
                "engine": "mc",
                "level_claimed": {"category": cat, "text": text, "design_ref": ref},
                "level_note": note,
                "technique": tech,
            })
        else:
            na.append({"property_id": i, "reason": na_reasons.get(i, NOT_YET)})
    doc = {
        "version": 1,
        "setup_cmd": "cd /verif && /venv/bin/python tools/selftest.py",
        "hooks": {
            "guard": "CPPPO_VERIF",
            "enable": "none needed: every seam is reached from the harness (module attributes, supported extension points, "
                      "sys.monitoring); /repo is an editable install so checks import the current working tree directly",
            "baseline_off_cmd": "cd /repo && /venv/bin/python -m pytest -ra -q -p no:cacheprovider --timeout=900 --continue-on-collection-errors",
            "source_commits": [],
            "add_only": True,
        },
        "engines": [{
            "name": "mc",
            "path": "/verif/mc",
            "serves_properties": [c["property_id"] for c in checks],
            "kind_free_text": "hand-written explicit-state / bounded-exhaustive / fault-enumeration / schedule explorers in Python that "
                              "execute the real cpppo code in-process under harness-owned I/O, clock, randomness and scheduling",
        }],
        "checks": checks,
        "notes": "Run from /verif. ./check <ID> --tier quick|thorough; VERIF_SEED permutes exploration order only; VERIF_REPO=<dir> "
                 "checks another checkout. Exit 0 ok, 1 VIOLATION, 2 broken check (harness error / vacuity guard), 3 harness nondeterminism. "
                 "known_findings.json lists recorded genuine defects and 'fixed:' entries.",
        "not_applicable": na,
    }
    out = os.path.join(VERIF, "MANIFEST.json")
    with open(out, "w") as f:
        json.dump(doc, f, indent=1)
        f.write("\n")
    try:
        import jsonschema
        jsonschema.validate(doc, json.load(open("/root/.vp/MANIFEST.schema.json")))
        print("MANIFEST.json valid: %d checks, %d not_applicable" % (len(checks), len(na)))
    except ImportError:
        print("MANIFEST.json written (jsonschema not importable here; run with python3-vt to validate)")


if __name__ == "__main__":
    main()
