#!/usr/bin/env python3
"""setup_cmd: nothing to build (pure Python); verify the toolchain the checks rely on is present."""
import importlib, os, sys
sys.path.insert(0, os.path.dirname(os.path.dirname(os.path.abspath(__file__))))
assert sys.version_info[:2] >= (3, 12), "checks need CPython >= 3.12 (sys.monitoring)"
for m in ("cpppo", "cpppo.automata", "cpppo.server.enip.logix", "cpppo.server.enip.client", "cpppo.history",
          "cpppo.remote.plc_modbus", "mc.core", "mc.cli"):
    importlib.import_module(m)
import cpppo
print("selftest ok: cpppo from", os.path.dirname(cpppo.__file__))
