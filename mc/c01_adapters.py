"""Adapters between refcip values (plain dicts) and cpppo's dotdict artifacts, for props/c01_codec.py.

Nothing here decides anything: `to_lib_*` builds what cpppo's produce methods expect, `project_*` reads the fields
back out of what cpppo's parsers deliver (extras such as .input / sizes are ignored), `run` drives a cpppo machine.
cpppo is imported lazily (VERIF_REPO may redirect it).
"""
import contextlib

from mc import refcip as R

_L = None


class OneOf(tuple):
    """projection of an opaque field that the library may legitimately hold in more than one representation"""


class Lib:
    pass


def lib():
    """cpppo modules + cached machines, once per process"""
    global _L
    if _L is None:
        import cpppo
        from cpppo.server import enip
        from cpppo.server.enip import parser, device, logix, defaults
        L = Lib()
        L.cpppo, L.enip, L.parser, L.device, L.logix, L.defaults = cpppo, enip, parser, device, logix, defaults
        device.lookup_reset()
        device.dialect = logix.Logix
        L.router = logix.Logix(instance_id=1)
        L.machines = {}
        _L = L
    return _L


def machine(key, factory):
    L = lib()
    m = L.machines.get(key)
    if m is None:
        m = L.machines[key] = factory()
    return m


def dd(x):
    """plain dict/list tree -> dotdict tree"""
    L = lib()
    if isinstance(x, dict):
        d = L.cpppo.dotdict()
        for k, v in x.items():
            dict.__setitem__(d, k, dd(v))
        return d
    if isinstance(x, (list, tuple)):
        return [dd(v) for v in x]
    return x


def run(mach, b, path=None, data=None, limit_steps=2000000):
    """-> (data, complete) ; complete = all input consumed and the machine ended in a terminal state"""
    L = lib()
    if data is None:
        data = L.cpppo.dotdict()
    source = L.cpppo.peekable(bytes(b))
    kw = {"path": path} if path else {}
    with mach:
        with contextlib.closing(mach.run(source=source, data=data, **kw)) as engine:
            for i, (m, s) in enumerate(engine):
                if i > limit_steps:
                    raise RuntimeError("machine did not stop after %d steps" % i)
        terminal = mach.terminal
    return data, (source.peek() is None and terminal)


# ------------------------------------------------------------------------------------------------
# paths / status

SEG_KEYS = ("class", "instance", "attribute", "element", "connection", "symbolic", "port", "link")


def path_to_lib(segs):
    return {"segment": [dict(s) for s in segs]}


def path_project(p):
    out = []
    for s in p.get("segment", None) if hasattr(p, "get") else p:
        out.append({k: s[k] for k in SEG_KEYS if k in s})
    return out


def status_to_lib(d, status, ext):
    d["status"] = status
    if ext:
        d["status_ext"] = {"size": len(ext), "data": list(ext)}
    else:
        d["status_ext"] = {"size": 0}


def status_project(p):
    ext = []
    if "status_ext.data" in p:
        ext = list(p["status_ext.data"])
    return p["status"], ext


# ------------------------------------------------------------------------------------------------
# typed data

def typed_to_lib(code, data, handle=None):
    if code == R.STRUCT:
        return {"type": code, "structure_tag": handle, "data": {"input": bytearray(data)}}
    return {"type": code, "data": list(data)}


def typed_project(p, code):
    """p: the context holding .data (and .structure_tag)"""
    if code == R.STRUCT:
        raw = b""
        if "data.input" in p:
            raw = bytes(bytearray(p["data.input"]))
        return {"structure_handle": p["structure_tag"], "data": raw}
    return list(p["data"]) if "data" in p else []


def raw_project(p, ctx):
    """USINT list under <ctx>.data -> bytes"""
    if ctx in p and hasattr(p[ctx], "get") and "data" in p[ctx]:
        return bytes(bytearray(p[ctx]["data"]))
    return b""


# ------------------------------------------------------------------------------------------------
# CIP requests

FO_SVCS = (0x54, 0x5B)
WRITE_CTX = {0x4D: "write_tag", 0x53: "write_frag"}
READ_CTX = {0x4C: "read_tag", 0x52: "read_frag"}


def req_class(q):
    """which cpppo class produces / parses this request or reply"""
    L = lib()
    if q["service"] & 0x7F in (0x54, 0x5B, 0x4E):
        return L.device.Connection_Manager
    return L.logix.Logix


def req_to_lib(q):
    svc = q["service"]
    d = {"service": svc, "path": path_to_lib(q["path"])}
    if svc == 0x4C:
        d["read_tag"] = {"elements": q["elements"]}
    elif svc == 0x52 and "message" not in q:
        d["read_frag"] = {"elements": q["elements"], "offset": q["offset"]}
    elif svc in WRITE_CTX:
        body = typed_to_lib(q["type"], q["data"], q.get("structure_handle"))
        body["elements"] = q["elements"]
        if svc == 0x53:
            body["offset"] = q["offset"]
        d[WRITE_CTX[svc]] = body
    elif svc == 0x01:
        d["get_attributes_all"] = True
    elif svc == 0x0E:
        d["get_attribute_single"] = True
    elif svc == 0x03:
        d["get_attribute_list"] = list(q["attributes"])
    elif svc == 0x10:
        d["set_attribute_single"] = {"data": list(bytearray(q.get("data", b"")))}
    elif svc == 0x0A:
        d["multiple"] = {"request": [req_to_lib(m) for m in q["requests"]]}
    elif svc in FO_SVCS:
        large = svc == 0x5B
        d["forward_open"] = {
            "priority_time_tick": q["priority_time_tick"], "timeout_ticks": q["timeout_ticks"],
            "O_T": {"connection_ID": q["O_T_connection_ID"], "RPI": q["O_T_RPI"], "NCP": q["O_T_NCP"], "large": large},
            "T_O": {"connection_ID": q["T_O_connection_ID"], "RPI": q["T_O_RPI"], "NCP": q["T_O_NCP"], "large": large},
            "connection_serial": q["connection_serial"], "O_vendor": q["O_vendor"], "O_serial": q["O_serial"],
            "connection_timeout_multiplier": q["connection_timeout_multiplier"],
            "transport_class_triggers": q["transport_class_triggers"],
            "connection_path": path_to_lib(q["connection_path"])}
    elif svc == 0x4E:
        d["forward_close"] = {k: q[k] for k in ("priority_time_tick", "timeout_ticks", "connection_serial", "O_vendor",
                                                "O_serial")}
        d["forward_close"]["connection_path"] = path_to_lib(q["connection_path"])
    else:
        data = q.get("data", b"")
        d["service_code"] = {"data": list(bytearray(data))} if data else True
    return d


def req_project(p):
    svc = p["service"]
    q = {"service": svc, "path": path_project(p["path"])}
    if svc == 0x4C:
        q["elements"] = p["read_tag.elements"]
    elif svc == 0x52:
        q["elements"] = p["read_frag.elements"]
        q["offset"] = p["read_frag.offset"]
    elif svc in WRITE_CTX:
        c = p[WRITE_CTX[svc]]
        q["type"] = c["type"]
        if q["type"] == R.STRUCT:
            t = typed_project(c, R.STRUCT)
            q["structure_handle"] = t["structure_handle"]
            q["elements"] = c["elements"]
            if svc == 0x53:
                q["offset"] = c["offset"]
            q["data"] = t["data"]
        else:
            q["elements"] = c["elements"]
            if svc == 0x53:
                q["offset"] = c["offset"]
            q["data"] = typed_project(c, q["type"])
    elif svc == 0x01:
        if not p["get_attributes_all"]:
            raise KeyError("get_attributes_all")
    elif svc == 0x0E:
        if not p["get_attribute_single"]:
            raise KeyError("get_attribute_single")
    elif svc == 0x03:
        q["attributes"] = list(p["get_attribute_list"]) if "get_attribute_list" in p else []
    elif svc == 0x10:
        q["data"] = raw_project(p, "set_attribute_single")
    elif svc == 0x0A:
        q["requests"] = [req_project(m) for m in p["multiple.request"]]
    elif svc in FO_SVCS:
        f = p["forward_open"]
        q.update({
            "priority_time_tick": f["priority_time_tick"], "timeout_ticks": f["timeout_ticks"],
            "O_T_connection_ID": f["O_T.connection_ID"], "T_O_connection_ID": f["T_O.connection_ID"],
            "connection_serial": f["connection_serial"], "O_vendor": f["O_vendor"], "O_serial": f["O_serial"],
            "connection_timeout_multiplier": f["connection_timeout_multiplier"],
            "O_T_RPI": f["O_T.RPI"], "O_T_NCP": f["O_T.NCP"], "T_O_RPI": f["T_O.RPI"], "T_O_NCP": f["T_O.NCP"],
            "transport_class_triggers": f["transport_class_triggers"],
            "connection_path": path_project(f["connection_path"])})
    elif svc == 0x4E:
        f = p["forward_close"]
        q.update({k: f[k] for k in ("priority_time_tick", "timeout_ticks", "connection_serial", "O_vendor", "O_serial")})
        q["connection_path"] = path_project(f["connection_path"])
    else:
        raw = raw_project(p, "service_code")
        if raw:
            q["data"] = raw
    return q


# ------------------------------------------------------------------------------------------------
# CIP replies

def rpy_to_lib(r):
    svc = r["service"]
    base = svc & 0x7F
    d = {"service": svc}
    status_to_lib(d, r.get("status", 0), r.get("ext", []))
    if base in READ_CTX:
        if "type" in r:
            d[READ_CTX[base]] = typed_to_lib(r["type"], r["data"], r.get("structure_handle"))
        else:
            d[READ_CTX[base]] = True
    elif base in WRITE_CTX:
        d[WRITE_CTX[base]] = True
    elif base == 0x0A:
        if "replies" in r:
            d["multiple"] = {"request": [rpy_to_lib(m) for m in r["replies"]]}
    elif base in FO_SVCS:
        f = {}
        if r.get("status", 0) == 0:
            f["O_T"] = {"connection_ID": r["O_T_connection_ID"], "API": r["O_T_API"]}
            f["T_O"] = {"connection_ID": r["T_O_connection_ID"], "API": r["T_O_API"]}
            f["application"] = {"data": list(bytearray(r.get("application", b"")))}
        for k in ("connection_serial", "O_vendor", "O_serial"):
            f[k] = r[k]
        if r.get("remaining_path_size") is not None:
            f["remaining_path_size"] = r["remaining_path_size"]
        d["forward_open"] = f
    elif base == 0x4E:
        if "connection_serial" in r:
            f = {k: r[k] for k in ("connection_serial", "O_vendor", "O_serial")}
            f["application"] = {"data": list(bytearray(r.get("application", b"")))}
            d["forward_close"] = f
        else:
            d["forward_close"] = True
    elif base == 0x01:
        d["get_attributes_all"] = {"data": list(bytearray(r.get("data", b"")))}
    elif base == 0x0E:
        d["get_attribute_single"] = {"data": list(bytearray(r.get("data", b"")))}
    elif base == 0x03:
        d["get_attribute_list"] = {"data": list(bytearray(r.get("data", b"")))}
    elif base == 0x10:
        d["set_attribute_single"] = True
    else:
        data = r.get("data", b"")
        if data:
            d["service_code"] = {"data": list(bytearray(data))}
    return d


def rpy_project(p):
    svc = p["service"]
    base = svc & 0x7F
    status, ext = status_project(p)
    r = {"service": svc, "status": status, "ext": ext}
    if base in READ_CTX:
        c = p[READ_CTX[base]]
        if status in (0, 6):
            r["type"] = c["type"]
            if r["type"] == R.STRUCT:
                r.update(typed_project(c, R.STRUCT))
            else:
                r["data"] = typed_project(c, r["type"])
    elif base in WRITE_CTX:
        if not p[WRITE_CTX[base]]:
            raise KeyError(WRITE_CTX[base])
    elif base == 0x0A:
        if "multiple.request" in p:
            r["replies"] = [rpy_project(m) for m in p["multiple.request"]]
    elif base in FO_SVCS:
        f = p["forward_open"]
        if status == 0:
            r.update({"O_T_connection_ID": f["O_T.connection_ID"], "T_O_connection_ID": f["T_O.connection_ID"],
                      "connection_serial": f["connection_serial"], "O_vendor": f["O_vendor"], "O_serial": f["O_serial"],
                      "O_T_API": f["O_T.API"], "T_O_API": f["T_O.API"],
                      "application": bytes(bytearray(f["application.data"])) if "application.data" in f else b""})
        elif hasattr(f, "get"):
            for k in ("connection_serial", "O_vendor", "O_serial", "remaining_path_size"):
                if k in f:
                    r[k] = f[k]
    elif base == 0x4E:
        f = p["forward_close"]
        if hasattr(f, "get"):
            for k in ("connection_serial", "O_vendor", "O_serial"):
                r[k] = f[k]
            r["application"] = bytes(bytearray(f["application.data"])) if "application.data" in f else b""
    elif base in (0x01, 0x0E):
        raw = raw_project(p, "get_attributes_all" if base == 0x01 else "get_attribute_single")
        if raw:
            r["data"] = raw
    elif base == 0x03:
        # parsed as UINTs by cpppo (opaque): re-pack
        if "get_attribute_list" in p and hasattr(p["get_attribute_list"], "get") and "data" in p["get_attribute_list"]:
            # the body is opaque to cpppo: it may hold it as 16-bit words or as octets -- either is a faithful parse
            import struct
            vals = list(p["get_attribute_list"]["data"])
            cands = []
            if all(0 <= x <= 0xFFFF for x in vals):
                cands.append(struct.pack("<%dH" % len(vals), *vals))
            if all(0 <= x <= 0xFF for x in vals):
                cands.append(bytes(bytearray(vals)))
            r["data"] = OneOf(cands)
    elif base == 0x10:
        if not p["set_attribute_single"]:
            raise KeyError("set_attribute_single")
    else:
        raw = raw_project(p, "service_code")
        if raw:
            r["data"] = raw
    return r


def strip_inputs(p, keep_struct=True):
    """delete derived .input blobs of nested requests so that produce must regenerate them"""
    for k in list(p.keys()):
        if k == "input" or k.endswith(".input"):
            if keep_struct and (k.endswith("data.input")):
                continue
            if k.endswith("request_data.input") or k == "input" or k.endswith("].input") or k.endswith("request.input"):
                del p[k]
    return p


# ------------------------------------------------------------------------------------------------
# CPF items, commands, frames

ID_KEYS = ("version", "sin_family", "sin_port", "sin_addr", "vendor_id", "device_type", "product_code",
           "product_revision", "status_word", "serial_number", "product_name", "state")
LEGACY_KEYS = ("version", "unknown_1", "sin_family", "sin_port", "sin_addr", "ip_address")


def usend_to_lib(data):
    """bytes of a 0xB2 item -> the unconnected_send artifact cpppo would hold for it"""
    data = bytes(data)
    if data[:1] == b"\x52":
        try:
            u = R.dec_unconnected_send(data)
        except R.RefDecodeError:
            u = None
        if u is not None and u["path"] == R.CONNECTION_MANAGER:
            return {"service": 0x52, "path": path_to_lib(u["path"]), "priority": u["priority"],
                    "timeout_ticks": u["timeout_ticks"], "request": {"input": bytearray(u["message"])},
                    "route_path": path_to_lib(u["route_path"])}
    if data[:1] == b"\xd2" and len(data) <= 6:
        try:
            e = R.dec_unconnected_send_error(data)
        except R.RefDecodeError:
            e = None
        if e is not None and e["status"] and e["status"] < 0x10 and not e["ext"]:
            d = {"service": 0xD2}
            status_to_lib(d, e["status"], e["ext"])
            if e["remaining_path_size"] is not None:
                d["remaining_path_size"] = e["remaining_path_size"]
            return d
    return {"request": {"input": bytearray(data)}}


def usend_project(u):
    """parsed unconnected_send artifact -> the bytes the layout tables give for the parsed fields"""
    if u.get("service") == 0x52:
        return R.enc_unconnected_send(bytes(bytearray(u["request.input"])) if "request.input" in u else b"",
                                      path_project(u["route_path"]), u["priority"], u["timeout_ticks"],
                                      path_project(u["path"]))
    if u.get("service") == 0xD2 and "status" in u:
        st, ext = status_project(u)
        return R.enc_unconnected_send_error(st, ext, u.get("remaining_path_size"))
    return bytes(bytearray(u["request.input"]))


def item_to_lib(it):
    t = it["type"]
    d = {"type_id": t}
    if t == 0xA1 and "connection" in it:
        d["connection_ID"] = {"connection": it["connection"]}
    elif t == 0xB1 and "sequence" in it:
        d["connection_data"] = {"sequence": it["sequence"], "request": {"input": bytearray(it.get("data", b""))}}
    elif t == 0xB2:
        d["unconnected_send"] = usend_to_lib(it.get("data", b""))
    elif t == 0x0C and "identity" in it:
        d["identity_object"] = dict(it["identity"])
    elif t == 0x100 and "name" in it:
        name = it["name"]
        if it.get("name_size"):
            name = name + "\x00" * (it["name_size"] - len(name) - 1)
        d["communications_service"] = {"version": it["version"], "capability": it["capability"], "service_name": name}
    elif t == 0x01 and "sin_addr" in it:
        d["legacy_CPF_0x0001"] = {k: it[k] for k in LEGACY_KEYS}
    else:
        if it.get("data"):
            d["input"] = bytearray(it["data"])
    return d


def cpf_to_lib(items):
    if items is None:
        return {}
    if not items:
        return {"count": 0}
    return {"item": [item_to_lib(i) for i in items]}


def item_project(p):
    t = p["type_id"]
    it = {"type": t}
    if t == 0x00:
        it["data"] = bytes(bytearray(p["input"])) if "input" in p else b""
    elif t == 0xA1:
        it["connection"] = p["connection_ID.connection"]
    elif t == 0xB1:
        it["sequence"] = p["connection_data.sequence"]
        it["data"] = bytes(bytearray(p["connection_data.request.input"])) if "connection_data.request.input" in p else b""
    elif t == 0xB2:
        it["data"] = usend_project(p["unconnected_send"]) if "unconnected_send" in p else b""
    elif t == 0x0C:
        it["identity"] = {k: p["identity_object"][k] for k in ID_KEYS}
    elif t == 0x100:
        c = p["communications_service"]
        it.update({"version": c["version"], "capability": c["capability"], "name": c["service_name"]})
    elif t == 0x01:
        it.update({k: p["legacy_CPF_0x0001"][k] for k in LEGACY_KEYS})
    else:
        it["data"] = bytes(bytearray(p["input"])) if "input" in p else b""
    return it


def cpf_project(c):
    """parsed .CPF -> items list | None"""
    if not c:
        return None
    if "item" in c:
        items = [item_project(i) for i in c["item"]]
        if c.get("count", len(items)) != len(items):
            raise KeyError("CPF.count %r != %d items" % (c.get("count"), len(items)))
        return items
    if c.get("count") == 0:
        return []
    raise KeyError("CPF without items and count != 0")


CMD_CTX = {0x01: "legacy", 0x04: "list_services", 0x63: "list_identity", 0x64: "list_interfaces"}


def frame_to_lib(f, payload_bytes=None):
    """refcip frame dict -> enip artifact (with .CIP.* for a structured payload, or .input for raw payload bytes)"""
    e = {"command": f["command"], "session_handle": f.get("session", 0), "status": f.get("status", 0),
         "sender_context": {"input": bytearray(f.get("context", b"\x00" * 8))}, "options": f.get("options", 0)}
    pl = f.get("payload")
    if payload_bytes is not None or isinstance(pl, (bytes, bytearray)):
        e["input"] = bytearray(pl if payload_bytes is None else payload_bytes)
        return e
    cmd = f["command"]
    if pl is None and cmd in (0x65, 0x6F, 0x70):
        return e                         # an error frame: header only (cpppo's server encodes it without any CIP part)
    if cmd == 0x65:
        e["CIP"] = {"register": dict(pl)}
    elif cmd == 0x66:
        e["CIP"] = {"unregister": True}
    elif cmd in CMD_CTX:
        e["CIP"] = {CMD_CTX[cmd]: {"CPF": cpf_to_lib(pl["cpf"] if pl else None)}}
    elif cmd in (0x6F, 0x70):
        e["CIP"] = {"send_data": {"interface": pl["interface"], "timeout": pl["timeout"], "CPF": cpf_to_lib(pl["cpf"])}}
    return e


def frame_project(p, structured):
    e = p["enip"]
    f = {"command": e["command"], "session": e["session_handle"], "status": e["status"],
         "context": bytes(bytearray(e["sender_context.input"])), "options": e["options"]}
    raw = bytes(bytearray(e["input"])) if "input" in e else b""
    if e["length"] != len(raw):
        raise KeyError("length %r != payload %d" % (e["length"], len(raw)))
    if not structured:
        f["payload"] = raw
        return f
    cmd = f["command"]
    if not raw:
        f["payload"] = None
        return f
    c = e["CIP"]
    if cmd == 0x65:
        f["payload"] = {"protocol_version": c["register.protocol_version"], "options": c["register.options"]}
    elif cmd in CMD_CTX:
        f["payload"] = {"cpf": cpf_project(c[CMD_CTX[cmd]]["CPF"])}
    elif cmd in (0x6F, 0x70):
        f["payload"] = {"interface": c["send_data.interface"], "timeout": c["send_data.timeout"],
                        "cpf": cpf_project(c["send_data.CPF"])}
    else:
        f["payload"] = raw
    return f


def parse_frame(b, structured=True):
    """enip_machine, then CIP on the payload (as the server does) -> (artifact, complete)"""
    L = lib()
    p, complete = run(machine("enip", lambda: L.parser.enip_machine(context="enip", terminal=True)), b)
    if not complete or not structured:
        return p, complete
    if "enip.input" not in p and p["enip.command"] in (0x65, 0x6F, 0x70):
        return p, complete               # like cpppo's client: no payload, nothing for the CIP parser to do
    cip = machine("CIP", lambda: L.parser.CIP(terminal=True))
    data, ok = run(cip, bytes(bytearray(p["enip.input"])) if "enip.input" in p else b"", path="enip", data=p)
    return p, ok


def produce_frame(e, structured=True):
    """enip artifact -> bytes the way cpppo's client/server do it"""
    L = lib()
    if structured and "input" not in e and "CIP" in e:
        e["input"] = bytearray(L.parser.CIP.produce(e))
    return L.parser.enip_encode(e)


def strip_frame_inputs(p):
    """forget every derived encoding so that it must be produced again from the parsed fields"""
    for k in list(p.keys()):
        if k.endswith(".input") and not k.endswith("sender_context.input") and not k.endswith("data.input"):
            if k.endswith("request.input"):
                continue            # opaque encapsulated messages stay (they are re-produced by the caller when parsed)
            # keep raw bodies of unrecognised / null items (they are data, not derived)
            head = k[:-len(".input")]
            if head.endswith("]") and ".item[" in head:
                item = p[head]
                if item.get("type_id") not in (0x01, 0xA1, 0xB1, 0xB2, 0x0C, 0x100):
                    continue
            del p[k]
    return p
