"""The real cpppo client (client.connector, get_attribute.proxy, poll.run) with no sockets and no clocks.

    with clientenv.Env(simobj, plans=[{...}, ...], sched="eager") as env:
        conn = M.client.connector(host="sim", port=44818, timeout=1.0)     # -> a FakeSock, a real server session
        ...

Seams (harness-side only, nothing in /repo is touched):
  client.socket   -> shim: create_connection() returns a FakeSock (everything else is the real socket module)
  client.select, network.select -> shim: select() answers for FakeSocks from their state, delegates real descriptors
  client.misc     -> shim: timer() is the virtual clock (everything else is the real misc module)
  get_attribute.timer, poll.timer -> virtual clock;  poll.time / get_attribute.time -> shim: sleep() advances it

A timeout elapses because the harness says so: select() on a FakeSock that has nothing to deliver advances the virtual
clock by the full timeout and returns "not ready"; with timeout None it raises Hang (the client would block forever).

The FakeSock is the fault injector.  Client->server bytes are handed to a real server session (mc.sim.Session: the real
main.enip_srv_tcp loop; its thread only runs while the harness waits inside feed()) or, with sim=None, to a Recorded
backend replaying reply frames captured earlier.  Server->client bytes are queued and delivered according to the
connection's plan (a dict; connection n uses plans[n], connections beyond the list are healthy):

  mode      "whole" (default; recv returns everything deliverable) | "byte" (one byte per recv) | "frame"
  cut_s     None | p : after p bytes of the server->client stream have been delivered ...
  then      "eof" (the connection ends there) | "silence" (nothing more, ever) | "stall" (nothing until one client
            timeout has elapsed on this socket, then the late bytes arrive)
  cut_q     None | q : the server sees only the first q bytes of the client->server stream, then EOF
  q_after   "swallow" (later sends vanish; default) | "error" (later sends raise socket.error EPIPE)
  drop      iterable of reply-frame ordinals (0 = the first frame the server sends on this connection) never delivered
  refuse    True: create_connection raises ConnectionRefusedError

sched: "eager" = the server answers inside sendall(); "lazy" = requests are only handed to the server when the client
blocks waiting for input (so all pipelined requests are on the wire before any reply exists); "lazy1" = one pending
chunk per blocking wait.

Everything is single-threaded from the harness's point of view and deterministic.
"""
import errno
import struct
import threading

from . import sim as simmod

CURRENT = None          # the active Env (one at a time per process)
_patched = {}


class Hang(BaseException):
    """The client would block forever (select with no timeout and nothing can ever arrive).  BaseException so that
    library `except Exception` clauses cannot swallow it."""


class Clock:
    def __init__(self, start=1000.0):
        self.now = float(start)
        self.sleeps = 0
        self.slept = 0.0

    def timer(self):
        return self.now

    def advance(self, dt):
        if dt and dt > 0:
            self.now += dt

    def sleep(self, dt):
        self.sleeps += 1
        self.slept += max(0.0, dt or 0.0)
        self.advance(dt)
        if CURRENT is not None and CURRENT.on_sleep is not None:
            CURRENT.on_sleep(self)


class _Shim:
    """A module look-alike overriding a few attributes."""

    def __init__(self, real, **over):
        self.__dict__["_real"] = real
        self.__dict__.update(over)

    def __getattr__(self, name):
        return getattr(self._real, name)


# --------------------------------------------------------------------------------------------------
# server back ends

class LiveBackend:
    """One real server session (enip_srv_tcp) per connection."""

    def __init__(self, simobj, addr):
        self.session = simmod.Session(simobj, addr)

    @property
    def finished(self):
        return self.session.finished

    def feed(self, chunk):
        if self.session.finished:
            return []
        return list(self.session.feed(bytes(chunk)))

    def eof(self):
        guard = 0
        out = []
        while not self.session.finished and guard < 50:
            out += self.session.feed(b"")
            guard += 1
        if not self.session.finished:
            raise RuntimeError("server session did not end after EOF")
        self.session.thread.join(10)
        return out


class RecordedBackend:
    """Replays reply frames recorded earlier: the n-th complete request frame is answered by script[n] (a list of
    frames); after the script is exhausted (or on a None entry) the server closes."""

    def __init__(self, script):
        self.script = list(script)
        self.buf = bytearray()
        self.n = 0
        self.finished = False

    def feed(self, chunk):
        if self.finished:
            return []
        self.buf += chunk
        out = []
        while len(self.buf) >= 24:
            ln = struct.unpack_from("<H", self.buf, 2)[0]
            if len(self.buf) < 24 + ln:
                break
            del self.buf[:24 + ln]
            if self.n >= len(self.script) or self.script[self.n] is None:
                self.finished = True
                break
            out += [bytes(f) for f in self.script[self.n]]
            self.n += 1
        return out

    def eof(self):
        self.finished = True
        return []


class ServiceBackend:
    """A remote device reduced to what a forwarding UCMM needs of it: Register Session is answered with a handle, a SendRRData
    request by the recorded reply for its CIP service code -- carrying the request's own session handle and sender context."""

    def __init__(self, register_reply, by_service):
        self.register_reply = bytes(register_reply)
        self.by_service = dict(by_service)           # CIP service code -> recorded SendRRData reply frame
        self.buf = bytearray()
        self.finished = False
        self.requests = []

    def feed(self, chunk):
        if self.finished:
            return []
        self.buf += chunk
        out = []
        while len(self.buf) >= 24:
            ln = struct.unpack_from("<H", self.buf, 2)[0]
            if len(self.buf) < 24 + ln:
                break
            fr = bytes(self.buf[:24 + ln])
            del self.buf[:24 + ln]
            self.requests.append(fr)
            cmd = struct.unpack_from("<H", fr, 0)[0]
            if cmd == 0x65:
                out.append(self.register_reply[:12] + fr[12:20] + self.register_reply[20:])
            elif cmd == 0x6F:
                # interface(4) timeout(2) count(2) item0 type/len(4) item1 type(2) len(2) -> CIP request at offset 24+16
                svc = fr[40] if len(fr) > 40 else None
                if svc == 0x52 and len(fr) > 50:       # Unconnected Send wrapper around the request
                    svc = fr[50]
                rp = self.by_service.get(svc)
                if rp is None:
                    self.finished = True
                    break
                out.append(rp[:4] + fr[4:8] + rp[8:12] + fr[12:20] + rp[20:])
            else:
                self.finished = True
                break
        return out

    def eof(self):
        self.finished = True
        return []


# --------------------------------------------------------------------------------------------------
class FakeSock:
    def __init__(self, env, ordinal, addr, plan, backend):
        self.env = env
        self.ordinal = ordinal
        self.addr = addr
        self.plan = dict(plan or {})
        self.backend = backend
        self.fd = 1000000 + ordinal
        self.mode = self.plan.get("mode", "whole")
        self.cut_s = self.plan.get("cut_s")
        self.then = self.plan.get("then", "eof")
        self.cut_q = self.plan.get("cut_q")
        self.q_after = self.plan.get("q_after", "swallow")
        self.drop = set(self.plan.get("drop") or ())
        self.closed = False
        # client -> server
        self.tx = []                 # chunks as passed to sendall (the Q stream)
        self.sent_total = 0
        self.q_dead = False
        self.pending = []            # lazy scheduling: chunks not yet seen by the server
        self.pending_eof = False
        # server -> client
        self.frames = []             # every reply frame the server produced, in order (before drops)
        self.rxq = []                # [ [frame_ordinal, bytearray remaining, frame length] ... ] deliverable, in order
        self.delivered = 0
        self.delivered_log = bytearray()
        self.frames_complete = set() # ordinals of frames whose last byte has been delivered
        self.stall_expired = False
        self.cut_hit = False
        self.recv_calls = 0
        self.timeouts = 0
        self.backend_ended = False
        if self.cut_q is not None and self.cut_q <= 0:
            self._server_eof()

    # -- socket API as used by client.py / network.py ----------------------------------------------
    def fileno(self):
        if self.closed:
            raise OSError(errno.EBADF, "fake socket closed")
        return self.fd

    def setsockopt(self, *a):
        pass

    def settimeout(self, *a):
        pass

    def getpeername(self):
        return self.addr

    def shutdown(self, how):
        self._server_eof()

    def close(self):
        if not self.closed:
            self.closed = True
            self.env.by_fd.pop(self.fd, None)
            self.pending = []
        self.end_backend()

    def end_backend(self):
        """Let the server session see EOF and finish.  Only ever done from the harness thread: a client.__del__ run
        by the cyclic garbage collector inside a server thread must not hand control to another server thread."""
        if self.backend_ended or threading.get_ident() != self.env.thread:
            return
        self.backend_ended = True
        self.backend.eof()

    def sendall(self, data):
        import socket
        if self.closed:
            raise OSError(errno.EBADF, "fake socket closed")
        data = bytes(data)
        self.tx.append(data)
        before = self.sent_total
        self.sent_total += len(data)
        if self.q_dead:
            if self.q_after == "error":
                raise socket.error(errno.EPIPE, "Broken pipe (scripted)")
            return None
        if self.cut_q is not None and self.sent_total >= self.cut_q:
            part = data[:self.cut_q - before]
            if part:
                self._to_server(part)
            self._server_eof()
            return None
        self._to_server(data)
        return None

    def send(self, data):
        self.sendall(data)
        return len(data)

    def recv(self, maxlen):
        if self.closed:
            raise OSError(errno.EBADF, "fake socket closed")
        self.recv_calls += 1
        allowed = maxlen
        if self.cut_s is not None and not (self.then == "stall" and self.stall_expired):
            allowed = min(allowed, self.cut_s - self.delivered)
            if allowed <= 0:
                self.cut_hit = True
                if self.then == "eof":
                    return b""
                raise Hang("recv() on a silent connection")
        if not self.rxq:
            if self.backend.finished and not self.pending:
                return b""
            raise Hang("recv() with nothing to deliver")
        if self.mode == "byte":
            allowed = min(allowed, 1)
        out = bytearray()
        while self.rxq and len(out) < allowed:
            j, buf, _total = self.rxq[0]
            n = min(len(buf), allowed - len(out))
            out += buf[:n]
            del buf[:n]
            if not buf:
                self.frames_complete.add(j)
                self.rxq.pop(0)
                if self.mode == "frame":
                    break
        self.delivered += len(out)
        self.delivered_log += out
        if self.cut_s is not None and self.delivered >= self.cut_s:
            self.cut_hit = True
        return bytes(out)

    # -- harness side --------------------------------------------------------------------------------
    def _to_server(self, chunk):
        if self.env.sched == "eager":
            self._serve(chunk)
        else:
            self.pending.append(chunk)

    def _server_eof(self):
        self.q_dead = True
        if self.env.sched == "eager" or not self.pending:
            self._accept(self.backend.eof())
        else:
            self.pending_eof = True

    def _serve(self, chunk):
        self._accept(self.backend.feed(chunk))

    def _accept(self, replies):
        for f in replies:
            j = len(self.frames)
            self.frames.append(bytes(f))
            if j not in self.drop:
                self.rxq.append([j, bytearray(f), len(f)])

    def run_pending(self):
        """lazy scheduling: let the server see what the client has sent so far (all of it, or one chunk)"""
        if not self.pending and not self.pending_eof:
            return False
        if self.env.sched == "lazy1" and self.pending:
            self._serve(self.pending.pop(0))
        else:
            chunks, self.pending = self.pending, []
            for c in chunks:
                self._serve(c)
        if self.pending_eof and not self.pending:
            self.pending_eof = False
            self._accept(self.backend.eof())
        return True

    def readable_now(self):
        if self.closed:
            return True          # a real select would fail; let recv report
        if self.cut_s is not None and self.delivered >= self.cut_s and not (self.then == "stall" and self.stall_expired):
            self.cut_hit = True
            return self.then == "eof"
        if self.rxq:
            return True
        return bool(self.backend.finished and not self.pending and not self.pending_eof)

    def expired(self):
        """a client timeout elapsed while waiting on this socket"""
        self.timeouts += 1
        if self.cut_hit and self.then == "stall":
            self.stall_expired = True

    @property
    def undelivered(self):
        return sum(len(e[1]) for e in self.rxq)

    @property
    def mid_frame(self):
        """True when delivery stopped inside a reply frame (its first bytes were delivered, its last were not)"""
        return bool(self.rxq) and len(self.rxq[0][1]) < self.rxq[0][2]


# --------------------------------------------------------------------------------------------------
class Env:
    def __init__(self, simobj=None, plans=(), sched="eager", recorded=None, clock_start=1000.0, on_sleep=None):
        """simobj: mc.sim.Sim (live server) or None with recorded=[script per connection] (RecordedBackend)."""
        self.sim = simobj
        self.plans = list(plans)
        self.sched = sched
        self.recorded = recorded
        self.clock = Clock(clock_start)
        self.socks = []
        self.by_fd = {}
        self.refused = 0
        self.on_sleep = on_sleep
        self.select_calls = 0
        self.thread = threading.get_ident()

    # -- context -------------------------------------------------------------------------------------
    def __enter__(self):
        global CURRENT
        install()
        assert CURRENT is None, "nested clientenv.Env"
        CURRENT = self
        return self

    def __exit__(self, *exc):
        global CURRENT
        CURRENT = None
        self.cleanup()
        return False

    def cleanup(self):
        for s in self.socks:
            s.close()

    # -- seams ---------------------------------------------------------------------------------------
    def create_connection(self, address, timeout=None, source_address=None):
        n = len(self.socks) + self.refused
        plan = self.plans[n] if n < len(self.plans) else {}
        if plan and plan.get("refuse"):
            self.refused += 1
            raise ConnectionRefusedError(errno.ECONNREFUSED, "Connection refused (scripted)")
        peer = ("127.0.0.1", 20001 + n)
        if self.sim is not None:
            backend = LiveBackend(self.sim, peer)
        else:
            k = len(self.socks)
            item = self.recorded[k] if k < len(self.recorded) else self.recorded[-1]
            backend = item() if callable(item) else RecordedBackend(item)      # a factory of content-aware backends, or a script
        s = FakeSock(self, len(self.socks), address, plan, backend)
        self.socks.append(s)
        self.by_fd[s.fd] = s
        return s

    def select(self, r, w, x, timeout=None):
        self.select_calls += 1
        socks_r = [self.by_fd.get(fd) for fd in r]
        socks_w = [self.by_fd.get(fd) for fd in w]
        if any(s is None for s in socks_r + socks_w):
            if all(s is None for s in socks_r + socks_w):
                return _patched["select"].select(r, w, x, timeout)
            raise RuntimeError("select() mixing real and fake descriptors: %r %r" % (r, w))
        ready_w = [s.fd for s in socks_w]            # a fake socket is always writable
        ready_r = [s.fd for s in socks_r if s.readable_now()]
        if ready_r or ready_w:
            return ready_r, ready_w, []
        if timeout is not None and timeout <= 0:
            return [], [], []
        # the client is about to block: under lazy scheduling this is when the server gets to run
        progressed = False
        for s in socks_r:
            progressed = s.run_pending() or progressed
        while progressed:
            ready_r = [s.fd for s in socks_r if s.readable_now()]
            if ready_r:
                return ready_r, [], []
            progressed = False
            for s in socks_r:
                progressed = s.run_pending() or progressed
        if timeout is None:
            raise Hang("select() without timeout on a connection that will never deliver")
        self.clock.advance(timeout)
        for s in socks_r:
            s.expired()
        # late bytes (plan then="stall") arrive only after the timeout has been reported
        return [], [], []

    # -- convenience -----------------------------------------------------------------------------------
    def traffic(self):
        """[(connection ordinal, request chunks, reply frames, delivered bytes)]"""
        return [(s.ordinal, list(s.tx), list(s.frames), bytes(s.delivered_log)) for s in self.socks]


# --------------------------------------------------------------------------------------------------
def install():
    """Patch the cpppo modules once per process; the shims dispatch to the active Env (or the real thing)."""
    if _patched:
        return
    import select as real_select
    import socket as real_socket
    import time as real_time
    M = simmod.mods()
    from cpppo import misc as real_misc
    from cpppo.server import network
    from cpppo.server.enip import client, get_attribute, poll

    def create_connection(address, timeout=None, source_address=None, **kw):
        if CURRENT is None:
            raise RuntimeError("cpppo client used outside a clientenv.Env (real sockets are not allowed here)")
        return CURRENT.create_connection(address, timeout=timeout, source_address=source_address)

    def select(r, w, x, timeout=None):
        if CURRENT is None:
            return real_select.select(r, w, x, timeout)
        return CURRENT.select(list(r), list(w), list(x), timeout)

    def timer():
        if CURRENT is None:
            return real_misc.timer()
        return CURRENT.clock.timer()

    def sleep(dt):
        if CURRENT is None:
            return real_time.sleep(dt)
        return CURRENT.clock.sleep(dt)

    _patched.update(select=real_select, socket=real_socket, time=real_time, misc=real_misc)
    sel = _Shim(real_select, select=select)
    client.socket = _Shim(real_socket, create_connection=create_connection)
    client.select = sel
    network.select = sel
    client.misc = _Shim(real_misc, timer=timer)
    get_attribute.timer = timer
    get_attribute.time = _Shim(real_time, sleep=sleep, time=timer)
    poll.timer = timer
    poll.time = _Shim(real_time, sleep=sleep, time=timer)
    _patched["modules"] = (client, get_attribute, poll, network)


def modules():
    install()
    client, get_attribute, poll, network = _patched["modules"]
    return type("CM", (), dict(client=client, get_attribute=get_attribute, poll=poll, network=network))
