"""./check <ID> [--tier quick|thorough] [--replay file] [--workers N] [--no-confirm]"""
from __future__ import annotations

import argparse
import glob
import importlib
import json
import os
import subprocess
import sys
import time
import traceback

from . import core


def find_module(prop_id):
    hits = glob.glob(os.path.join(core.VERIF, "props", prop_id.lower() + "_*.py"))
    if len(hits) != 1:
        raise core.HarnessError("no unique props module for %s: %r" % (prop_id, hits))
    return importlib.import_module("props." + os.path.basename(hits[0])[:-3])


def confirm(prop_id, path):
    """Replay a recorded case twice in fresh processes; (n_violating, outputs)."""
    n = 0
    outs = []
    for _ in range(2):
        env = dict(os.environ)
        env.pop("VERIF_WORKER", None)
        p = subprocess.run([os.path.join(core.VERIF, "check"), prop_id, "--replay", path],
                           capture_output=True, text=True, env=env, timeout=900)
        outs.append((p.returncode, p.stdout[-2000:], p.stderr[-2000:]))
        if p.returncode == 1 and "VIOLATION property=%s" % prop_id in p.stdout:
            n += 1
        elif p.returncode != 0:
            pass
    return n, outs


def main(argv=None):
    ap = argparse.ArgumentParser()
    ap.add_argument("id")
    ap.add_argument("--tier", default=os.environ.get("VERIF_TIER") or "quick", choices=["quick", "thorough"])
    ap.add_argument("--replay")
    ap.add_argument("--workers", type=int, default=int(os.environ.get("VERIF_WORKERS") or os.cpu_count() or 1))
    ap.add_argument("--no-confirm", action="store_true")
    args = ap.parse_args(argv)
    try:
        seed = int(os.environ.get("VERIF_SEED") or 0)
    except ValueError:
        seed = 0
    prop_id = args.id.upper()

    try:
        core.setup_repo_path()
        core.quiet_logging()
        mod = find_module(prop_id)

        if args.replay:
            with open(args.replay) as f:
                doc = json.load(f)
            case = core.unjson(doc["case"])
            msgs = mod.replay(case)
            if not msgs and doc.get("shard"):
                # the case alone does not reproduce: state carried over from earlier cases of its shard?  re-run the shard
                core.quiet_logging()
                msgs = core.replay_shard(doc)
            if msgs:
                for m in msgs:
                    print("replay: %s" % m)
                print("VIOLATION property=%s replay=%s" % (prop_id, args.replay))
                return 1
            print("replay: no violation for %s" % args.replay)
            return 0

        ctx = core.Ctx(prop_id, args.tier, seed, args.workers)
        try:
            acc = mod.run(ctx)
        finally:
            ctx.close()

        # --- classify violations: known findings vs new ones
        known = core.load_known(prop_id)
        new, seen_known = [], {}
        for v in acc.violations:
            k = core.match_known(known, v)
            if k is not None:
                seen_known.setdefault(k["kind"], (k, v))
            else:
                new.append(v)

        # --- vacuity guards (a check that explored nothing interesting is broken, not green)
        broken = []
        if hasattr(mod, "guards"):
            broken = list(mod.guards(acc, ctx) or [])

        reported = []
        if new and not args.no_confirm:
            kinds_done = set()
            for v in new:
                if v["kind"] in kinds_done and len(reported) >= 3:
                    continue
                path = core.write_replay(prop_id, v)
                n, outs = confirm(prop_id, path)
                if n == 2:
                    reported.append((v, path))
                    kinds_done.add(v["kind"])
                elif n == 0 and all(o[0] == 0 for o in outs):
                    print("HARNESS NONDETERMINISM property=%s case=%s (violation in exploration, none on 2 fresh replays)"
                          % (prop_id, path))
                    print(v["msg"])
                    core.write_evidence(mod, ctx, acc, violations=0)
                    return 3
                else:
                    print("HARNESS NONDETERMINISM/ERROR property=%s case=%s replays=%r" % (prop_id, path, outs))
                    return 3
                if len(reported) >= 8:
                    break
        elif new:
            for v in new[:8]:
                reported.append((v, core.write_replay(prop_id, v)))

        extra = {"known_findings_observed": sorted(seen_known)}
        core.write_evidence(mod, ctx, acc, extra_cov=extra, violations=len(new))

        for kind, (k, v) in sorted(seen_known.items()):
            print("KNOWN-FINDING: property=%s %s [%s]" % (prop_id, k.get("what", ""), kind))
        for k in known:
            if k["kind"] not in seen_known:
                print("note: listed known finding not reproduced on this tree: %s" % k["kind"])

        print("%s tier=%s seed=%d evaluations=%d distinct_nontrivial=%d states=%d outcomes=%d violations=%d (known=%d) wall=%.1fs"
              % (prop_id, args.tier, seed, acc.evaluations, acc.n_nontrivial, len(acc.states),
                 len(acc.outcomes), len(new), len(seen_known), time.time() - ctx.t0))
        if new:
            kinds = {}
            for v in new:
                kinds[v["kind"]] = kinds.get(v["kind"], 0) + 1
            print("violation kinds (recorded, capped): %s; total violations counted: %d" % (
                ", ".join("%s x%d" % kv for kv in sorted(kinds.items())), acc.violations_total))
        if reported:
            # a confirmed violation outranks a failed vacuity guard (a breaking change may well starve a guard)
            for b in broken:
                print("note: vacuity guard not met on this tree: %s" % b)
            for v, path in reported:
                print("violation kind=%s: %s" % (v["kind"], v["msg"].splitlines()[0][:300] if v["msg"] else ""))
                print("VIOLATION property=%s replay=%s" % (prop_id, path))
            return 1
        if broken:
            for b in broken:
                print("BROKEN-CHECK property=%s vacuity guard failed: %s" % (prop_id, b))
            return 2
        return 0
    except core.HarnessError as exc:
        print("BROKEN-CHECK property=%s harness error: %s" % (prop_id, exc))
        return 2
    except Exception:
        traceback.print_exc()
        print("BROKEN-CHECK property=%s harness crashed" % prop_id)
        return 2


if __name__ == "__main__":
    sys.exit(main())
