"""pylogix (an independent EtherNet/IP client) running in-process against the real cpppo server loop -- no sockets.

`pylogix.lgx_comm.socket` is replaced by a shim module object.  Every socket the shim hands out is bound to the
current `Env`; `connect()` starts a fresh `sim.Session` (the REAL main.enip_srv_tcp on a thread parked in a scripted
recv, peer address = 127.0.0.1:<next ephemeral port>), `send()` delivers the bytes as one recv() answer of the server
and collects the reply frames the server sent before it idled again, `recv()` serves those replies.  Exactly one of
client / server runs at any time, so the composition is sequential and deterministic.  pylogix' only other source of
nondeterminism (`randrange` for the T->O connection id and the connection serial) is replaced by a counter.

Nothing in here judges anything: `Env.frames` is the complete transcript (client->server and server->client byte
strings, per TCP session) for the property module's oracle.
"""
import itertools
import socket as _real_socket
import types

from . import sim


class ShimTimeout(_real_socket.timeout):
    pass


class ShimSocket:
    """What pylogix.lgx_comm.Connection needs of a socket object."""

    def __init__(self, env, *args, **kwds):
        self.env = env
        self.session = None
        self.index = None
        self.rx = []
        self.timeout = None
        self.closed = False

    # -- pylogix calls -------------------------------------------------------------------------------
    def settimeout(self, t):
        self.timeout = t

    def setsockopt(self, *a):
        pass

    def connect(self, addr):
        env = self.env
        if env.refuse_connect:
            raise ConnectionRefusedError(111, "scripted: connection refused")
        peer = (env.client_ip, next(env.ports))
        self.session = sim.Session(env.sim, addr=peer)
        self.index = len(env.sessions)
        env.sessions.append(self.session)
        env.peers.append(peer)
        env.server_addr.append(tuple(addr))

    def send(self, data):
        if self.session is None or self.closed:
            raise OSError(9, "shim: send on an unconnected socket")
        data = bytes(data)
        self.env.frames.append((self.index, "tx", data))
        if not self.session.alive:
            raise BrokenPipeError(32, "shim: the server closed this connection")
        for rpy in self.session.feed(data):
            self.env.frames.append((self.index, "rx", rpy))
            self.rx.append(rpy)
        if self.session.finished and self.session.exc is not None:
            self.env.server_exceptions.append((self.index, repr(self.session.exc)))
        return len(data)

    sendall = send

    def recv(self, n):
        if self.rx:
            head = self.rx[0]
            if len(head) <= n:
                self.rx.pop(0)
                return head
            self.rx[0] = head[n:]
            return head[:n]
        if self.session is None or not self.session.alive:
            return b""                                   # orderly EOF from the server
        self.env.timeouts += 1
        raise ShimTimeout("shim: the server sent nothing (a real socket would time out)")

    def close(self):
        if self.closed:
            return
        self.closed = True
        if self.session is not None and self.session.alive:
            exc = self.session.close()
            if exc is not None:
                self.env.server_exceptions.append((self.index, repr(exc)))

    def shutdown(self, *a):
        pass

    def fileno(self):
        return -1


class Env:
    """One in-process 'network': a simulator, the TCP sessions opened against it and their transcript."""

    def __init__(self, sim_obj, client_ip="127.0.0.1", first_port=20001):
        self.sim = sim_obj
        self.client_ip = client_ip
        self.ports = itertools.count(first_port)
        self.sessions = []
        self.peers = []
        self.server_addr = []
        self.frames = []                 # (session index, "tx"|"rx", bytes)
        self.server_exceptions = []      # (session index, repr) -- enip_srv_tcp ended with an exception
        self.timeouts = 0
        self.refuse_connect = False
        self.rand = itertools.count(0x0101)
        install(self)

    def plc(self, connection_size=None, slot=0, timeout=5.0):
        import pylogix
        comm = pylogix.PLC(ip_address="10.0.0.1", slot=slot, timeout=timeout)
        if connection_size is not None:
            comm.ConnectionSize = connection_size
        return comm

    def mark(self):
        return len(self.frames)

    def since(self, mark):
        return self.frames[mark:]

    def close_all(self):
        """EOF every session still open (harness clean-up, not part of any oracle)."""
        for s in self.sessions:
            if s.alive:
                s.close()


_current = {"env": None}
_shim = None


def _make_shim():
    mod = types.ModuleType("pylogix_socket_shim")

    def socket(*a, **kw):
        env = _current["env"]
        if env is None:
            raise RuntimeError("pylogixenv: no Env installed")
        return ShimSocket(env, *a, **kw)

    def getaddrinfo(host, port, *a, **kw):
        return [(_real_socket.AF_INET, _real_socket.SOCK_STREAM, 6, "", (host, port))]

    def gethostname():
        return "localhost"

    mod.socket = socket
    mod.getaddrinfo = getaddrinfo
    mod.gethostname = gethostname
    mod.timeout = _real_socket.timeout
    mod.error = OSError
    mod.__getattr__ = lambda name: getattr(_real_socket, name)      # AF_INET, SOCK_STREAM, SOL_SOCKET ...
    return mod


def install(env):
    """Make `env` the network pylogix talks to (idempotent; the latest Env wins)."""
    global _shim
    import pylogix.lgx_comm as lc
    if _shim is None:
        _shim = _make_shim()
    lc.socket = _shim
    lc.randrange = lambda n: next(_current["env"].rand) % n
    _current["env"] = env
    return env
