"""Fresh, deterministic instances of the real cpppo Logix simulator, driven in-process.

Three seams (all real code, no sockets):
  Sim.cm(cip_bytes, addr)      -- Connection_Manager.request on raw CIP request bytes (object level, ~1 ms)
  Sim.frame(frame_bytes, addr) -- enip_machine parse + logix.process + enip_encode (one whole frame, ~4 ms)
  Sim.session(addr)            -- the real main.enip_srv_tcp loop on a thread parked in a scripted recv()
"""
import contextlib
import itertools
import logging
import random as _random
import sys
import threading

from . import wire

_imported = {}


def mods():
    """Import cpppo lazily (VERIF_REPO may redirect); returns a namespace of the modules used."""
    if not _imported:
        import cpppo
        from cpppo.server import enip, network
        from cpppo.server.enip import device, logix, parser, ucmm, main as enip_main, client
        _imported.update(cpppo=cpppo, enip=enip, network=network, device=device, logix=logix, parser=parser,
                         ucmm=ucmm, main=enip_main, client=client)
    return type("M", (), _imported)


class ScriptedRandom:
    """Deterministic stand-in for the `random` module as used by ucmm/device (randint only)."""

    def __init__(self, start=0x1000):
        self.counter = itertools.count(start)
        self.script = []          # values to hand out first (environment answers: 0, duplicates ...)
        self.calls = 0

    def randint(self, a, b):
        self.calls += 1
        if self.script:
            return self.script.pop(0)
        return next(self.counter)

    def __getattr__(self, name):
        return getattr(_random, name)


_generation = [0]


def reset():
    """Forget every CIP object, tag, session and connection of the in-process simulator."""
    M = mods()
    _generation[0] += 1
    M.device.lookup_reset()
    M.logix.setup_reset()
    M.ucmm.UCMM.sessions.clear()
    M.device.Connection_Manager.forwards.clear()
    dict.clear(M.main.tags)
    dict.clear(M.main.options)      # main() is a once-per-process entry point: its module-level options persist
    dict.clear(M.main.srv_ctl)
    M.main.connections.clear() if hasattr(M.main.connections, "clear") else None
    M.device.dialect = None
    # Shared class-level parsers may be left locked by an exception thrown through a `with parser:` -- they are not
    # (the context manager releases), but a harness-level abort could; make the next case independent of the last.
    rnd = ScriptedRandom()
    M.ucmm.random = rnd
    M.device.random = rnd
    return rnd


TYPE_DEFAULT = {"REAL": 0.0, "LREAL": 0.0, "SSTRING": "", "STRING": ""}


class Sim:
    """cfg: list of (name, TYPE, length, address or None), e.g. ("a","INT",3,None), ("b","DINT",2,"0x401/1/1")."""

    def __init__(self, cfg, via_main=False, ucmm_class=None, main_args=(), max_bytes=None, attribute_class=None):
        M = mods()
        self.M = M
        self.cfg = list(cfg)
        self.rnd = reset()
        self.gen = _generation[0]
        self.extra = {}
        if via_main:
            self.tags, opts = self._config_via_main(main_args, attribute_class)
            for k in ("UCMM_class", "identity_class", "message_router_class", "connection_manager_class"):
                if k in opts:
                    self.extra[k] = opts[k]
        else:
            self.tags = self._config_direct(attribute_class)
        if ucmm_class is not None:
            self.extra["UCMM_class"] = ucmm_class
        self.control = M.cpppo.dotdict(done=False, disable=False, latency=0.0)
        self.kwds = dict(tags=self.tags, server=M.cpppo.dotdict(control=self.control), **self.extra)
        M.logix.Logix.MAX_BYTES = 488 if max_bytes is None else max_bytes      # the documented, user-alterable class attribute
        self.ucmm = M.logix.setup(**self.kwds)
        self.attrs = {}
        for name in dict.keys(self.tags):
            self.attrs[name] = dict.__getitem__(self.tags, name)["attribute"]
        # the Attribute actually installed in the object tree must be the one we watch
        self.config_problems = []       # what a configuration-level oracle may want to report (C03): aliasing of tags
        for name in self.attrs:
            ids = M.device.resolve_tag(name)
            assert ids, "tag %r not resolvable after setup" % name
            att = M.device.lookup(*ids)
            if att is not self.attrs[name]:
                self.config_problems.append("tag %r resolves to %r whose Attribute %r is not the one configured for it (%r)"
                                            % (name, ids, att, self.attrs[name]))
        self.addr_of = {name: M.device.resolve_tag(name) for name in self.attrs}
        seen = {}
        for name, typ, length, address in self.cfg:
            a = tuple(self.addr_of[name])
            if a in seen and not address:
                self.config_problems.append("tags %r and %r were both given address %r" % (seen[a], name, a))
            seen.setdefault(a, name)

    # -- configuration ---------------------------------------------------------------------------
    def _tagspecs(self):
        out = []
        for name, typ, length, address in self.cfg:
            spec = name + ("@" + address if address else "") + "=" + typ + ("[%d]" % length if length is not None else "")
            out.append(spec)
        return out

    def _config_via_main(self, main_args, attribute_class):
        M = self.M
        captured = {}

        def fake_server_main(**kw):
            captured.update(kw)
            kw["kwargs"]["server"]["control"]["done"] = True

        real = M.network.server_main
        M.network.server_main = fake_server_main
        try:
            kw = {}
            if attribute_class is not None:
                kw["attribute_class"] = attribute_class
            rc = M.main.main(argv=["--no-config", "-a", "localhost:0"] + list(main_args) + self._tagspecs(), **kw)
            assert rc == 0, "main() returned %r" % rc
        finally:
            M.network.server_main = real
        opts = captured["kwargs"]
        tags = opts["tags"]
        # main() keeps one module-level tags dict; take a private copy so later Sims do not alias it
        private = M.cpppo.dotdict()
        for k in dict.keys(tags):
            dict.__setitem__(private, k, dict.__getitem__(tags, k))
        return private, opts

    def _config_direct(self, attribute_class):
        M = self.M
        tags = M.cpppo.dotdict()
        by_addr = {}
        for name, typ, length, address in self.cfg:
            cls = getattr(M.parser, typ)
            dflt = TYPE_DEFAULT.get(typ, 0)
            n = 1 if length is None else length
            path = None
            attribute = None
            if address:
                segs, elm, cnt = M.device.parse_path_elements("@" + address)
                path = {"segment": segs}
                key = M.device.resolve(path, attribute=True)
                attribute = by_addr.get(key)
            if attribute is None:
                attribute = (attribute_class or M.device.Attribute)(name, cls, default=dflt if n == 1 else [dflt] * n)
                if address:
                    by_addr[key] = attribute
            entry = M.cpppo.dotdict()
            entry.attribute = attribute
            entry.path = path
            entry.error = 0
            dict.__setitem__(tags, name, entry)
        return tags

    # -- state -----------------------------------------------------------------------------------
    def live(self):
        if self.gen != _generation[0]:
            raise RuntimeError("harness error: this Sim was superseded by a newer Sim (only one simulator per process)")

    def store(self):
        """Canonical tag-store contents: tuple of (name, tuple(values)) in configuration order."""
        self.live()
        out = []
        for name, a in self.attrs.items():
            v = a.value
            out.append((name, tuple(v) if isinstance(v, list) else (v,)))
        return tuple(out)

    def set_store(self, store):
        for name, vals in store:
            a = self.attrs[name]
            if a.scalar:
                a.default = vals[0]
            else:
                a.default[:] = list(vals)

    # -- object level ----------------------------------------------------------------------------
    def cm(self, cip, addr=("127.0.0.1", 10001)):
        """Hand raw CIP request bytes to the Connection Manager the way UCMM does for a bare (unwrapped)
        Unconnected Send; returns reply bytes.  Exceptions propagate (UCMM would turn them into enip status 8)."""
        M = self.M
        self.live()
        unc = M.cpppo.dotdict()
        unc.request = M.cpppo.dotdict()
        unc.request.input = bytearray(cip)
        CM = M.device.lookup(class_id=0x06, instance_id=1)
        CM.request(unc, addr=addr)
        return bytes(unc.request.input)

    # -- frame level -----------------------------------------------------------------------------
    def frame(self, data, addr=("127.0.0.1", 10001)):
        """One complete encapsulated request through enip_machine + logix.process + enip_encode.
        Returns (reply_bytes_or_None, proceed, enip_status).  Exceptions from logix.process propagate."""
        M = self.M
        self.live()
        d = M.cpppo.dotdict()
        source = M.cpppo.peekable(bytes(data))
        with M.parser.enip_machine(context="enip") as machine:
            with contextlib.closing(machine.run(path="request", source=source, data=d)) as engine:
                for m, s in engine:
                    pass
        assert "request.enip.length" in d and len(d.request.enip.get("input", b"")) == d.request.enip.length, \
            "harness fed an incomplete frame to Sim.frame"
        assert source.peek() is None, "harness fed trailing bytes to Sim.frame"
        proceed = M.logix.process(addr, data=d, **self.kwds)
        if not proceed:
            return None, proceed, None
        rpy = M.parser.enip_encode(d.response.enip)
        return bytes(rpy), proceed, d.response.enip.status

    def register(self, addr=("127.0.0.1", 10001)):
        rpy, proceed, status = self.frame(wire.register(), addr)
        fr, rest = wire.dec_frame(rpy)
        assert fr["command"] == 0x65 and fr["status"] == 0 and fr["session"], "register failed in harness: %r" % fr
        return fr["session"]

    def rr(self, session, cip, addr=("127.0.0.1", 10001), context=b"\x00" * 8, route_path=None):
        """SendRRData carrying `cip`; returns (cip_reply_bytes or None, enip_status, frame dict or None)."""
        rpy, proceed, status = self.frame(wire.send_rr_data(session, cip, context=context, route_path=route_path), addr)
        if rpy is None:
            return None, None, None
        fr, rest = wire.dec_frame(rpy)
        if fr["status"] != 0 or not fr["payload"]:
            return None, fr["status"], fr
        sd = wire.dec_send_data(fr)
        return sd.get("cip"), fr["status"], fr

    def close(self):
        pass


# --------------------------------------------------------------------------------------------------
# full-stack session: the real enip_srv_tcp loop on a parked thread

class FakeConn:
    """What enip_srv_tcp needs of a socket; recv is scripted through network.recv (patched)."""

    def __init__(self, name):
        self.name = name
        self.sent = []            # reply byte strings, in send order
        self.closed = False
        self.send_error_after = None   # raise socket.error on the n-th send (environment answer)
        self.to_server = threading.Semaphore(0)
        self.to_harness = threading.Semaphore(0)
        self.inbox = None
        self.recv_calls = 0

    def send(self, data):
        import socket
        if self.send_error_after is not None and len(self.sent) >= self.send_error_after:
            raise socket.error("scripted send failure")
        self.sent.append(bytes(data))
        return len(data)

    sendall = send

    def close(self):
        self.closed = True

    def shutdown(self, *a):
        pass

    def fileno(self):
        return -1


_recv_patched = False


def patch_recv():
    """Route cpppo.server.network.recv for FakeConn objects through their script."""
    global _recv_patched
    if _recv_patched:
        return
    M = mods()
    real = M.network.recv

    def recv(conn, maxlen=1024, timeout=0):
        if not isinstance(conn, FakeConn):
            return real(conn, maxlen=maxlen, timeout=timeout)
        conn.recv_calls += 1
        conn.to_harness.release()          # "I am idle, waiting for input"
        conn.to_server.acquire()
        msg, conn.inbox = conn.inbox, None
        return msg                         # bytes, b'' (EOF) or None (nothing yet)

    M.network.recv = recv
    M.main.network.recv = recv
    _recv_patched = True


class SessionHang(RuntimeError):
    """The server thread is stuck (blocked on a lock it can never get, or spinning outside Python-level calls)."""


class StepBudgetExceeded(BaseException):
    """Raised inside the server thread (from the profile hook) when it exceeds its hard step cap: a hang made finite."""


class Session:
    """Runs main.enip_srv_tcp(conn, addr, ...) on its own thread; exactly one of harness/server runs at a time.

    enip_process: replace the request processor (e.g. a spy around logix.process).
    count_steps:  count Python function calls made by the server thread (deterministic measure of work: self.steps);
                  step_cap aborts the thread with StepBudgetExceeded when exceeded.
    runner:       run through network.server_thread(...).run(), the production per-connection wrapper."""

    def __init__(self, sim, addr=("127.0.0.1", 10001), name=None, enip_process=None, count_steps=False, step_cap=None,
                 runner=False, wait_timeout=60):
        self.wait_timeout = wait_timeout
        patch_recv()
        self.sim = sim
        self.addr = addr
        self.conn = FakeConn(name or "conn%s" % (addr[1],))
        self.exc = None
        self.finished = False
        self.steps = 0
        self.step_cap = step_cap
        M = sim.M
        process = enip_process or M.logix.process

        def hook(frame, event, arg):
            if event == "call":
                self.steps += 1
                if self.step_cap is not None and self.steps > self.step_cap:
                    sys.setprofile(None)
                    raise StepBudgetExceeded("server thread exceeded %d steps" % self.step_cap)

        def body():
            try:
                if count_steps:
                    sys.setprofile(hook)
                if runner:
                    t = M.network.server_thread(target=M.main.enip_srv_tcp, args=(self.conn, addr),
                                                kwargs=dict(name=self.conn.name, enip_process=process, **sim.kwds))
                    t.run()
                else:
                    M.main.enip_srv_tcp(self.conn, addr, name=self.conn.name, enip_process=process, **sim.kwds)
            except BaseException as exc:  # recorded for the oracle; enip_srv_tcp re-raises parse errors by design
                self.exc = exc
            finally:
                sys.setprofile(None)
                self.finished = True
                self.conn.to_harness.release()

        self.thread = threading.Thread(target=body, daemon=True, name=self.conn.name)
        self.thread.start()
        self._wait()

    def _wait(self):
        if not self.conn.to_harness.acquire(timeout=self.wait_timeout):
            raise SessionHang("server thread neither asked for input nor ended within %d s" % self.wait_timeout)

    @property
    def alive(self):
        return not self.finished

    def feed(self, chunk):
        """Deliver one recv() answer (bytes / b'' EOF / None 'nothing yet'); returns replies sent meanwhile."""
        if self.finished:
            raise RuntimeError("feed() on a finished session")
        n = len(self.conn.sent)
        self.conn.inbox = chunk
        self.conn.to_server.release()
        self._wait()
        return self.conn.sent[n:]

    def request(self, frame):
        """Feed one whole frame; return the reply frames produced before the server idles again."""
        return self.feed(frame)

    def close(self):
        """EOF, then join."""
        if not self.finished:
            self.feed(b"")
        # the server may ask again after EOF only if it had buffered input; drain
        guard = 0
        while not self.finished and guard < 50:
            self.feed(b"")
            guard += 1
        self.thread.join(10)
        return self.exc


# --------------------------------------------------------------------------------------------------
# datagram service: the real enip_srv_udp loop over a scripted recvfrom(), run synchronously

class FakeUdpConn:
    def __init__(self, script):
        self.script = list(script)          # [(payload, from_addr)]
        self.cursor = -1                    # index of the datagram delivered last
        self.sent = []                      # (index of the datagram being served, reply bytes, to_addr)

    def sendto(self, data, addr):
        self.sent.append((self.cursor, bytes(data), addr))
        return len(data)


class _UdpScriptEnd(Exception):
    pass


def run_udp(sim, script, step_cap=None):
    """Serve the datagrams of `script` = [(payload, from_addr)] with the real main.enip_srv_udp (one peerless socket, many peers).
    -> {"sent": [(datagram index, reply, to_addr)], "steps": [python calls spent per datagram], "blown": step cap exceeded?,
        "escaped": exception text if anything left enip_srv_udp}.  The loop is ended through its documented control.done flag."""
    M = sim.M
    conn = FakeUdpConn(script)
    control = sim.kwds["server"]["control"]
    steps = [0] * (len(script) + 1)
    state = {"blown": False}

    def recvfrom(c, maxlen=4 * 1024, timeout=0):
        if c is not conn:
            raise AssertionError("harness: unexpected socket in recvfrom")
        conn.cursor += 1
        if state["blown"] or conn.cursor >= len(conn.script):
            control["done"] = True
            raise _UdpScriptEnd()                 # ends the wait-for-a-datagram loop; the server loop then sees control.done
        return conn.script[conn.cursor]

    def hook(frame, event, arg):
        if event == "call":
            i = min(max(conn.cursor, 0), len(steps) - 1)
            steps[i] += 1
            if step_cap is not None and steps[i] > step_cap and not state["blown"]:
                state["blown"] = True
                sys.setprofile(None)
                raise StepBudgetExceeded("datagram %d: more than %d steps" % (i, step_cap))

    real = M.main.network.recvfrom
    M.main.network.recvfrom = recvfrom
    escaped = None
    lvl = logging.getLogger().level
    logging.getLogger().setLevel(logging.CRITICAL + 1)       # the loop logs every refused datagram with a traceback
    hook_unraisable = sys.unraisablehook
    sys.unraisablehook = lambda u: None      # a sub-machine generator closed in mid-parse may fail in its terminate(): "ignored" by Python
    try:
        sys.setprofile(hook)
        M.main.enip_srv_udp(conn, name="udp", enip_process=M.logix.process, **sim.kwds)
    except BaseException as exc:
        escaped = "%s: %s" % (type(exc).__name__, exc)
    finally:
        sys.setprofile(None)
        sys.unraisablehook = hook_unraisable
        M.main.network.recvfrom = real
        control["done"] = False
        logging.getLogger().setLevel(lvl)
    return {"sent": conn.sent, "steps": steps[:len(script)], "blown": state["blown"], "escaped": escaped}
