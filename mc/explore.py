"""E-state: level-synchronous breadth-first search over canonical states, expansion sharded over the worker pool.

    total = bfs(ctx, modname, "expand", roots, chunk=8, key=None, max_states=None)

`expand(acc, item, tier, seed)` is a module-level function; item = (config, [states...], (k, K)) -- the shard runs slice k of K of the alphabet.  For every state it must
restore the real object to that state, execute every transition of the alphabet, judge it, and add each successor
state (hashable, picklable) to `acc.succ`, count `acc.count("transitions")`.  bfs() records every distinct state with
acc.state() and stops at closure (empty frontier) or at max_states (then counts cap_hit).
"""
from . import core


def bfs(ctx, mod, fname, roots, chunk=8, max_states=None, max_depth=None, splits=1):
    """roots: list of (config, state).  States are de-duplicated per config."""
    total = core.Acc()
    seen = {}
    frontier = []
    for cfg, st in roots:
        if st not in seen.setdefault(cfg, set()):
            seen[cfg].add(st)
            frontier.append((cfg, st))
            total.state((cfg, st))
    depth = 0
    while frontier:
        if max_depth is not None and depth >= max_depth:
            total.count("cap_hit")
            total.note("BFS stopped at depth %d with %d unexpanded states" % (depth, len(frontier)))
            break
        by_cfg = {}
        for cfg, st in frontier:
            by_cfg.setdefault(cfg, []).append(st)
        items = []
        for cfg, sts in by_cfg.items():
            for i in range(0, len(sts), chunk):
                for k in range(splits):
                    items.append((cfg, sts[i:i + chunk], (k, splits)))
        level = ctx.pmap(mod, fname, items)
        succ = level.succ
        level.succ = set()
        total.merge(level)
        frontier = []
        for cfg, st in sorted(succ, key=repr):
            if st not in seen.setdefault(cfg, set()):
                if max_states is not None and sum(len(v) for v in seen.values()) >= max_states:
                    total.count("cap_hit")
                    total.note("BFS stopped adding states at max_states=%d" % max_states)
                    frontier = []
                    break
                seen[cfg].add(st)
                total.state((cfg, st))
                frontier.append((cfg, st))
        depth += 1
        total.cmax("max_depth", depth)
    total.succ = set()
    return total
