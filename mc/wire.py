"""Minimal, cpppo-free wire encoders/decoders for the stateful server checks (struct only).

Written from the CIP / Logix layout tables; used to build request bytes and to decode reply bytes so that
oracles compare what is on the wire, never cpppo's own dictionaries.  (mc/refcip.py is the full reference
codec with field maps; this module is the small, fast subset the explorers need in their inner loops.)
"""
import struct

# ---- CIP elementary types ---------------------------------------------------------------------
BOOL, SINT, INT, DINT, LINT = 0xC1, 0xC2, 0xC3, 0xC4, 0xC5
USINT, UINT, UDINT, ULINT = 0xC6, 0xC7, 0xC8, 0xC9
REAL, LREAL = 0xCA, 0xCB
SSTRING, STRING = 0xDA, 0xD0
TYPE_CODE = dict(BOOL=BOOL, SINT=SINT, INT=INT, DINT=DINT, LINT=LINT, USINT=USINT, UINT=UINT, UDINT=UDINT,
                 ULINT=ULINT, REAL=REAL, LREAL=LREAL, SSTRING=SSTRING, STRING=STRING)
TYPE_NAME = {v: k for k, v in TYPE_CODE.items()}
FMT = {BOOL: "<B", SINT: "<b", INT: "<h", DINT: "<i", LINT: "<q", USINT: "<B", UINT: "<H", UDINT: "<I", ULINT: "<Q",
       REAL: "<f", LREAL: "<d"}
SIZE = {t: struct.calcsize(f) for t, f in FMT.items()}
INT_RANGE = {SINT: (-2**7, 2**7 - 1), INT: (-2**15, 2**15 - 1), DINT: (-2**31, 2**31 - 1), LINT: (-2**63, 2**63 - 1),
             USINT: (0, 2**8 - 1), UINT: (0, 2**16 - 1), UDINT: (0, 2**32 - 1), ULINT: (0, 2**64 - 1)}


class WireError(Exception):
    pass


def enc_value(t, v):
    if t == BOOL:
        return b"\xff" if v else b"\x00"
    if t == SSTRING:
        b = v.encode("iso-8859-1")
        return struct.pack("<B", len(b)) + b
    if t == STRING:
        b = v.encode("iso-8859-1")
        return struct.pack("<H", len(b)) + b + (b"\x00" if len(b) % 2 else b"")
    return struct.pack(FMT[t], v)


def enc_values(t, vals):
    return b"".join(enc_value(t, v) for v in vals)


def dec_values(t, data):
    """Decode a run of elements of type t filling `data` exactly."""
    out, i = [], 0
    if t in FMT:
        sz = SIZE[t]
        if len(data) % sz:
            raise WireError("typed data %d bytes not a multiple of element size %d" % (len(data), sz))
        for i in range(0, len(data), sz):
            v = struct.unpack_from(FMT[t], data, i)[0]
            out.append(bool(v) if t == BOOL else v)
        return out
    while i < len(data):
        if t == SSTRING:
            n = data[i]; i += 1
            pad = 0
        elif t == STRING:
            if i + 2 > len(data):
                raise WireError("truncated STRING length")
            n = struct.unpack_from("<H", data, i)[0]; i += 2
            pad = n % 2
        else:
            raise WireError("unknown type 0x%04x" % t)
        if i + n + pad > len(data):
            raise WireError("truncated string body")
        out.append(bytes(data[i:i + n]).decode("iso-8859-1"))
        i += n + pad
    return out


# ---- EPATH ------------------------------------------------------------------------------------
def _logical(kind8, v, allow32=False):
    if 0 <= v <= 0xFF:
        return bytes([kind8, v])
    if v <= 0xFFFF:
        return bytes([kind8 | 1, 0]) + struct.pack("<H", v)
    if allow32 and v <= 0xFFFFFFFF:
        return bytes([kind8 | 2, 0]) + struct.pack("<I", v)
    raise WireError("segment value out of range: %r" % v)


def seg(**kw):
    (k, v), = kw.items()
    return (k, v)


def enc_segments(segs):
    """segs: list of (kind, value), kind in class/instance/attribute/element/connection/symbolic/port"""
    out = b""
    for k, v in segs:
        if k == "class":
            out += _logical(0x20, v)
        elif k == "instance":
            out += _logical(0x24, v, True)
        elif k == "attribute":
            out += _logical(0x30, v)
        elif k == "element":
            out += _logical(0x28, v, True)
        elif k == "connection":
            out += _logical(0x2C, v)
        elif k == "symbolic":
            b = v.encode("iso-8859-1") if isinstance(v, str) else bytes(v)
            out += bytes([0x91, len(b)]) + b + (b"\x00" if len(b) % 2 else b"")
        elif k == "port":
            port, link = v
            if isinstance(link, int):
                if port < 0x0F:
                    out += bytes([port, link])
                else:
                    out += bytes([0x0F]) + struct.pack("<H", port) + bytes([link])
                    out += b"\x00"  # pad to even
            else:
                lb = link.encode("ascii")
                if port < 0x0F:
                    seg_ = bytes([0x10 | port, len(lb)]) + lb
                else:
                    seg_ = bytes([0x1F, len(lb)]) + struct.pack("<H", port) + lb
                out += seg_ + (b"\x00" if len(seg_) % 2 else b"")
        else:
            raise WireError("unknown segment kind %r" % k)
    return out


def enc_path(segs):
    b = enc_segments(segs)
    assert len(b) % 2 == 0
    return bytes([len(b) // 2]) + b


def tag_path(name, element=None):
    """symbolic path for 'Tag' or 'Tag.Sub', optional element index"""
    segs = [("symbolic", part) for part in name.split(".")]
    if element is not None:
        segs.append(("element", element))
    return segs


def cia_path(cls, ins, att=None, element=None):
    segs = [("class", cls), ("instance", ins)]
    if att is not None:
        segs.append(("attribute", att))
    if element is not None:
        segs.append(("element", element))
    return segs


# ---- CIP service requests ---------------------------------------------------------------------
def read_tag(path, elements=1):
    return b"\x4c" + enc_path(path) + struct.pack("<H", elements)


def read_frag(path, elements=1, offset=0):
    return b"\x52" + enc_path(path) + struct.pack("<HI", elements, offset)


def write_tag(path, t, vals, elements=None):
    return b"\x4d" + enc_path(path) + struct.pack("<HH", t, len(vals) if elements is None else elements) + enc_values(t, vals)


def write_frag(path, t, vals, elements=None, offset=0):
    return (b"\x53" + enc_path(path) + struct.pack("<HHI", t, len(vals) if elements is None else elements, offset)
            + enc_values(t, vals))


def get_attribute_single(path):
    return b"\x0e" + enc_path(path)


def set_attribute_single(path, raw):
    return b"\x10" + enc_path(path) + bytes(raw)


def get_attributes_all(path):
    return b"\x01" + enc_path(path)


def generic(service, path, payload=b""):
    return bytes([service]) + enc_path(path) + bytes(payload)


def multiple(requests, path=(("class", 2), ("instance", 1))):
    n = len(requests)
    offs, pos = [], 2 + 2 * n
    for r in requests:
        offs.append(pos)
        pos += len(r)
    return b"\x0a" + enc_path(list(path)) + struct.pack("<H", n) + b"".join(struct.pack("<H", o) for o in offs) + b"".join(requests)


# ---- replies ----------------------------------------------------------------------------------
def dec_reply(b):
    """Generic CIP reply: dict(service, status, ext=[...], payload=bytes).  Raises WireError if malformed."""
    b = bytes(b)
    if len(b) < 4:
        raise WireError("reply shorter than 4 bytes: %r" % b)
    service, reserved, status, extsz = b[0], b[1], b[2], b[3]
    if not service & 0x80:
        raise WireError("reply service 0x%02x lacks reply bit" % service)
    if len(b) < 4 + 2 * extsz:
        raise WireError("truncated extended status")
    ext = list(struct.unpack_from("<%dH" % extsz, b, 4))
    return dict(service=service, reserved=reserved, status=status, ext=ext, payload=b[4 + 2 * extsz:])


def dec_read_reply(b):
    """Read Tag [Fragmented] reply: + type, values (when status 0 or 6)."""
    r = dec_reply(b)
    if r["service"] not in (0xCC, 0xD2):
        raise WireError("not a read reply: 0x%02x" % r["service"])
    if r["status"] in (0x00, 0x06):
        p = r["payload"]
        if len(p) < 2:
            raise WireError("read reply without type")
        t = struct.unpack_from("<H", p, 0)[0]
        r["type"] = t
        if t == 0x02A0:
            r["structure_tag"] = struct.unpack_from("<H", p, 2)[0]
            r["raw"] = p[4:]
            r["values"] = None
        else:
            r["raw"] = p[2:]
            r["values"] = dec_values(t, p[2:])
    elif r["payload"]:
        raise WireError("error reply carries payload %r" % r["payload"])
    return r


def dec_multiple_reply(b):
    r = dec_reply(b)
    if r["service"] != 0x8A:
        raise WireError("not a Multiple Service reply: 0x%02x" % r["service"])
    p = r["payload"]
    r["members"] = []
    if not p:
        return r
    n = struct.unpack_from("<H", p, 0)[0]
    if len(p) < 2 + 2 * n:
        raise WireError("truncated offset table")
    offs = list(struct.unpack_from("<%dH" % n, p, 2))
    r["offsets"] = offs
    if n and offs[0] != 2 + 2 * n:
        raise WireError("first offset %d != 2+2N (%d)" % (offs[0], 2 + 2 * n))
    for i, o in enumerate(offs):
        e = offs[i + 1] if i + 1 < n else len(p)
        if not (o <= e <= len(p)) or (i and o < offs[i - 1]):
            raise WireError("offset table not monotone / beyond data: %r len %d" % (offs, len(p)))
        r["members"].append(p[o:e])
    return r


# ---- encapsulation ----------------------------------------------------------------------------
def frame(command, payload=b"", session=0, status=0, context=b"\x00" * 8, options=0):
    assert len(context) == 8
    return struct.pack("<HHII", command, len(payload), session, status) + context + struct.pack("<I", options) + payload


def dec_frame(b):
    b = bytes(b)
    if len(b) < 24:
        raise WireError("short frame header: %d bytes" % len(b))
    command, length, session, status = struct.unpack_from("<HHII", b, 0)
    context = b[12:20]
    options = struct.unpack_from("<I", b, 20)[0]
    if len(b) < 24 + length:
        raise WireError("frame payload truncated: have %d need %d" % (len(b) - 24, length))
    return dict(command=command, length=length, session=session, status=status, context=context, options=options,
                payload=b[24:24 + length]), b[24 + length:]


def split_frames(b):
    out = []
    b = bytes(b)
    while b:
        f, b = dec_frame(b)
        out.append(f)
    return out


def register(context=b"\x00" * 8, version=1, options=0):
    return frame(0x65, struct.pack("<HH", version, options), 0, 0, context)


def unregister(session, context=b"\x00" * 8):
    return frame(0x66, b"", session, 0, context)


def cpf(items):
    out = struct.pack("<H", len(items))
    for t, d in items:
        out += struct.pack("<HH", t, len(d)) + d
    return out


def dec_cpf(b):
    if len(b) < 2:
        raise WireError("short CPF")
    n = struct.unpack_from("<H", b, 0)[0]
    i, items = 2, []
    for _ in range(n):
        if i + 4 > len(b):
            raise WireError("truncated CPF item header")
        t, ln = struct.unpack_from("<HH", b, i)
        i += 4
        if i + ln > len(b):
            raise WireError("truncated CPF item body")
        items.append((t, b[i:i + ln]))
        i += ln
    return items, b[i:]


def unconnected_send(cip, route_path=None, priority=5, ticks=157, send_path=(("class", 6), ("instance", 1))):
    """route_path None => bare request (no 0x52 wrapper); a list (possibly empty) => wrapped."""
    if route_path is None:
        return cip
    rp = enc_segments(route_path)
    return (b"\x52" + enc_path(list(send_path)) + struct.pack("<BBH", priority, ticks, len(cip)) + cip
            + (b"\x00" if len(cip) % 2 else b"") + bytes([len(rp) // 2, 0]) + rp)


def send_rr_data(session, cip, context=b"\x00" * 8, route_path=None, timeout=5, **kw):
    body = struct.pack("<IH", 0, timeout) + cpf([(0x0000, b""), (0x00B2, unconnected_send(cip, route_path, **kw))])
    return frame(0x6F, body, session, 0, context)


def send_unit_data(session, conn_id, seq, cip, context=b"\x00" * 8, timeout=0):
    body = struct.pack("<IH", 0, timeout) + cpf([(0x00A1, struct.pack("<I", conn_id)), (0x00B1, struct.pack("<H", seq) + cip)])
    return frame(0x70, body, session, 0, context)


def dec_send_data(fr):
    """For a decoded SendRRData/SendUnitData frame: returns dict(kind, cip=bytes, conn_id, seq, items)."""
    p = fr["payload"]
    if len(p) < 6:
        raise WireError("short send_data payload")
    iface, timeout = struct.unpack_from("<IH", p, 0)
    items, rest = dec_cpf(p[6:])
    if rest:
        raise WireError("trailing bytes after CPF: %r" % rest)
    out = dict(interface=iface, timeout=timeout, items=items)
    if len(items) == 2 and items[0] == (0x0000, b"") and items[1][0] == 0x00B2:
        out.update(kind="unconnected", cip=items[1][1])
    elif len(items) == 2 and items[0][0] == 0x00A1 and items[1][0] == 0x00B1 and len(items[0][1]) == 4 and len(items[1][1]) >= 2:
        out.update(kind="connected", conn_id=struct.unpack("<I", items[0][1])[0],
                   seq=struct.unpack_from("<H", items[1][1], 0)[0], cip=items[1][1][2:])
    else:
        out.update(kind="other")
    return out
