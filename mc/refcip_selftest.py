"""Self-test of mc.refcip (run: `cd /verif && /venv/bin/python -m mc.refcip`).

1. decode(encode(v)) == v, field maps tile the output, for a boundary set of every grammar element;
2. encoders reject out-of-range values; decoders reject every strict prefix and one trailing byte;
3. every canned packet literal of /repo/server/enip_test.py and logix_test.py (extracted with `ast`, nothing of
   cpppo is imported) decodes, and re-encoding the decoded value regenerates the capture when it is canonical.
"""
import ast
import itertools
import math
import os
import struct
import sys

from mc import refcip as R

U8 = [0, 1, 0x7F, 0x80, 0xFE, 0xFF]
U16 = [0, 1, 0xFF, 0x100, 0x7FFF, 0x8000, 0xFFFF]
U32 = [0, 1, 0xFFFF, 0x10000, 0x7FFFFFFF, 0x80000000, 0xFFFFFFFF]
U64 = [0, 1, 0xFFFFFFFF, 0x100000000, 0x7FFFFFFFFFFFFFFF, 0x8000000000000000, 0xFFFFFFFFFFFFFFFF]

SCALARS = {
    "BOOL": [False, True],
    "SINT": [-128, -1, 0, 1, 127], "USINT": U8,
    "INT": [-32768, -1, 0, 1, 32767], "UINT": U16, "WORD": U16,
    "DINT": [-2 ** 31, -1, 0, 1, 2 ** 31 - 1], "UDINT": U32, "DWORD": U32,
    "LINT": [-2 ** 63, -1, 0, 1, 2 ** 63 - 1], "ULINT": U64,
    "REAL": [0.0, -0.0, 1.0, -1.5, 3.4028234663852886e38, 1.401298464324817e-45, float("inf"), float("-inf")],
    "LREAL": [0.0, -0.0, 1.0, -1.5, 1.7976931348623157e308, 5e-324, 0.1, float("inf"), float("-inf")],
    "UINT_network": U16, "INT_network": [-32768, -1, 0, 32767], "UDINT_network": U32,
    "DINT_network": [-2 ** 31, -1, 0, 2 ** 31 - 1], "REAL_network": [0.0, 1.0, -1.5],
}
OUT_OF_RANGE = {
    "SINT": [-129, 128], "USINT": [-1, 256], "INT": [-32769, 32768], "UINT": [-1, 65536], "DINT": [-2 ** 31 - 1, 2 ** 31],
    "UDINT": [-1, 2 ** 32], "LINT": [-2 ** 63 - 1, 2 ** 63], "ULINT": [-1, 2 ** 64], "REAL": [1e39], "BOOL": [2],
}

SEGMENTS = (
    [{k: v} for k in ("class", "attribute", "connection") for v in (0, 1, 0xFF, 0x100, 0xFFFF)]
    + [{k: v} for k in ("instance", "element") for v in (0, 1, 0xFF, 0x100, 0xFFFF, 0x10000, 0xFFFFFFFF)]
    + [{"symbolic": s} for s in ("a", "ab", "abc", "SCADA", "x" * 254, "y" * 255, "caf\xe9", "\xff\xfe")]
    + [{"port": p, "link": l} for p in (1, 14, 15, 16, 0xFF, 0x100, 0xFFFF)
       for l in (0, 1, 255, "1.2.3.4", "10.0.0.10", "x", "z" * 255)]
)

STRINGS = ["", "a", "ab", "abc", "x" * 254, "y" * 255, "caf\xe9"]
LONG_STRINGS = STRINGS + ["z" * 256, "q" * 65534, "r" * 65535]


class Fail(Exception):
    pass


def same(a, b):
    """structural equality that treats NaN == NaN and distinguishes -0.0 / bool from int"""
    if isinstance(a, float) or isinstance(b, float):
        if not isinstance(a, (int, float)) or not isinstance(b, (int, float)):
            return False
        if isinstance(a, float) and isinstance(b, float):
            return struct.pack("<d", a) == struct.pack("<d", b) or (math.isnan(a) and math.isnan(b))
        return a == b
    if type(a) != type(b):
        return False
    if isinstance(a, dict):
        return set(a) == set(b) and all(same(a[k], b[k]) for k in a)
    if isinstance(a, (list, tuple)):
        return len(a) == len(b) and all(same(x, y) for x, y in zip(a, b))
    return a == b


class T:
    def __init__(self):
        self.n = 0
        self.failures = []

    def check(self, ok, msg):
        self.n += 1
        if not ok:
            self.failures.append(msg)
            if len(self.failures) < 40:
                print("FAIL: " + msg[:600])

    def roundtrip(self, kind, v, strict_prefix=True, **dkw):
        """encode, check the field map tiles the bytes, decode back, reject prefixes + trailing byte"""
        try:
            b, fm = R.encode(kind, v, fmap=True)
        except R.RefEncodeError as exc:
            self.check(False, "%s: encode(%r) refused: %s" % (kind, v, exc))
            return None
        self.check(fm.span == (0, len(b)), "%s: span %r != (0,%d)" % (kind, fm.span, len(b)))
        flat = sorted(fm.flat(), key=lambda f: (f[1], f[2]))
        pos = 0
        tiled = True
        for name, a, e, _k in flat:
            if a != pos or e < a:
                tiled = False
                break
            pos = e
        if flat:
            self.check(tiled and pos == len(b), "%s: field map does not tile %d bytes: %r" % (kind, len(b), flat[:12]))
        try:
            back = R.decode(kind, b, **dkw)
        except R.RefDecodeError as exc:
            self.check(False, "%s: decode(encode(%r)) raised %s" % (kind, v, exc))
            return b
        self.check(same(back, v), "%s: decode(encode(v)) != v\n  v   =%r\n  back=%r\n  bytes=%s" % (kind, v, back, b.hex()))
        if strict_prefix and len(b) <= 600:
            for cut in range(len(b)):
                if cut == 0 and kind in ("cpf", "epath_unsized", "typed_data"):
                    continue
                try:
                    got = R.decode(kind, b[:cut], **dkw)
                except R.RefDecodeError:
                    continue
                if kind in ("typed_data", "epath_unsized") or self.prefix_ok(kind, v, got, b, cut):
                    continue
                self.check(False, "%s: strict prefix %d/%d of %s decoded to %r" % (kind, cut, len(b), b.hex(), got))
            if kind not in ("typed_data", "epath_unsized", "request", "reply", "cpf", "frame", "identity", "unconnected_send_error"):
                try:
                    got = R.decode(kind, b + b"\x00", **dkw)
                    self.check(False, "%s: trailing byte accepted: %r" % (kind, got))
                except R.RefDecodeError:
                    self.n += 1
        return b

    def prefix_ok(self, kind, v, got, b, cut):
        """prefixes that are themselves complete messages of an open-ended element (raw tail data)"""
        if kind in ("request", "reply"):
            return True
        if kind == "unconnected_send_error":
            return cut == len(b) - 1 and v.get("remaining_path_size") is not None     # the optional last byte
        if False:
            return True         # bodies with raw / typed tails: a shorter tail is a different valid message
        return False

    def refuses(self, what, f, *a, **k):
        try:
            out = f(*a, **k)
        except R.RefEncodeError:
            self.n += 1
            return
        self.check(False, "%s accepted out-of-range input -> %r" % (what, out))

    def rejects(self, what, f, *a, **k):
        try:
            out = f(*a, **k)
        except R.RefDecodeError:
            self.n += 1
            return
        self.check(False, "%s accepted malformed input -> %r" % (what, out))


def paths():
    yield []
    for s in SEGMENTS:
        yield [s]
    small = [{"class": 2}, {"instance": 0x100}, {"attribute": 1}, {"element": 0x10000}, {"connection": 3},
             {"symbolic": "abc"}, {"symbolic": "ab"}, {"port": 1, "link": 0}, {"port": 16, "link": "1.2.3.4"}]
    for a, b in itertools.product(small, repeat=2):
        yield [a, b]
    for a, b, c in itertools.product(small[:6], repeat=3):
        yield [a, b, c]


def test_elements(t):
    for name, vals in SCALARS.items():
        for v in vals:
            t.roundtrip(name, v)
    nan = R.dec_scalar("REAL", R.enc_scalar("REAL", float("nan")))
    t.check(math.isnan(nan), "REAL NaN")
    for name, vals in OUT_OF_RANGE.items():
        for v in vals:
            t.refuses("enc_scalar(%s,%r)" % (name, v), R.enc_scalar, name, v)
    t.refuses("enc_scalar(INT, 1.0)", R.enc_scalar, "INT", 1.0)
    t.check(R.enc_scalar("BOOL", True) == b"\xff", "BOOL true is 0xFF")
    t.check(R.dec_scalar("BOOL", b"\x01") is True, "BOOL 1 decodes True")
    for s in STRINGS:
        b = t.roundtrip("sstring", s)
        t.check(b == bytes([len(s)]) + s.encode("latin-1"), "sstring layout")
    t.refuses("sstring 256", R.enc_sstring, "x" * 256)
    for s in LONG_STRINGS:
        b = t.roundtrip("string", s, strict_prefix=len(s) < 300)
        t.check(b == struct.pack("<H", len(s)) + s.encode("latin-1") + (b"\x00" if len(s) % 2 else b""), "string layout")
    t.refuses("string 65536", R.enc_string, "x" * 65536)
    t.rejects("string nonzero pad", R.dec_string, b"\x01\x00a\x01")
    # typed data
    for name, vals in SCALARS.items():
        if name not in R.TYPE_CODE:
            continue
        code = R.TYPE_CODE[name]
        for n in (0, 1, 2, 3):
            v = {"type": code, "data": (vals * 2)[:n]}
            b, _ = R.encode("typed_data", v, fmap=True)
            t.check(same(R.dec_typed_data(code, b), v["data"]), "typed_data %s x%d" % (name, n))
            if n:
                t.check(len(b) == n * R.typed_size(code), "typed size %s" % name)
                if R.typed_size(code) > 1:
                    t.rejects("typed_data %s ragged" % name, R.dec_typed_data, code, b[:-1])
    for code, strs in ((R.SSTRING, STRINGS), (R.STRING, STRINGS)):
        for n in (0, 1, 2, 3):
            for start in range(len(strs)):
                data = (strs[start:] + strs)[:n]
                b = R.enc_typed_data(code, data)
                t.check(R.dec_typed_data(code, b) == data, "typed strings")
    b = R.enc_typed_data(R.STRUCT, b"\x01\x02\x03", structure_handle=0x1234)
    t.check(b == b"\x34\x12\x01\x02\x03", "STRUCT layout")
    t.check(R.dec_typed_data(R.STRUCT, b) == {"structure_handle": 0x1234, "data": b"\x01\x02\x03"}, "STRUCT decode")
    t.refuses("typed_data bytes for INT", R.enc_typed_data, R.INT, b"\x00\x00")
    # status
    for st in U8:
        for n in (0, 1, 2, 3):
            for ext in itertools.product([0, 0xFFFF, 0x2105], repeat=n):
                t.roundtrip("status", {"status": st, "ext": list(ext)})
    t.refuses("status 256", R.enc_status, 256)
    t.refuses("ext 65536", R.enc_status, 1, [65536])
    t.rejects("status ext size too big", R.dec_status, b"\x01\x02\x00\x00")


def test_epath(t):
    n = 0
    for p in paths():
        n += 1
        for form in ("epath", "epath_padded", "epath_unsized"):
            t.roundtrip(form, p, strict_prefix=len(p) < 3)
        if len(p) == 1:
            t.roundtrip("epath_single", p)
    # layouts straight from the tables
    eq = lambda segs, hexs, form="sized": t.check(R.enc_epath(segs, form).hex() == hexs,
                                                  "epath %r -> %s, want %s" % (segs, R.enc_epath(segs, form).hex(), hexs))
    eq([], "00")
    eq([], "0000", "padded")
    eq([{"class": 2}, {"instance": 1}], "0220022401")
    eq([{"class": 0x100}], "022100" + "0001")
    eq([{"instance": 0x10000}], "032600" + "00000100")
    eq([{"instance": 0x100}], "022500" + "0001")
    eq([{"element": 0x01020304}], "032a00" + "04030201")
    eq([{"attribute": 0x1234}], "023100" + "3412")
    eq([{"connection": 0x64}], "012c64")
    eq([{"symbolic": "SCADA"}], "04910553434144410" + "0")
    eq([{"symbolic": "ab"}], "0291026162")
    eq([{"port": 1, "link": 0}], "010100")
    eq([{"port": 1, "link": 0}], "01000100", "padded")
    eq([{"port": 14, "link": 255}], "010eff")
    eq([{"port": 15, "link": 2}], "020f0f0002")
    eq([{"port": 0x0201, "link": 0x99}], "020f010299")
    eq([{"port": 3, "link": "130.151.137.105"}], "09130f" + "130.151.137.105".encode().hex() + "00")
    eq([{"port": 0x0103, "link": "130.151.137.105"}], "0a1f0f0301" + "130.151.137.105".encode().hex() + "00")
    eq([{"port": 2, "link": "ab"}], "0212026162")
    eq([{"class": 4, "width": 16}], "0221000400")
    t.check(R.dec_epath(bytes.fromhex("0221000400")) == [{"class": 4}], "wide class decodes")
    t.check(R.dec_epath(bytes.fromhex("0221000400"), widths=True) == [{"class": 4, "width": 16}], "wide class keeps width")
    for bad in ([{"class": 0x10000}], [{"attribute": 0x10000}], [{"connection": -1}], [{"element": 2 ** 32}],
                [{"instance": 2 ** 32}], [{"symbolic": ""}], [{"symbolic": "x" * 256}], [{"port": 0, "link": 0}],
                [{"port": 0x10000, "link": 0}], [{"port": 1, "link": 256}], [{"port": 1, "link": ""}],
                [{"port": 1, "link": -1}], [{"port": 1}], [{"bogus": 1}], [{"class": 1, "instance": 2}],
                [{"class": 0x100, "width": 8}], [{"symbolic": "Ā"}],
                [{"symbolic": "x" * 254}] * 2 + [{"class": 1}] * 0 if False else [{"symbolic": "x" * 255}] * 2):
        t.refuses("enc_epath(%r)" % (bad[:1],), R.enc_epath, bad)
    t.refuses("single with 2", R.enc_epath, [{"class": 1}, {"class": 2}], "single")
    for bad in ("01", "0120", "022001", "0121000", "03200224", "0191", "029102", "0291016101", "01ff00", "014000",
                "01000", "0210000", "0222000100", "0127000", "012201"):
        try:
            raw = bytes.fromhex(bad if len(bad) % 2 == 0 else bad + "0")
        except ValueError:
            continue
        t.rejects("dec_epath(%s)" % bad, R.dec_epath, raw)
    t.rejects("padded nonzero reserved", R.dec_epath, bytes.fromhex("01012001"), "padded")
    return n


def cip_requests():
    P = [R.symbolic("SCADA", 12), R.logical(0x6B, 0x100, 1), R.logical(1, 1), R.symbolic("a"), []]
    for p in P:
        for e in (0, 1, 0xFFFF):
            yield {"service": 0x4C, "path": p, "elements": e}
            for off in (0, 1, 0xFFFFFFFF):
                yield {"service": 0x52, "path": p, "elements": e, "offset": off}
        yield {"service": 0x01, "path": p}
        yield {"service": 0x0E, "path": p}
        yield {"service": 0x10, "path": p, "data": b"\x01"}
        yield {"service": 0x10, "path": p, "data": bytes(range(255))}
        yield {"service": 0x33, "path": p}
        yield {"service": 0x33, "path": p, "data": b"abc"}
        for attrs in ([], [1], [1, 2, 0xFFFF]):
            yield {"service": 0x03, "path": p, "attributes": attrs}
    p = R.symbolic("tag")
    for name, vals in SCALARS.items():
        if name not in R.TYPE_CODE:
            continue
        for n in (0, 1, 3):
            data = (vals * 2)[:n]
            yield {"service": 0x4D, "path": p, "type": R.TYPE_CODE[name], "elements": n, "data": data}
            yield {"service": 0x53, "path": p, "type": R.TYPE_CODE[name], "elements": 0xFFFF, "offset": 4, "data": data}
    yield {"service": 0x4D, "path": p, "type": R.SSTRING, "elements": 2, "data": ["abc", ""]}
    yield {"service": 0x4D, "path": p, "type": R.STRING, "elements": 2, "data": ["abc", "ab"]}
    yield {"service": 0x4D, "path": p, "type": R.STRUCT, "structure_handle": 0xBEEF, "elements": 1, "data": b"\x01\x02\x03\x04"}
    yield {"service": 0x53, "path": p, "type": R.STRUCT, "structure_handle": 1, "elements": 2, "offset": 8, "data": b""}


def fo_request(large, **over):
    d = R.dec_request(R.forward_open(large=large))
    d.update(over)
    return d


def cip_replies():
    for st, ext in ((0, []), (6, []), (5, []), (0xFF, [0x2105]), (4, [0, 1, 0xFFFF])):
        for svc in (0xCC, 0xD2):
            if st in (0, 6):
                yield {"service": svc, "status": st, "ext": ext, "type": R.INT, "data": [1, -2, 3]}
                yield {"service": svc, "status": st, "ext": ext, "type": R.REAL, "data": [1.5]}
                yield {"service": svc, "status": st, "ext": ext, "type": R.SSTRING, "data": ["abc"]}
                yield {"service": svc, "status": st, "ext": ext, "type": R.STRUCT, "structure_handle": 7, "data": b"\x00\x01"}
                yield {"service": svc, "status": st, "ext": ext, "type": R.DINT, "data": []}
            else:
                yield {"service": svc, "status": st, "ext": ext}
        for svc in (0xCD, 0xD3, 0x90):
            yield {"service": svc, "status": st, "ext": ext}
        for svc in (0x81, 0x83, 0x8E, 0xB3):
            yield {"service": svc, "status": st, "ext": ext}
            yield {"service": svc, "status": st, "ext": ext, "data": b"\x01\x02\x03"}
    yield {"service": 0xD4, "status": 0, "ext": [], "O_T_connection_ID": 1, "T_O_connection_ID": 0xFFFFFFFF,
           "connection_serial": 0xFFFF, "O_vendor": 2, "O_serial": 3, "O_T_API": 4, "T_O_API": 5, "application": b""}
    yield {"service": 0xDB, "status": 0, "ext": [], "O_T_connection_ID": 1, "T_O_connection_ID": 2,
           "connection_serial": 3, "O_vendor": 4, "O_serial": 5, "O_T_API": 6, "T_O_API": 7, "application": b"\x01\x02"}
    yield {"service": 0xD4, "status": 1, "ext": [0x0311], "connection_serial": 0, "O_vendor": 0xFFFF,
           "O_serial": 0x12345678, "remaining_path_size": 1}
    yield {"service": 0xD4, "status": 1, "ext": [0x0311], "connection_serial": 0, "O_vendor": 0xFFFF, "O_serial": 0x12345678}
    yield {"service": 0xCE, "status": 0, "ext": [], "connection_serial": 1, "O_vendor": 2, "O_serial": 3, "application": b""}
    yield {"service": 0xCE, "status": 0, "ext": [], "connection_serial": 1, "O_vendor": 2, "O_serial": 3,
           "application": b"abcd"}
    yield {"service": 0xCE, "status": 1, "ext": [0x0100]}


def test_cip(t):
    reqs = list(cip_requests())
    for q in reqs:
        t.roundtrip("request", q, strict_prefix=False)
    for large in (False, True):
        for ncp in ((0, 0x43F4, 0xFFFF) if not large else (0, 0x42000FA0, 0xFFFFFFFF)):
            for cp in ([], [{"port": 1, "link": 0}] + R.MESSAGE_ROUTER, [{"symbolic": "abc"}]):
                q = fo_request(large, O_T_NCP=ncp, T_O_NCP=ncp, connection_path=cp, O_T_connection_ID=0xFFFFFFFF)
                b = t.roundtrip("request", q, strict_prefix=True)
                if b:
                    t.check(len(b) == 6 + (39 if large else 35) + len(R.enc_epath(cp)),
                            "forward open length %d" % len(b))
    t.refuses("small FO with 32-bit NCP", R.enc_request, fo_request(False, O_T_NCP=0x10000))
    q = R.dec_request(R.forward_close())
    t.roundtrip("request", q)
    t.check(R.forward_close().hex() == "4e0220062401" + "059d" + "0100" + "3412" + "21436587" + "0300" + "010020022401",
            "forward close layout: %s" % R.forward_close().hex())
    t.check(R.forward_open().hex() == ("540220062401" + "059d" + "00000000" + "78563412" + "0100" + "3412" + "21436587"
                                       + "00" + "000000" + "80841e00" + "f443" + "80841e00" + "f443" + "a3"
                                       + "03" + "010020022401"), "forward open layout: %s" % R.forward_open().hex())
    # bundles
    for n in (1, 2, 3):
        for members in itertools.islice(itertools.combinations(reqs[:40:3], n), 60):
            q = {"service": 0x0A, "path": R.MESSAGE_ROUTER, "requests": list(members)}
            t.roundtrip("request", q, strict_prefix=False)
    b, fm = R.multiple([R.read_tag(R.symbolic("a")), R.read_tag(R.symbolic("bcd"), 2)], fmap=True)
    t.check(b.hex() == "0a0220022401" + "0200" + "0600" + "0e00" + "4c02910161" + "000100" + "4c03910362636400" + "0200",
            "multiple layout %s" % b.hex())
    t.check([f[0] for f in fm.lengths()] == ["path.size", "count", "offset[0]", "offset[1]"], "multiple lengths %r" % fm.lengths())
    b, fm = R.multiple([R.read_tag(R.symbolic("a"), fmap=True), {"service": 0x0E, "path": R.logical(1, 1, 7)}], fmap=True)
    t.check([f[0] for f in fm.lengths()] == ["path.size", "count", "offset[0]", "offset[1]", "member[0].path.size",
                                             "member[0].path.segment[0].length", "member[0].elements", "member[1].path.size"],
            "multiple nested lengths %r" % fm.lengths())
    for bad in ("0a0220022401" + "0200" + "0600" + "0500", "0a0220022401" + "0200" + "0700" + "0c00",
                "0a0220022401" + "0200" + "0600" + "ff00" + "4c02910161000100", "0a0220022401" + "0300" + "0600"):
        t.rejects("bundle " + bad, R.dec_request, bytes.fromhex(bad))
    rpys = list(cip_replies())
    for r in rpys:
        t.roundtrip("reply", r, strict_prefix=False)
    for n in (1, 2, 3):
        for members in itertools.islice(itertools.combinations(rpys[::4], n), 60):
            for st in (0, 0x1E):
                t.roundtrip("reply", {"service": 0x8A, "status": st, "ext": [], "replies": list(members)}, strict_prefix=False)
    t.check(R.enc_reply({"service": 0xCC, "status": 0, "type": R.INT, "data": [1]}).hex() == "cc000000c3000100", "read reply layout")
    t.rejects("reply nonzero reserved", R.dec_reply, bytes.fromhex("cc010000c3000100"))
    t.rejects("read reply ragged", R.dec_reply, bytes.fromhex("cc000000c30001"))
    t.rejects("write reply with trailing", R.dec_reply, bytes.fromhex("cd00000000"))
    # unconnected send
    for msg in (b"\x0e\x03\x20\x01\x24\x01\x30\x01", b"\x4c\x02\x91\x01\x61\x00\x01", b"", b"\x01"):
        for rp in ([], [{"port": 1, "link": 0}], [{"port": 16, "link": "1.2.3.4"}, {"port": 1, "link": 3}]):
            for prio, ticks in ((0, 0), (5, 157), (255, 255)):
                v = {"service": 0x52, "path": R.CONNECTION_MANAGER, "priority": prio, "timeout_ticks": ticks,
                     "message": msg, "route_path": rp}
                b = t.roundtrip("unconnected_send", v)
                t.check(same(R.dec_request(b), v), "dec_request opens the unconnected send")
                t.check(len(b) == 6 + 4 + len(msg) + len(msg) % 2 + len(R.enc_epath(rp, "padded")), "usend length")
    b, fm = R.enc_unconnected_send(b"\x01\x00\x00", [{"port": 1, "link": 0}], fmap=True)
    t.check(b.hex() == "520220062401" + "059d" + "0300" + "010000" + "00" + "0100" + "0100", "usend layout %s" % b.hex())
    t.check(fm["length"] == (8, 10) and fm["length"].kind == "len" and fm["pad"] == (13, 14), "usend map")
    t.rejects("usend missing pad", R.dec_unconnected_send, bytes.fromhex("520220062401059d0300010000" + "01000100"))
    for st, ext, rem in ((8, [], None), (1, [0x0204], 2), (2, [], 0)):
        t.roundtrip("unconnected_send_error", {"service": 0xD2, "status": st, "ext": ext, "remaining_path_size": rem})
    # NCP
    for large in (False, True):
        for size in ((1, 510, 511) if not large else (1, 511, 4000, 0xFFFF)):
            for var, prio, typ, red in itertools.product((0, 1), (0, 1, 2, 3), (0, 1, 2, 3), (0, 1)):
                f = {"size": size, "variable": var, "priority": prio, "type": typ, "redundant": red}
                t.check(R.dec_ncp(R.enc_ncp(f, large), large) == f, "ncp %r" % f)
    t.check(R.enc_ncp({"size": 500, "variable": 1, "priority": 0, "type": 2, "redundant": 0}) == 0x43F4, "ncp 0x43f4")
    t.check(R.enc_ncp({"size": 4000, "variable": 1, "priority": 0, "type": 2, "redundant": 0}, True) == 0x42000FA0, "ncp large")
    t.refuses("ncp size 512 small", R.enc_ncp, {"size": 512, "variable": 1, "priority": 0, "type": 2, "redundant": 0})


IDENT = {"version": 1, "sin_family": 2, "sin_port": 44818, "sin_addr": "10.161.1.5", "vendor_id": 1, "device_type": 14,
         "product_code": 149, "product_revision": 0x0B1B, "status_word": 0x30, "serial_number": 0x1EC01D31,
         "product_name": "1769-L24ER-QB1B/A LOGIX5324ER", "state": 3}


def cpf_items():
    yield {"type": 0, "data": b""}
    yield {"type": 0xA1, "connection": 0x12345678}
    yield {"type": 0xA1, "connection": 0xFFFFFFFF}
    yield {"type": 0xB1, "sequence": 0xFFFF, "data": b""}
    yield {"type": 0xB1, "sequence": 1, "data": b"\xcc\x00\x00\x00"}
    yield {"type": 0xB2, "data": b"\x0e\x03\x20\x01\x24\x01\x30\x01"}
    yield {"type": 0xB2, "data": b"\x01"}
    yield {"type": 0x0C, "identity": dict(IDENT)}
    yield {"type": 0x0C, "identity": dict(IDENT, product_name="", sin_addr="255.255.255.255", sin_family=-1)}
    yield {"type": 0x100, "version": 1, "capability": 0x20, "name": "Communications"}
    yield {"type": 0x100, "version": 1, "capability": 0x120, "name": "Communications", "name_size": 16}
    yield {"type": 0x100, "version": 0xFFFF, "capability": 0xFFFF, "name": ""}
    yield {"type": 1, "version": 1, "unknown_1": 0, "sin_family": 2, "sin_port": 44818, "sin_addr": "192.168.5.253",
           "ip_address": "192.168.5.253"}
    yield {"type": 0x8000, "data": b"xyz"}
    yield {"type": 0xFFFF, "data": b"\x01"}


def test_encap(t):
    items = list(cpf_items())
    t.check(R.dec_cpf(b"") is None and R.enc_cpf(None) == b"", "absent CPF")
    t.roundtrip("cpf", [])
    for n in (1, 2, 3):
        for combo in itertools.product(items, repeat=n) if n < 3 else itertools.combinations(items, 3):
            t.roundtrip("cpf", list(combo), strict_prefix=(n == 1))
    b, fm = R.enc_cpf([{"type": 0, "data": b""}, {"type": 0xB2, "data": b"abc"}], fmap=True)
    t.check(b.hex() == "0200" + "00000000" + "b2000300616263", "cpf layout %s" % b.hex())
    t.check(fm["item[1]"]["length"] == (8, 10) and fm["count"].kind == "count", "cpf map")
    t.rejects("cpf count too big", R.dec_cpf, bytes.fromhex("030000000000b2000300616263"))
    t.rejects("cpf item len too big", R.dec_cpf, bytes.fromhex("020000000000b2000400616263"))
    t.rejects("cpf null item with data", R.dec_cpf, bytes.fromhex("0100000001 00 aa".replace(" ", "")))
    t.check(R.enc_identity(IDENT).hex() == "0100" + "0002af120aa10105" + "00" * 8 + "01000e0095001b0b3000311dc01e"
            + "1d" + IDENT["product_name"].encode().hex() + "03", "identity layout %s" % R.enc_identity(IDENT).hex())
    # frames
    ctxs = (b"\x00" * 8, b"Funstuff", bytes(range(248, 256)))
    payloads = [
        (0x65, {"protocol_version": 1, "options": 0}), (0x65, {"protocol_version": 0xFFFF, "options": 0xFFFF}),
        (0x66, None), (0x04, None), (0x63, None), (0x64, None), (0x6F, None), (0x65, None),
        (0x04, {"cpf": [items[9]]}), (0x63, {"cpf": [items[7]]}), (0x64, {"cpf": []}), (0x01, {"cpf": [items[12]]}),
        (0x6F, {"interface": 0, "timeout": 5, "cpf": [items[0], items[5]]}),
        (0x6F, {"interface": 0xFFFFFFFF, "timeout": 0xFFFF, "cpf": [items[0], items[6]]}),
        (0x70, {"interface": 0, "timeout": 0, "cpf": [items[1], items[4]]}),
        (0x00FF, b"\x01\x02\x03"), (0x00FF, b""),
    ]
    for cmd, pl in payloads:
        for ctx in ctxs:
            for sess, st, opt in ((0, 0, 0), (0xFFFFFFFF, 0x65, 0xFFFFFFFF), (0x12345678, 0, 0)):
                v = {"command": cmd, "session": sess, "status": st, "context": ctx, "options": opt, "payload": pl}
                b = t.roundtrip("frame", v, strict_prefix=False)
                if b:
                    t.check(struct.unpack_from("<H", b, 2)[0] == len(b) - 24, "frame length field")
                    for cut in range(len(b)):
                        t.rejects("frame prefix", R.dec_frame, b[:cut])
                    t.rejects("frame trailing", R.dec_frame, b + b"\x00")
    t.check(R.register().hex() == "65000400" + "00" * 20 + "01000000", "register layout")
    t.check(R.unregister(0x11021E01).hex() == "66000000011e0211" + "00" * 16, "unregister layout")
    t.refuses("context of 7 bytes", R.enc_frame, {"command": 0x65, "context": b"1234567", "payload": None})
    t.refuses("session 2**32", R.enc_frame, {"command": 0x66, "session": 2 ** 32, "payload": None})
    frames, rest = R.split_frames(R.register() + R.unregister(1) + R.register()[:10])
    t.check(len(frames) == 2 and rest == R.register()[:10], "split_frames")
    # builders + whole-frame decoders
    cip = R.read_frag(R.symbolic("SCADA", 12), 20, 2)
    f = R.send_rr_data(0x11021E01, cip, context=b"ctxctxct", route_path=[{"port": 1, "link": 0}])
    d = R.decode_request_frame(f)
    t.check(d["cip"] == {"service": 0x52, "path": R.symbolic("SCADA", 12), "elements": 20, "offset": 2}
            and d["unconnected_send"]["route_path"] == [{"port": 1, "link": 0}] and d["session"] == 0x11021E01,
            "send_rr_data/decode_request_frame: %r" % d)
    f, fm = R.send_rr_data(1, {"service": 0x4C, "path": R.symbolic("a"), "elements": 1}, unconnected_send=True, fmap=True)
    names = [x[0] for x in fm.lengths()]
    t.check(names == ["length", "payload.cpf.count", "payload.cpf.item[0].length", "payload.cpf.item[1].length",
                      "payload.cpf.item[1].body.data.path.size", "payload.cpf.item[1].body.data.length",
                      "payload.cpf.item[1].body.data.message.path.size",
                      "payload.cpf.item[1].body.data.message.path.segment[0].length", "payload.cpf.item[1].body.data.message.elements",
                      "payload.cpf.item[1].body.data.route_path.size"], "nested field map: %r" % names)
    for name, a, e, kind in fm.flat():
        t.check(0 <= a <= e <= len(f), "span inside frame")
    f2 = R.send_rr_data(1, R.read_tag(R.symbolic("a")))
    t.check(R.decode_request_frame(f2)["cip"]["service"] == 0x4C and "unconnected_send" not in R.decode_request_frame(f2),
            "plain send_rr_data")
    f3 = R.send_unit_data(7, 0xCAFE, 3, R.write_tag(R.symbolic("a"), R.INT, [1, 2]))
    d = R.decode_request_frame(f3)
    t.check(d["connection"] == 0xCAFE and d["sequence"] == 3 and d["cip"]["data"] == [1, 2] and d["cip"]["elements"] == 2,
            "send_unit_data")
    rpy = R.enc_frame({"command": 0x6F, "session": 7, "context": b"12345678", "payload": {
        "interface": 0, "timeout": 0, "cpf": [{"type": 0}, {"type": 0xB2, "data": R.enc_reply(
            {"service": 0x8A, "status": 0, "replies": [{"service": 0xCC, "status": 0, "type": R.DINT, "data": [5]},
                                                       {"service": 0xCD, "status": 0xFF, "ext": [0x2107]}]})}]}})
    d = R.decode_reply_frame(rpy)
    t.check(d["cip"]["members"][0]["values"] == [5] and d["cip"]["members"][1]["ext"] == [0x2107], "decode_reply_frame")
    d = R.decode_reply_frame(R.enc_frame({"command": 0x6F, "session": 7, "status": 8, "payload": None}))
    t.check(d["cip"] is None and d["status"] == 8, "error frame")


# ------------------------------------------------------------------------------------------------
# canned packets

def extract(path):
    tree = ast.parse(open(path).read())
    out = []

    def ev(node):
        if isinstance(node, ast.Constant) and isinstance(node.value, bytes):
            return node.value
        if isinstance(node, ast.Call) and getattr(node.func, "id", None) == "bytes" and len(node.args) == 1:
            a = node.args[0]
            if (isinstance(a, ast.Call) and getattr(a.func, "id", None) == "bytearray" and len(a.args) == 1
                    and isinstance(a.args[0], (ast.List, ast.Tuple))):
                vals = []
                for e in a.args[0].elts:
                    if isinstance(e, ast.Constant) and isinstance(e.value, int):
                        vals.append(e.value)
                    elif (isinstance(e, ast.Subscript) and isinstance(e.value, ast.Constant)
                          and isinstance(e.value.value, bytes) and isinstance(e.slice, ast.Constant)):
                        vals.append(e.value.value[e.slice.value])
                    elif (isinstance(e, ast.Call) and getattr(e.func, "id", None) == "ord" and len(e.args) == 1
                          and isinstance(e.args[0], ast.Constant)):
                        vals.append(ord(e.args[0].value))
                    else:
                        return None
                return bytes(bytearray(vals))
        return None

    for node in ast.walk(tree):
        if isinstance(node, ast.Assign) and len(node.targets) == 1 and isinstance(node.targets[0], ast.Name):
            v = ev(node.value)
            if v is not None:
                out.append((node.targets[0].id, node.lineno, v))
    return sorted(out, key=lambda x: x[1])


SKIP = {
    ("enip_test.py", "pkt"): "octets/SSTRING/IFACEADDRS primitive fixtures with deliberate trailing symbols",
    ("enip_test.py", "pkt_produced"): "BOOL primitive fixture",
    ("enip_test.py", "rpy"): "empty accumulator",
    ("enip_test.py", "empty_req"): "empty bytes (EOF fixture)",
}
COMMANDS = (1, 4, 0x63, 0x64, 0x65, 0x66, 0x6F, 0x70)


def canned(t, verbose):
    n_ok = n_exact = 0
    noncanon = []
    for fn in ("/repo/server/enip_test.py", "/repo/server/logix_test.py"):
        if not os.path.exists(fn):
            print("note: %s not found; canned packets skipped" % fn)
            continue
        base = os.path.basename(fn)
        for name, line, b in extract(fn):
            if (base, name) in SKIP:
                continue
            tag = "%s:%d %s" % (base, line, name)
            try:
                how, exact = decode_canned(name, b)
            except R.RefDecodeError as exc:
                t.check(False, "canned %s (%d bytes) does not decode: %s\n   %s" % (tag, len(b), exc, b.hex()))
                continue
            t.n += 1
            n_ok += 1
            if exact:
                n_exact += 1
            else:
                noncanon.append(tag)
            if verbose:
                print("  %-44s %4d bytes  %-34s %s" % (tag, len(b), how, "re-encodes exactly" if exact else "NON-CANONICAL"))
    return n_ok, n_exact, noncanon


def _cip_exact(cip, is_reply):
    """decode a CIP message with widths kept, re-encode, compare; True if the canonical re-encoding is identical"""
    if is_reply:
        d = R.dec_reply(cip)
        return R.enc_reply(d) == cip
    d = R.dec_request(cip)
    if d["service"] == 0x52 and "message" in d:
        inner = True
        if d["message"]:
            inner = _cip_exact(d["message"], False)
        return R.enc_request(d) == cip and inner
    return R.enc_request(d) == cip


def decode_canned(name, b):
    if len(b) >= 24 and struct.unpack_from("<H", b, 0)[0] in COMMANDS and struct.unpack_from("<H", b, 2)[0] == len(b) - 24:
        f = R.dec_frame(b)
        exact = R.enc_frame(f) == b
        how = "frame 0x%02x" % f["command"]
        if f["command"] in (0x6F, 0x70):
            cip = None
            for it in f["payload"]["cpf"]:
                if it["type"] in (0xB1, 0xB2):
                    cip = it["data"]
            if cip and name.startswith("snd_u01"):
                how += " connected data: PCCC over DH+, not a CIP message (frame/CPF level only)"
            elif cip:
                if cip[0] & 0x80:
                    d = R.decode_reply_frame(b)
                    how += " reply svc 0x%02x st 0x%02x" % (d["cip"]["service"], d["cip"]["status"])
                    exact = exact and _cip_exact(cip, True)
                else:
                    d = R.decode_request_frame(b)
                    how += " request svc 0x%02x%s" % (d["cip"]["service"], " via 0x52" if "unconnected_send" in d else "")
                    exact = exact and _cip_exact(cip, False)
        return how, exact
    if name.startswith("extpath"):
        errs = []
        for form, hdr in (("sized", 1), ("padded", 2)):
            if len(b) >= hdr and (form == "sized" or b[1] == 0):
                cut = b[:hdr + 2 * b[0]]
                try:
                    segs = R.dec_epath(cut, form)
                    return "epath %s +%d trailing" % (form, len(b) - len(cut)), R.enc_epath(segs, form) == cut
                except R.RefDecodeError as exc:
                    errs.append("%s: %s" % (form, exc))
        raise R.RefDecodeError("; ".join(errs))
    if name == "commserv_1":
        items = R.dec_cpf(struct.pack("<HHH", 1, 0x100, len(b)) + b)
        return "services item", R.enc_cpf(items)[6:] == b
    if name.startswith(("cpf_", "gal_", "mlx_")):
        items = R.dec_cpf(b)
        exact = R.enc_cpf(items) == b
        for it in items:
            if it["type"] == 0xB2 and it["data"]:
                exact = exact and _cip_exact(it["data"], bool(it["data"][0] & 0x80))
        return "cpf x%d" % len(items), exact
    if b and b[0] & 0x80:
        d = R.dec_reply(b)
        return "reply svc 0x%02x" % d["service"], R.enc_reply(d) == b
    d = R.dec_request(b)
    return "request svc 0x%02x" % d["service"], R.enc_request(d) == b


def main(argv=None):
    verbose = "-v" in (argv or sys.argv)
    t = T()
    test_elements(t)
    n_paths = test_epath(t)
    test_cip(t)
    test_encap(t)
    n_ok, n_exact, noncanon = canned(t, verbose)
    print("refcip self-test: %d checks, %d failures; %d EPATHs round-tripped; canned packets decoded: %d "
          "(%d regenerate byte-exactly, %d use non-canonical encodings: %s)"
          % (t.n, len(t.failures), n_paths, n_ok, n_exact, len(noncanon), ", ".join(x.split()[-1] for x in noncanon) or "-"))
    return 1 if t.failures else 0


if __name__ == "__main__":
    sys.exit(main())
