"""Array model of the simulator's tag store and a judge for single requests (oracle for C03/C05/C07/...).

Written from the property statements (C03, C05) and the Logix status tables; shares no code with cpppo.
A request is a JSON-able tuple:

    ("rd",  addr, elements)                         Read Tag
    ("rf",  addr, elements, offset)                 Read Tag Fragmented
    ("wt",  addr, type_code, values, declared)      Write Tag            (declared element count, None = len(values))
    ("wf",  addr, type_code, values, declared, off) Write Tag Fragmented
    ("gas", addr)                                   Get Attribute Single
    ("sas", addr, raw_bytes)                        Set Attribute Single
    addr = ("sym", name, element|None) | ("cia", class, instance, attribute|None, element|None)

The judge never says more than the statements do: where they are silent (zero element counts, attribute services
addressed symbolically, declared count != supplied values inside the tag) it accepts "refused without effect, or
performed exactly as the array model would".
"""
import math
import struct

from . import wire as W

RANGE_ERR = (0xFF, [0x2105])
TYPE_ERR = (0xFF, [0x2107])


def f32(x):
    try:
        return struct.unpack("<f", struct.pack("<f", x))[0]
    except (OverflowError, struct.error):
        return None


def convert(src_t, v, dst_t):
    """The value v (as decoded from request type src_t) represented in dst_t, or None if unrepresentable."""
    if dst_t in (W.SSTRING, W.STRING):
        return v if (src_t in (W.SSTRING, W.STRING) and isinstance(v, str)) else None
    if src_t in (W.SSTRING, W.STRING):
        return None
    if dst_t == W.BOOL:
        return bool(v) if src_t == W.BOOL else None
    if dst_t in W.INT_RANGE:
        if isinstance(v, bool):
            return ("nonzero",) if v else 0
        if isinstance(v, float):
            return None
        lo, hi = W.INT_RANGE[dst_t]
        return v if lo <= v <= hi else None
    if dst_t == W.REAL:
        if isinstance(v, bool):
            return ("nonzero",) if v else 0.0
        return f32(float(v))
    if dst_t == W.LREAL:
        if isinstance(v, bool):
            return ("nonzero",) if v else 0.0
        return float(v)
    return None


def same(a, b):
    """Wire-level equality of one element (model value a vs observed b)."""
    if isinstance(a, tuple) and a == ("nonzero",):
        return bool(b)
    if isinstance(a, float) or isinstance(b, float):
        fa, fb = float(a), float(b)
        return (math.isnan(fa) and math.isnan(fb)) or fa == fb
    return a == b and isinstance(a, str) == isinstance(b, str)


def same_list(xs, ys):
    return len(xs) == len(ys) and all(same(a, b) for a, b in zip(xs, ys))


def wire_of(t, v):
    """Reference wire encoding of the in-process value v held by a tag of type t (None if it has none)."""
    try:
        if t in (W.SSTRING, W.STRING) and not isinstance(v, str):
            return None
        if t in (W.REAL, W.LREAL) and not isinstance(v, (int, float)):
            return None
        if t in W.INT_RANGE and isinstance(v, float):
            return None
        return W.enc_value(t, v)
    except (struct.error, OverflowError, UnicodeEncodeError, TypeError, AttributeError):
        return None


def same_stored(t, model_v, stored_v):
    """Does the simulator's in-process element represent, on the wire in the tag's type t, the model's value?"""
    if isinstance(model_v, tuple) and model_v == ("nonzero",):
        w = wire_of(t, stored_v)
        return w is not None and any(w)
    wm, ws = wire_of(t, model_v), wire_of(t, stored_v)
    return wm is not None and wm == ws


def canon_value(t, v):
    """Canonical in-model form of an in-process element value of a tag of type t (what its wire form decodes to)."""
    w = wire_of(t, v)
    if w is None:
        return ("unrepresentable", repr(v))
    return W.dec_values(t, w)[0]


def latin1_fold(name):
    """case-insensitive comparison key for ISO-8859-1 tag names: one-to-one lower-casing, character by character
    (sharp-s has no single-character upper case and stays itself: 'Ma\xdf' and 'Mass' are different tags)"""
    out = []
    for ch in name:
        l = ch.lower()
        out.append(l if len(l) == 1 and ord(l) < 256 else ch)
    return "".join(out)


class Tag:
    def __init__(self, name, t, n, scalar, address):
        self.name, self.t, self.n, self.scalar, self.address = name, t, n, scalar, tuple(address)
        zero = "" if t in (W.SSTRING, W.STRING) else (False if t == W.BOOL else (0.0 if t in (W.REAL, W.LREAL) else 0))
        self.v = [zero] * n


class TagModel:
    def __init__(self, cfg, addr_of):
        """cfg as for sim.Sim; addr_of: name -> (class, instance, attribute) as the simulator resolved it.
        Tags sharing one address share one value list."""
        self.tags = {}
        by_addr = {}
        for name, typ, length, address in cfg:
            a = tuple(addr_of[name])
            t = Tag(name, W.TYPE_CODE[typ], 1 if length is None else length, length is None or length == 1, a)
            if a in by_addr:
                t.v = by_addr[a].v
            by_addr[a] = t
            self.tags[name] = t
        self.by_addr = by_addr

    # -- state -------------------------------------------------------------------------------------
    def store(self):
        return tuple((n, tuple(t.v)) for n, t in self.tags.items())

    def load(self, store):
        for n, vals in store:
            self.tags[n].v[:] = list(vals)

    def load_observed(self, store):
        """Adopt an observed store (used when re-seating the model on an explored state)."""
        self.load(self.canon(store))

    def canon(self, store):
        """Canonical (wire-equivalent) form of a simulator store: the explicit-state search's state."""
        return tuple((n, tuple(canon_value(self.tags[n].t, v) for v in vals)) for n, vals in store)

    def matches(self, observed):
        for (n, vals), (n2, obs) in zip(self.store(), observed):
            t = self.tags[n].t
            if n != n2 or len(vals) != len(obs) or not all(same_stored(t, a, b) for a, b in zip(vals, obs)):
                return False
        return True

    # -- resolution --------------------------------------------------------------------------------
    def resolve(self, addr):
        """-> (tag or None, element index or None, how)"""
        if addr[0] == "sym":
            _, name, elm = addr
            for n, t in self.tags.items():
                if latin1_fold(n) == latin1_fold(name):
                    return t, elm, "sym"
            return None, elm, "sym"
        _, c, i, a, elm = addr
        t = self.by_addr.get((c, i, 1 if a is None else a))
        return t, elm, "cia"

    # -- the judge ---------------------------------------------------------------------------------
    def judge(self, req, reply, exc, observed_after, max_bytes=488):
        """req as above; reply = raw CIP reply bytes or None; exc = exception text or None (request was answered with an
        encapsulation-level error instead of a CIP reply); observed_after = simulator store after the request.
        Updates the model when the request is an acknowledged write.  Returns [(kind, msg)]."""
        bad = []
        before = self.store()
        kind = req[0]
        tag, elm, how = self.resolve(req[1])
        svc = {"rd": 0x4C, "rf": 0x52, "wt": 0x4D, "wf": 0x53, "gas": 0x0E, "sas": 0x10}[kind]

        r = None
        if reply is not None:
            try:
                r = W.dec_read_reply(reply) if kind in ("rd", "rf") else W.dec_reply(reply)
            except W.WireError as e:
                return [("malformed-reply", "%r: reply %s does not decode: %s" % (req, bytes(reply).hex(), e))]
            if r["service"] != svc | 0x80:
                bad.append(("wrong-reply-service", "%r: reply service 0x%02x, expected 0x%02x" % (req, r["service"], svc | 0x80)))
        status = None if r is None else (r["status"], r["ext"])
        ok = r is not None and r["status"] == 0
        partial = r is not None and r["status"] == 0x06

        def unchanged(why):
            if not self.matches(observed_after):
                bad.append(("refused-but-changed", "%r %s, yet the tag store changed: %r -> %r" % (req, why, before, observed_after)))

        # ---- unknown target: any failure indication, no effect
        if tag is None:
            if (r is not None and req[1][0] == "cia" and kind in ("rd", "rf", "wt", "wf") and r["status"] != 0x05
                    and any(a[:2] == (req[1][1], req[1][2]) for a in self.by_addr)):
                bad.append(("unknown-attribute-status", "%r names an unknown attribute of an existing object; CIP status %r, expected 0x05"
                            % (req, status)))
            if ok or partial:
                bad.append(("unknown-target-succeeded", "%r addresses no tag/object but was answered with success: %r" % (req, r)))
            unchanged("addresses an unknown tag/object")
            return bad

        n, t = tag.n, tag.t
        beg = elm or 0
        fixed = t in W.SIZE

        # ---- attribute services
        if kind in ("gas", "sas"):
            refused = (r is None) or not ok
            if how == "sym" or elm is not None or (kind == "sas" and not fixed):
                # the statement does not oblige attribute services to exist for symbolic / element addressing, nor Set
                # Attribute Single for variable-size (string) elements
                lenient = True
            else:
                lenient = False
            if kind == "gas":
                if refused:
                    if not lenient:
                        bad.append(("gas-refused", "%r on an existing attribute refused: status %r exc %r" % (req, status, exc)))
                    unchanged("was refused")
                    return bad
                want = W.enc_values(t, [1 if v == ("nonzero",) else v for v in tag.v])
                try:
                    got = W.dec_values(t, r["payload"])
                except W.WireError as e:
                    bad.append(("gas-wrong-data", "%r returned undecodable data %s: %s" % (req, r["payload"].hex(), e)))
                    return bad
                if not same_list(tag.v, got):
                    bad.append(("gas-wrong-data", "%r returned %r, model holds %r" % (req, got, tag.v)))
                unchanged("is a read")
                return bad
            raw = req[2]
            valid = None
            if fixed:
                valid = len(raw) == n * W.SIZE[t]
            else:
                try:
                    valid = len(W.dec_values(t, raw)) == n
                except W.WireError:
                    valid = False
            if refused:
                if valid and not lenient:
                    bad.append(("sas-refused", "%r with exactly the attribute's size refused: %r exc %r" % (req, status, exc)))
                unchanged("was refused")
                return bad
            if not valid:
                bad.append(("sas-accepted-bad-size", "%r carries %d bytes for %d elements of type 0x%02x but was acknowledged"
                            % (req, len(raw), n, t)))
                self.load_observed(observed_after)
                return bad
            tag.v[:] = W.dec_values(t, raw)
            if not self.matches(observed_after):
                bad.append(("store-differs", "after %r store is %r, model %r" % (req, observed_after, self.store())))
                self.load_observed(observed_after)
            return bad

        # ---- a write carrying no data values at all is not a well-formed request (the grammar needs >= 1 element):
        #      any failure indication will do (C08 covers malformed input), but it must have no effect
        if kind in ("wt", "wf") and len(req[3]) == 0:
            if ok or partial:
                bad.append(("empty-write-acknowledged", "%r carries no data but was acknowledged: %r" % (req, r)))
            unchanged("carries no data")
            return bad

        # ---- Logix tag services on an existing tag: an encapsulation-level failure is not an answer
        if r is None:
            bad.append(("existing-tag-no-cip-reply", "%r on existing tag %s got no CIP reply (exception/enip error): %s"
                        % (req, tag.name, exc)))
            unchanged("failed")
            return bad

        if kind in ("rd", "rf"):
            e = req[2]
            off = req[3] if kind == "rf" else 0
            in_range = 0 <= beg < n and 1 <= e and beg + e <= n
            if kind == "rf" and fixed:
                sz = W.SIZE[t]
                adv, rem = divmod(off, sz)
                in_range = in_range and rem == 0 and adv < e
            elif kind == "rf" and off:
                in_range = None  # byte offsets into variable-size elements are documented as unsupported
            unchanged("is a read")
            if ok or partial:
                if in_range is False:
                    if e == 0:
                        if r.get("values"):
                            bad.append(("zero-count-read-returned-data", "%r returned %r" % (req, r.get("values"))))
                    else:
                        bad.append(("out-of-range-read-succeeded", "%r beyond tag %s[%d] answered status 0x%02x values %r"
                                    % (req, tag.name, n, r["status"], r.get("values"))))
                    return bad
                if r.get("type") != t:
                    bad.append(("wrong-reply-type", "%r reply type 0x%04x, tag type 0x%04x" % (req, r.get("type"), t)))
                    return bad
                if in_range is None:
                    return bad
                first = beg + (off // W.SIZE[t] if fixed else 0)
                want_all = tag.v[first:beg + e]
                got = r["values"]
                if ok:
                    if not same_list(want_all, got):
                        bad.append(("wrong-read-data", "%r returned %r, model %r" % (req, got, want_all)))
                else:
                    # 0x06: a proper prefix, at least one element (C04 checks budgets in detail)
                    if not (1 <= len(got) < len(want_all) and same_list(want_all[:len(got)], got)):
                        bad.append(("wrong-partial-read", "%r status 0x06 returned %r, model range %r" % (req, got, want_all)))
                    if kind == "rd":
                        pass  # Read Tag of data exceeding one reply: partial data is the Logix behaviour
                return bad
            # refused
            if in_range:
                bad.append(("valid-read-refused", "%r inside tag %s[%d] refused with %r" % (req, tag.name, n, status)))
            elif in_range is False and e != 0 and status != RANGE_ERR:
                bad.append(("wrong-range-status", "%r beyond tag %s[%d] refused with %r, expected 0xFF/0x2105" % (req, tag.name, n, status)))
            return bad

        # ---- writes
        rt, vals, declared = req[2], list(req[3]), req[4]
        off = req[5] if kind == "wf" else 0
        d = len(vals) if declared is None else declared
        conv = [convert(rt, v, t) for v in vals]
        holdable = all(c is not None for c in conv)
        first = beg
        aligned = True
        if kind == "wf" and off:
            if fixed:
                adv, rem = divmod(off, W.SIZE[t])
                first = beg + adv
                aligned = rem == 0
            else:
                aligned = None
        in_range = 0 <= beg < n and 1 <= d and beg + d <= n and len(vals) >= 1 and first + len(vals) <= beg + d
        if ok:
            if aligned is None:
                self.load_observed(observed_after)
                return bad
            if not (0 <= beg < n and beg + d <= n and first + len(vals) <= n):
                bad.append(("out-of-range-write-acknowledged", "%r addresses elements beyond tag %s[%d] but was acknowledged; store %r -> %r"
                            % (req, tag.name, n, before, observed_after)))
                self.load_observed(observed_after)
                return bad
            if not holdable:
                bad.append(("unholdable-write-acknowledged", "%r: values %r of type 0x%02x cannot be represented in tag type 0x%02x "
                            "but the write was acknowledged; store now %r" % (req, vals, rt, t, observed_after)))
                self.load_observed(observed_after)
                return bad
            if not aligned or first + len(vals) > beg + d or d < 1:
                # statement silent (offset inside an element / more data than declared): accept no-harm outcomes only
                self.load_observed(observed_after)
                return bad
            tag.v[first:first + len(vals)] = conv
            if not self.matches(observed_after):
                bad.append(("store-differs", "after acknowledged %r store is %r, array model says %r"
                            % (req, observed_after, self.store())))
                self.load_observed(observed_after)
            return bad
        # refused write
        unchanged("was refused (%r)" % (status,))
        if r["status"] == 0x06:
            bad.append(("write-status-06", "%r answered with status 0x06" % (req,)))
        same_type = rt == t
        if in_range and aligned and same_type and len(vals) == d - (first - beg):
            bad.append(("valid-write-refused", "%r is a well-formed write inside tag %s[%d] but was refused with %r"
                        % (req, tag.name, n, status)))
        elif status not in (RANGE_ERR, TYPE_ERR):
            # existing tag: the failure must be one of the two documented ones
            if not (d == 0 or len(vals) == 0):
                bad.append(("wrong-refusal-status", "%r refused with %r, expected 0xFF/0x2105 or 0xFF/0x2107" % (req, status)))
        elif status == TYPE_ERR and same_type:
            bad.append(("type-error-for-same-type", "%r has the tag's own type but was refused 0x2107" % (req,)))
        elif status == RANGE_ERR and in_range and aligned and not same_type and len(vals) == d and holdable:
            pass  # a holdable foreign type refused as range error: statement allows refusal, status is debatable; accept
        return bad


# --------------------------------------------------------------------------------------------------
def encode_request(req):
    """request tuple -> CIP request bytes (via mc.wire)"""
    kind, addr = req[0], req[1]
    if addr[0] == "sym":
        path = W.tag_path(addr[1], addr[2])
    else:
        path = W.cia_path(addr[1], addr[2], addr[3], addr[4])
    if kind == "rd":
        return W.read_tag(path, req[2])
    if kind == "rf":
        return W.read_frag(path, req[2], req[3])
    if kind == "wt":
        return W.write_tag(path, req[2], req[3], req[4])
    if kind == "wf":
        return W.write_frag(path, req[2], req[3], req[4], req[5])
    if kind == "gas":
        return W.get_attribute_single(path)
    if kind == "sas":
        return W.set_attribute_single(path, req[2])
    raise ValueError(kind)
