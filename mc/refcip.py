"""mc.refcip -- independent reference codec for EtherNet/IP encapsulation + CIP (Logix dialect).

Written from the CIP / EtherNet-IP layout tables with `struct` only.  NEVER imports cpppo; shares no
code with it.  Everything is little-endian except the sockaddr fields of the identity / legacy items.

Conventions
  * values are plain dicts / lists / ints / floats / bools / str (ISO-8859-1 text) / bytes;
  * every encoder `enc_*( ..., fmap=False )` returns bytes, or `(bytes, FieldMap)` with `fmap=True`;
    a FieldMap is a nested dict  name -> Span(start,end) | FieldMap  (absolute offsets in the returned
    bytes).  `Span.kind` is one of 'len' (byte length), 'count', 'offset', 'size' (length in words),
    'pad', 'raw', 'val'.  `FieldMap.flat()` lists (dotted-name, start, end, kind);
    `FieldMap.lengths()` only the length/count/offset/size fields -- where faults are placed;
  * wherever an encoder takes payload *bytes* it also takes a `(bytes, FieldMap)` pair and nests the map;
  * every decoder `dec_*( bytes )` consumes the WHOLE buffer and raises `RefDecodeError` on anything
    malformed: truncation, inconsistent length/count/offset/size, non-zero pad, trailing garbage;
  * encoders raise `RefEncodeError` for a value outside its field's range -- never truncate;
  * canonical encoding: narrowest logical segment width, BOOL true = 0xFF, pads = 0x00.

Public API (one line each)
  RefDecodeError, RefEncodeError            exceptions (decoders / encoders)
  Span, FieldMap                            field-map types (see above)
  TYPES, TYPE_CODE, TYPE_NAME               CIP elementary type table  code -> (name, struct-format, size)
  enc_scalar(type, value) / dec_scalar(type, b)          one BOOL/SINT/.../LREAL element
  enc_ipaddr(a, network=False) / dec_ipaddr(b, network=False)   IPv4 address in a UDINT (LE) or big-endian
  enc_ifaceaddrs(d) / dec_ifaceaddrs(b)     TCP/IP Interface Object attr 5: 5 x UDINT address + STRING domain name
  enc_sstring(s) / dec_sstring(b)           SSTRING 0xDA: 1-byte length + chars
  enc_string(s) / dec_string(b)             STRING 0xD0: 2-byte length + chars + pad to even   [cpppo convention]
  enc_typed_data(type, values, structure_handle=None) / dec_typed_data(type, b)   array of elements (STRUCT: handle + raw)
  typed_size(type)                          element size in bytes of a fixed-size type (None for strings/STRUCT)
  enc_epath(segments, form='sized'|'padded'|'single'|'unsized') / dec_epath(b, form, widths=False)
  enc_segment(seg) / dec_segment(b)         one EPATH segment {'class'|'instance'|'attribute'|'element'|'connection': n
                                            [,'width':8|16|32]} | {'symbolic': str} | {'port': n, 'link': int|str}
  enc_status(status, ext=()) / dec_status(b)             general status + ext size + N 16-bit words
  enc_request(req) / dec_request(b, dialect='logix')     any CIP request   (dict with 'service', 'path', ...)
  enc_reply(rpy)   / dec_reply(b, dialect='logix')       any CIP reply     (dict with 'service'|0x80, 'status', 'ext', ...)
  enc_unconnected_send(message, route_path, priority, timeout_ticks, send_path) / dec_unconnected_send(b)
  enc_unconnected_send_error(status, ext, remaining_path_size) / dec_unconnected_send_error(b)
  enc_ncp(fields, large) / dec_ncp(value, large)         Forward Open network connection parameters <-> bit fields
  enc_cpf(items) / dec_cpf(b)               Common Packet Format item list ([] -> count 0; None -> no CPF at all)
  enc_identity(d) / dec_identity(b)         body of the 0x000C ListIdentity item
  enc_command(command, payload) / dec_command(command, b)   command specific data of one encapsulation command
  enc_frame(frame) / dec_frame(b, parse=True)            24-byte header + payload ('payload' = bytes | dict | None)
  split_frames(stream)                      -> ([complete frame bytes...], remainder)
  encode(kind, v) / decode(kind, b) / KINDS uniform dispatch over all of the above by grammar element name
  -- builders for the stateful checks (all return bytes; fmap=True -> (bytes, FieldMap)) --
  register(protocol_version=1, options=0, context=..)    RegisterSession request frame
  unregister(session)                       UnRegisterSession frame
  list_services() / list_identity() / list_interfaces()  the three empty-bodied requests
  send_rr_data(session, cip, context=.., route_path=None|[..], send_path=None, unconnected_send=False, timeout=5)
  send_unit_data(session, conn_id, seq, cip, context=..) connected frame: items 0xA1 + 0xB1
  read_tag(path, elements=1) / read_frag(path, elements, offset)
  write_tag(path, type_code, values, elements=None) / write_frag(path, type_code, values, elements, offset)
  get_attribute_single(path) / get_attributes_all(path) / get_attribute_list(path, attributes)
  set_attribute_single(path, raw_bytes) / generic_service(service, path, raw=b'')
  multiple(list_of_cip_requests, path=None) CIP Multiple Service Packet request
  forward_open(...) / forward_close(...)    Connection Manager requests
  symbolic(name, *elements) / logical(cls, inst, attr=None, elem=None)   path helpers
  decode_reply_frame(b) / decode_request_frame(b)        frame -> dict down to service/status/ext/type/values/members

Conventions of cpppo (not of the specification) that this codec follows ON PURPOSE, so that the two can
be compared; each is switchable where the tables say otherwise:
  * STRING (0xD0) elements are framed as UINT length + chars + one NUL pad byte when the length is odd
    (the CIP STRING is length + chars with no pad; a Logix STRING tag is really a STRUCT).  `enc_string(pad=False)`.
  * SSTRING 0xDA, STRING 0xD0 and STRUCT 0x02A0 are used as *tag type codes* in Read/Write Tag data.
  * the 0x0100 ListServices item carries its name as chars + ONE NUL (the table has a fixed USINT[16],
    NUL filled: `enc_cpf` item key 'name_size': 16).  For the standard "Communications" both are 16 bytes
    only when two NULs are sent.
  * the Get Attribute List reply body is opaque (cannot be parsed without the attribute types).
  * item 0x0001 (legacy command 0x0001 reply) is undocumented; layout taken from the capture.
  * the identity item's Revision (USINT major, USINT minor) is handled as one UINT `product_revision`.
  * a Write Tag [Fragmented] of a STRUCT carries: type 0x02A0, structure handle, elements, [offset,] data.
"""
from __future__ import annotations

import struct

__all__ = [
    "RefDecodeError", "RefEncodeError", "Span", "FieldMap", "TYPES", "TYPE_CODE", "TYPE_NAME",
    "enc_scalar", "dec_scalar", "enc_ipaddr", "dec_ipaddr", "enc_ifaceaddrs", "dec_ifaceaddrs", "enc_sstring", "dec_sstring", "enc_string", "dec_string",
    "enc_typed_data", "dec_typed_data", "typed_size", "enc_epath", "dec_epath", "enc_segment", "dec_segment",
    "enc_status", "dec_status", "enc_request", "dec_request", "enc_reply", "dec_reply",
    "enc_unconnected_send", "dec_unconnected_send", "enc_unconnected_send_error", "dec_unconnected_send_error",
    "enc_ncp", "dec_ncp", "enc_cpf", "dec_cpf", "enc_identity", "dec_identity", "enc_command", "dec_command",
    "enc_frame", "dec_frame", "split_frames", "encode", "decode", "KINDS",
    "register", "unregister", "list_services", "list_identity", "list_interfaces", "send_rr_data", "send_unit_data",
    "read_tag", "read_frag", "write_tag", "write_frag", "get_attribute_single", "get_attributes_all",
    "get_attribute_list", "set_attribute_single", "generic_service", "multiple", "forward_open", "forward_close",
    "symbolic", "logical", "decode_reply_frame", "decode_request_frame",
]


class RefDecodeError(Exception):
    """The bytes are not a well-formed instance of the requested grammar element."""


class RefEncodeError(ValueError):
    """A value does not fit its field (never silently truncated)."""


# ------------------------------------------------------------------------------------------------
# field maps

class Span(tuple):
    """(start, end) byte range with a .kind."""

    def __new__(cls, start, end, kind="val"):
        o = tuple.__new__(cls, (start, end))
        o.kind = kind
        return o

    def __reduce__(self):
        return (Span, (self[0], self[1], self.kind))

    def shifted(self, n):
        return Span(self[0] + n, self[1] + n, self.kind)


LENGTH_KINDS = ("len", "count", "offset", "size")


class FieldMap(dict):
    """name -> Span | FieldMap; .span is the range of the whole element."""

    span = (0, 0)

    def shifted(self, n):
        m = FieldMap()
        for k, v in self.items():
            m[k] = v.shifted(n)
        m.span = (self.span[0] + n, self.span[1] + n)
        return m

    def flat(self, prefix=""):
        out = []
        for k, v in self.items():
            name = prefix + k
            if isinstance(v, FieldMap):
                out.extend(v.flat(name + "."))
            else:
                out.append((name, v[0], v[1], v.kind))
        return out

    def lengths(self):
        return [f for f in self.flat() if f[3] in LENGTH_KINDS]

    def boundaries(self):
        """sorted distinct field boundaries (cut points)"""
        s = set()
        for _, a, b, _k in self.flat():
            s.add(a)
            s.add(b)
        return sorted(s)

    def __reduce__(self):
        return (_fm_rebuild, (dict(self), self.span))


def _fm_rebuild(d, span):
    m = FieldMap(d)
    m.span = span
    return m


def _pack(fmt, value, what):
    if isinstance(value, bool) or (not isinstance(value, int) and fmt[-1] not in "fd"):
        raise RefEncodeError("%s: %r is not an integer" % (what, value))
    if fmt[-1] in "fd" and not isinstance(value, (int, float)):
        raise RefEncodeError("%s: %r is not a number" % (what, value))
    try:
        return struct.pack(fmt, value)
    except (struct.error, OverflowError) as exc:
        raise RefEncodeError("%s: %r out of range for %r (%s)" % (what, value, fmt, exc))


class _W:
    """byte writer that records where every field went"""

    def __init__(self):
        self.b = bytearray()
        self.fm = FieldMap()

    def put(self, name, data, kind="val"):
        st = len(self.b)
        self.b += data
        if name:
            self.fm[name] = Span(st, len(self.b), kind)

    def num(self, name, fmt, v, kind="val"):
        self.put(name, _pack(fmt, v, name), kind)

    def u8(self, name, v, kind="val"):
        self.num(name, "<B", v, kind)

    def u16(self, name, v, kind="val"):
        self.num(name, "<H", v, kind)

    def u32(self, name, v, kind="val"):
        self.num(name, "<I", v, kind)

    def pad(self, name, n=1):
        self.put(name, b"\x00" * n, "pad")

    def raw(self, name, x):
        """bytes, or a (bytes, FieldMap) pair whose map is nested under name"""
        if isinstance(x, tuple):
            data, fm = x
            st = len(self.b)
            self.b += data
            m = fm.shifted(st)
            self.fm[name] = m
        else:
            if not isinstance(x, (bytes, bytearray)):
                raise RefEncodeError("%s: expected bytes, got %r" % (name, type(x).__name__))
            self.put(name, bytes(x), "raw")

    def sub(self, name, pair):
        self.raw(name, pair)

    def done(self):
        self.fm.span = (0, len(self.b))
        return bytes(self.b), self.fm

    def __len__(self):
        return len(self.b)


def _blen(x):
    return len(x[0]) if isinstance(x, tuple) else len(x)


def _bytes_of(x):
    return x[0] if isinstance(x, tuple) else bytes(x)


class _R:
    """bounded byte reader"""

    def __init__(self, b, pos=0, end=None, what=""):
        if not isinstance(b, (bytes, bytearray, memoryview)):
            raise RefDecodeError("not bytes: %r" % type(b).__name__)
        self.b = bytes(b)
        self.pos = pos
        self.end = len(self.b) if end is None else end
        self.what = what

    @property
    def left(self):
        return self.end - self.pos

    def take(self, n, what="bytes"):
        if n < 0 or self.pos + n > self.end:
            raise RefDecodeError("truncated: need %d byte(s) for %s at offset %d, have %d"
                                 % (n, what, self.pos, self.left))
        out = self.b[self.pos:self.pos + n]
        self.pos += n
        return out

    def num(self, fmt, what="field"):
        return struct.unpack(fmt, self.take(struct.calcsize(fmt), what))[0]

    def u8(self, what="u8"):
        return self.num("<B", what)

    def u16(self, what="u16"):
        return self.num("<H", what)

    def u32(self, what="u32"):
        return self.num("<I", what)

    def peek(self):
        if self.left < 1:
            raise RefDecodeError("truncated: nothing left at offset %d (%s)" % (self.pos, self.what))
        return self.b[self.pos]

    def sub(self, n, what="element"):
        if n < 0 or self.pos + n > self.end:
            raise RefDecodeError("inconsistent length: %s claims %d byte(s) at offset %d, only %d available"
                                 % (what, n, self.pos, self.left))
        r = _R(self.b, self.pos, self.pos + n, what)
        self.pos += n
        return r

    def rest(self):
        return self.take(self.left)

    def zero(self, n, what="pad"):
        p = self.take(n, what)
        if p.strip(b"\x00"):
            raise RefDecodeError("non-zero %s %r at offset %d" % (what, p, self.pos - n))

    def finish(self, what=""):
        if self.left:
            raise RefDecodeError("trailing garbage: %d unconsumed byte(s) after %s at offset %d"
                                 % (self.left, what or self.what or "element", self.pos))


def _api(f):
    """public encoder: fmap=False -> bytes, fmap=True -> (bytes, FieldMap)"""
    def g(*a, fmap=False, **k):
        pair = f(*a, **k)
        return pair if fmap else pair[0]
    g.__name__ = f.__name__.lstrip("_")
    g.__doc__ = f.__doc__
    g.pair = f
    return g


# ------------------------------------------------------------------------------------------------
# elementary types

BOOL, SINT, INT, DINT, LINT, USINT, UINT, UDINT, ULINT, REAL, LREAL = (
    0xC1, 0xC2, 0xC3, 0xC4, 0xC5, 0xC6, 0xC7, 0xC8, 0xC9, 0xCA, 0xCB)
STRING, SSTRING, STRUCT = 0xD0, 0xDA, 0x02A0
WORD, DWORD = 0xD2, 0xD3

# code -> (name, struct format, size)   (CIP Vol 1 appendix C, elementary data type codes)
TYPES = {
    BOOL: ("BOOL", "<B", 1), SINT: ("SINT", "<b", 1), INT: ("INT", "<h", 2), DINT: ("DINT", "<i", 4),
    LINT: ("LINT", "<q", 8), USINT: ("USINT", "<B", 1), UINT: ("UINT", "<H", 2), UDINT: ("UDINT", "<I", 4),
    ULINT: ("ULINT", "<Q", 8), REAL: ("REAL", "<f", 4), LREAL: ("LREAL", "<d", 8),
    SSTRING: ("SSTRING", None, None), STRING: ("STRING", None, None), STRUCT: ("STRUCT", None, None),
}
TYPE_NAME = {c: t[0] for c, t in TYPES.items()}
TYPE_CODE = {t[0]: c for c, t in TYPES.items()}
# not tag types of the 14, but scalar layouts used inside messages
_EXTRA = {"WORD": "<H", "DWORD": "<I", "UINT_network": ">H", "INT_network": ">h", "UDINT_network": ">I",
          "DINT_network": ">i", "REAL_network": ">f"}


def _tcode(t):
    if isinstance(t, str):
        if t in TYPE_CODE:
            return TYPE_CODE[t]
        raise RefEncodeError("unknown CIP type name %r" % t)
    if t in TYPES:
        return t
    raise RefEncodeError("unknown CIP type code %r" % (t,))


def typed_size(t):
    return TYPES[_tcode(t)][2]


def _scalar_fmt(t):
    if isinstance(t, str) and t in _EXTRA:
        return t, _EXTRA[t]
    code = _tcode(t)
    name, fmt, _ = TYPES[code]
    if fmt is None:
        raise RefEncodeError("%s is not a fixed-size scalar" % name)
    return name, fmt


def enc_scalar(t, value):
    """one element of a fixed-size type (also 'WORD','DWORD','UINT_network',... by name)"""
    name, fmt = _scalar_fmt(t)
    if name == "BOOL":
        if isinstance(value, bool) or value in (0, 1, 0xFF):
            return b"\xff" if value else b"\x00"
        raise RefEncodeError("BOOL: %r" % (value,))
    return _pack(fmt, value, name)


def dec_scalar(t, b):
    name, fmt = _scalar_fmt(t)
    r = _R(b)
    v = r.num(fmt, name)
    r.finish(name)
    return bool(v) if name == "BOOL" else v


def enc_ipaddr(addr, network=False):
    """IPv4 address (dotted quad or int) held in a UDINT: little-endian like every CIP UDINT (TCP/IP Interface
    Object attribute 5), or big-endian ('network', as in the sockaddr of the identity item)"""
    return _pack(">I" if network else "<I", _ip_int(addr), "IPADDR")


def dec_ipaddr(b, network=False):
    r = _R(b)
    v = r.num(">I" if network else "<I", "IPADDR")
    r.finish("IPADDR")
    return _ip_str(v)


def _enc_ifaceaddrs(d):
    """TCP/IP Interface Object attribute 5: five UDINT addresses + STRING domain name padded to even"""
    w = _W()
    for k in ("ip_address", "network_mask", "gateway_address", "dns_primary", "dns_secondary"):
        w.put(k, enc_ipaddr(d[k]))
    w.sub("domain_name", _enc_string(d["domain_name"]))
    return w.done()


def dec_ifaceaddrs(b):
    r = _R(b)
    d = {}
    for k in ("ip_address", "network_mask", "gateway_address", "dns_primary", "dns_secondary"):
        d[k] = _ip_str(r.u32(k))
    d["domain_name"] = _rd_string(r)
    r.finish("interface addresses")
    return d


def _latin(s, what):
    if isinstance(s, (bytes, bytearray)):
        return bytes(s)
    if not isinstance(s, str):
        raise RefEncodeError("%s: expected text, got %r" % (what, s))
    try:
        return s.encode("iso-8859-1")
    except UnicodeError as exc:
        raise RefEncodeError("%s: %s" % (what, exc))


def _enc_sstring(s):
    w = _W()
    raw = _latin(s, "SSTRING")
    if len(raw) > 0xFF:
        raise RefEncodeError("SSTRING longer than 255 bytes (%d)" % len(raw))
    w.u8("length", len(raw), "len")
    w.put("string", raw)
    return w.done()


def _rd_sstring(r):
    n = r.u8("SSTRING length")
    return r.take(n, "SSTRING chars").decode("iso-8859-1")


def dec_sstring(b):
    r = _R(b)
    s = _rd_sstring(r)
    r.finish("SSTRING")
    return s


def _enc_string(s, pad=True):
    w = _W()
    raw = _latin(s, "STRING")
    if len(raw) > 0xFFFF:
        raise RefEncodeError("STRING longer than 65535 bytes (%d)" % len(raw))
    w.u16("length", len(raw), "len")
    w.put("string", raw)
    if pad and len(raw) % 2:
        w.pad("pad")
    return w.done()


def _rd_string(r, pad=True):
    n = r.u16("STRING length")
    s = r.take(n, "STRING chars").decode("iso-8859-1")
    if pad and n % 2:
        r.zero(1, "STRING pad")
    return s


def dec_string(b, pad=True):
    r = _R(b)
    s = _rd_string(r, pad)
    r.finish("STRING")
    return s


enc_sstring = _api(_enc_sstring)
enc_string = _api(_enc_string)
enc_ifaceaddrs = _api(_enc_ifaceaddrs)


def _enc_typed_data(t, values, structure_handle=None):
    """elements only (the 16-bit type code is written by the service encoders)"""
    code = _tcode(t)
    w = _W()
    if code == STRUCT:
        if structure_handle is None:
            raise RefEncodeError("STRUCT data needs a structure_handle")
        w.u16("structure_handle", structure_handle)
        w.raw("data", values if isinstance(values, (bytes, bytearray, tuple)) else bytes(bytearray(values)))
        return w.done()
    if isinstance(values, (bytes, bytearray, str)):
        raise RefEncodeError("typed data must be a list of elements, not %r" % type(values).__name__)
    for i, v in enumerate(values):
        if code == SSTRING:
            w.sub("[%d]" % i, _enc_sstring(v))
        elif code == STRING:
            w.sub("[%d]" % i, _enc_string(v))
        else:
            w.put("[%d]" % i, enc_scalar(code, v))
    return w.done()


enc_typed_data = _api(_enc_typed_data)


def dec_typed_data(t, b):
    """-> list of elements; STRUCT -> {'structure_handle': h, 'data': bytes}"""
    try:
        code = _tcode(t)
    except RefEncodeError as exc:
        raise RefDecodeError(str(exc))
    r = _R(b)
    if code == STRUCT:
        h = r.u16("structure handle")
        return {"structure_handle": h, "data": r.rest()}
    out = []
    if code == SSTRING:
        while r.left:
            out.append(_rd_sstring(r))
        return out
    if code == STRING:
        while r.left:
            out.append(_rd_string(r))
        return out
    name, fmt, size = TYPES[code]
    if r.left % size:
        raise RefDecodeError("%d byte(s) is not a whole number of %s elements" % (r.left, name))
    while r.left:
        v = r.num(fmt, name)
        out.append(bool(v) if code == BOOL else v)
    return out


# ------------------------------------------------------------------------------------------------
# EPATH   (CIP Vol 1 appendix C-1.4: segment type in bits 7-5)

_LOGICAL = {            # name -> (base opcode, allowed widths)
    "class":      (0x20, (8, 16)),
    "instance":   (0x24, (8, 16, 32)),
    "element":    (0x28, (8, 16, 32)),
    "connection": (0x2C, (8, 16)),
    "attribute":  (0x30, (8, 16)),
}
_LOGICAL_BY_OP = {}
for _n, (_base, _ws) in _LOGICAL.items():
    for _i, _wd in enumerate((8, 16, 32)):
        if _wd in _ws:
            _LOGICAL_BY_OP[_base + _i] = (_n, _wd)
SYMBOLIC_EXT = 0x91


def _enc_segment(seg):
    w = _W()
    if not isinstance(seg, dict):
        raise RefEncodeError("EPATH segment must be a dict: %r" % (seg,))
    keys = set(seg) - {"width"}
    if len(keys) == 1 and next(iter(keys)) in _LOGICAL:
        name = next(iter(keys))
        val = seg[name]
        base, widths = _LOGICAL[name]
        if isinstance(val, bool) or not isinstance(val, int) or val < 0:
            raise RefEncodeError("EPATH %s value %r" % (name, val))
        need = 8 if val <= 0xFF else 16 if val <= 0xFFFF else 32
        width = seg.get("width") or need
        if width not in widths or width < need:
            raise RefEncodeError("EPATH %s value %r does not fit a %r-bit %s segment" % (name, val, width, name))
        if width == 8:
            w.u8("type", base)
            w.u8(name, val)
        elif width == 16:
            w.u8("type", base + 1)
            w.pad("pad")
            w.u16(name, val)
        else:
            w.u8("type", base + 2)
            w.pad("pad")
            w.u32(name, val)
    elif keys == {"symbolic"}:
        raw = _latin(seg["symbolic"], "symbolic segment")
        if not 1 <= len(raw) <= 0xFF:
            raise RefEncodeError("symbolic segment of %d bytes" % len(raw))
        w.u8("type", SYMBOLIC_EXT)
        w.u8("length", len(raw), "len")
        w.put("symbolic", raw)
        if len(raw) % 2:
            w.pad("pad")
    elif keys == {"port", "link"}:
        port, link = seg["port"], seg["link"]
        if isinstance(port, bool) or not isinstance(port, int) or not 1 <= port <= 0xFFFF:
            raise RefEncodeError("port %r outside 1..65535" % (port,))
        ext = port >= 0x0F
        low = 0x0F if ext else port
        if isinstance(link, int) and not isinstance(link, bool):
            w.u8("type", low)
            if ext:
                w.u16("port", port)
            w.u8("link", link)
        elif isinstance(link, (str, bytes)):
            raw = _latin(link, "link address")
            if not 1 <= len(raw) <= 0xFF:
                raise RefEncodeError("link address of %d bytes" % len(raw))
            w.u8("type", low | 0x10)
            w.u8("link_length", len(raw), "len")
            if ext:
                w.u16("port", port)
            w.put("link", raw)
            if len(raw) % 2:
                w.pad("pad")
        else:
            raise RefEncodeError("link %r is neither a number nor an address string" % (link,))
    else:
        raise RefEncodeError("unknown EPATH segment %r" % (seg,))
    return w.done()


enc_segment = _api(_enc_segment)


def _rd_segment(r, widths=False):
    op = r.u8("segment type")
    if op in _LOGICAL_BY_OP:
        name, width = _LOGICAL_BY_OP[op]
        if width == 8:
            val = r.u8(name)
        else:
            r.zero(1, "logical segment pad")
            val = r.u16(name) if width == 16 else r.u32(name)
        seg = {name: val}
        need = 8 if val <= 0xFF else 16 if val <= 0xFFFF else 32
        if widths and width != need:
            seg["width"] = width
        return seg
    if op == SYMBOLIC_EXT:
        n = r.u8("symbolic length")
        if n == 0:
            raise RefDecodeError("empty symbolic segment at offset %d" % (r.pos - 2))
        s = r.take(n, "symbolic name").decode("iso-8859-1")
        if n % 2:
            r.zero(1, "symbolic pad")
        return {"symbolic": s}
    if op & 0xE0 == 0x00:                       # port segment
        low = op & 0x0F
        if low == 0:
            raise RefDecodeError("port segment with reserved port 0 at offset %d" % (r.pos - 1))
        if op & 0x10:
            n = r.u8("link address length")
            if n == 0:
                raise RefDecodeError("port segment with empty link address")
            port = r.u16("extended port") if low == 0x0F else low
            link = r.take(n, "link address").decode("iso-8859-1")
            if n % 2:
                r.zero(1, "link pad")
        else:
            port = r.u16("extended port") if low == 0x0F else low
            link = r.u8("link")
        return {"port": port, "link": link}
    raise RefDecodeError("unsupported EPATH segment type 0x%02x at offset %d" % (op, r.pos - 1))


def dec_segment(b, widths=False):
    r = _R(b)
    s = _rd_segment(r, widths)
    r.finish("EPATH segment")
    return s


def _segs(segments):
    if isinstance(segments, dict):
        raise RefEncodeError("EPATH must be a list of segments")
    return list(segments)


def _enc_epath(segments, form="sized"):
    """form: 'sized' (USINT words), 'padded' (USINT words + reserved 0), 'single' (one segment, no size),
    'unsized' (segments only)"""
    segments = _segs(segments)
    body = _W()
    for i, seg in enumerate(segments):
        body.sub("segment[%d]" % i, _enc_segment(seg))
    data, fm = body.done()
    if len(data) % 2:
        raise RefEncodeError("EPATH of odd length")          # cannot happen: every segment is even
    w = _W()
    if form in ("sized", "padded"):
        if len(data) // 2 > 0xFF:
            raise RefEncodeError("EPATH of %d words does not fit the size byte" % (len(data) // 2))
        w.u8("size", len(data) // 2, "size")
        if form == "padded":
            w.pad("reserved")
    elif form == "single":
        if len(segments) != 1:
            raise RefEncodeError("a 'single' EPATH has exactly one segment, not %d" % len(segments))
    elif form != "unsized":
        raise RefEncodeError("unknown EPATH form %r" % (form,))
    st = len(w)
    w.b += data
    for k, v in fm.items():
        w.fm[k] = v.shifted(st)
    return w.done()


enc_epath = _api(_enc_epath)


def _rd_epath(r, form="sized", widths=False):
    if form in ("sized", "padded"):
        words = r.u8("EPATH size")
        if form == "padded":
            r.zero(1, "EPATH reserved byte")
        sr = r.sub(words * 2, "EPATH size")
        segs = []
        while sr.left:
            segs.append(_rd_segment(sr, widths))
        return segs
    if form == "single":
        return [_rd_segment(r, widths)]
    if form == "unsized":
        segs = []
        while r.left:
            segs.append(_rd_segment(r, widths))
        return segs
    raise RefDecodeError("unknown EPATH form %r" % (form,))


def dec_epath(b, form="sized", widths=False):
    r = _R(b)
    segs = _rd_epath(r, form, widths)
    r.finish("EPATH")
    return segs


def symbolic(name, *elements):
    """path of a tag: symbolic('a.b', 3) -> [{'symbolic':'a'},{'symbolic':'b'},{'element':3}]"""
    path = [{"symbolic": n} for n in name.split(".")]
    path += [{"element": e} for e in elements]
    return path


def logical(cls, inst=None, attr=None, elem=None):
    path = [{"class": cls}]
    if inst is not None:
        path.append({"instance": inst})
    if attr is not None:
        path.append({"attribute": attr})
    if elem is not None:
        path.append({"element": elem})
    return path


# ------------------------------------------------------------------------------------------------
# status

def _enc_status(status=0, ext=()):
    w = _W()
    ext = list(ext or ())
    w.u8("status", status)
    if len(ext) > 0xFF:
        raise RefEncodeError("more than 255 extended status words")
    w.u8("ext_size", len(ext), "size")
    for i, x in enumerate(ext):
        w.u16("ext[%d]" % i, x)
    return w.done()


enc_status = _api(_enc_status)


def _rd_status(r):
    st = r.u8("general status")
    n = r.u8("extended status size")
    sr = r.sub(2 * n, "extended status size")
    return st, [sr.u16("extended status word") for _ in range(n)]


def dec_status(b):
    r = _R(b)
    st, ext = _rd_status(r)
    r.finish("status")
    return {"status": st, "ext": ext}


# ------------------------------------------------------------------------------------------------
# CIP services

SVC_GA_ALL, SVC_GA_LIST, SVC_MULTIPLE, SVC_GA_SINGLE, SVC_SA_SINGLE = 0x01, 0x03, 0x0A, 0x0E, 0x10
SVC_READ_TAG, SVC_WRITE_TAG, SVC_FWD_CLOSE, SVC_READ_FRAG, SVC_WRITE_FRAG = 0x4C, 0x4D, 0x4E, 0x52, 0x53
SVC_FWD_OPEN, SVC_FWD_OPEN_LARGE = 0x54, 0x5B
SVC_UNCONNECTED_SEND = 0x52
CONNECTION_MANAGER = [{"class": 6}, {"instance": 1}]
MESSAGE_ROUTER = [{"class": 2}, {"instance": 1}]

_FO_KEYS = ("priority_time_tick", "timeout_ticks", "O_T_connection_ID", "T_O_connection_ID", "connection_serial",
            "O_vendor", "O_serial", "connection_timeout_multiplier", "O_T_RPI", "O_T_NCP", "T_O_RPI", "T_O_NCP",
            "transport_class_triggers", "connection_path")


def _need(d, *keys):
    for k in keys:
        if k not in d:
            raise RefEncodeError("missing field %r in %r" % (k, d))


def _write_body(w, req, frag):
    code = _tcode(req["type"])
    w.u16("type", code)
    data = req["data"]
    if code == STRUCT:
        _need(req, "structure_handle")
        w.u16("structure_handle", req["structure_handle"])
        elements = req["elements"] if req.get("elements") is not None else 1
    else:
        elements = req["elements"] if req.get("elements") is not None else len(data)
    w.u16("elements", elements, "count")
    if frag:
        w.u32("offset", req.get("offset", 0), "offset")
    if code == STRUCT:
        w.raw("data", data if isinstance(data, (bytes, bytearray, tuple)) else bytes(bytearray(data)))
    else:
        w.sub("data", _enc_typed_data(code, data))


def _enc_request(req):
    """CIP request dict -> bytes.  Shape is selected by 'service' (and, for 0x52, by the path)."""
    _need(req, "service", "path")
    svc = req["service"]
    if isinstance(svc, bool) or not isinstance(svc, int) or not 0 <= svc <= 0x7F:
        raise RefEncodeError("request service code %r outside 0..0x7f" % (svc,))
    if svc == SVC_UNCONNECTED_SEND and "message" in req:
        return _enc_unconnected_send(req["message"], req.get("route_path", []), req.get("priority", 5),
                                     req.get("timeout_ticks", 157), req["path"])
    w = _W()
    w.u8("service", svc)
    w.sub("path", _enc_epath(req["path"], "sized"))
    if svc == SVC_READ_TAG and "elements" in req:
        w.u16("elements", req["elements"], "count")
    elif svc == SVC_READ_FRAG and "elements" in req:
        w.u16("elements", req["elements"], "count")
        w.u32("offset", req.get("offset", 0), "offset")
    elif svc == SVC_WRITE_TAG and "type" in req:
        _write_body(w, req, False)
    elif svc == SVC_WRITE_FRAG and "type" in req:
        _write_body(w, req, True)
    elif svc == SVC_GA_LIST and "attributes" in req:
        attrs = list(req["attributes"])
        w.u16("count", len(attrs), "count")
        for i, a in enumerate(attrs):
            w.u16("attribute[%d]" % i, a)
    elif svc == SVC_MULTIPLE and "requests" in req:
        _enc_bundle(w, [r if isinstance(r, (bytes, bytearray, tuple)) else _enc_request(r) for r in req["requests"]])
    elif svc in (SVC_FWD_OPEN, SVC_FWD_OPEN_LARGE) and "O_T_NCP" in req:
        _need(req, *_FO_KEYS)
        large = svc == SVC_FWD_OPEN_LARGE
        w.u8("priority_time_tick", req["priority_time_tick"])
        w.u8("timeout_ticks", req["timeout_ticks"])
        w.u32("O_T_connection_ID", req["O_T_connection_ID"])
        w.u32("T_O_connection_ID", req["T_O_connection_ID"])
        w.u16("connection_serial", req["connection_serial"])
        w.u16("O_vendor", req["O_vendor"])
        w.u32("O_serial", req["O_serial"])
        w.u8("connection_timeout_multiplier", req["connection_timeout_multiplier"])
        w.pad("reserved", 3)
        w.u32("O_T_RPI", req["O_T_RPI"])
        (w.u32 if large else w.u16)("O_T_NCP", req["O_T_NCP"])
        w.u32("T_O_RPI", req["T_O_RPI"])
        (w.u32 if large else w.u16)("T_O_NCP", req["T_O_NCP"])
        w.u8("transport_class_triggers", req["transport_class_triggers"])
        w.sub("connection_path", _enc_epath(req["connection_path"], "sized"))
    elif svc == SVC_FWD_CLOSE and "connection_serial" in req:
        _need(req, "priority_time_tick", "timeout_ticks", "connection_serial", "O_vendor", "O_serial", "connection_path")
        w.u8("priority_time_tick", req["priority_time_tick"])
        w.u8("timeout_ticks", req["timeout_ticks"])
        w.u16("connection_serial", req["connection_serial"])
        w.u16("O_vendor", req["O_vendor"])
        w.u32("O_serial", req["O_serial"])
        w.sub("connection_path", _enc_epath(req["connection_path"], "padded"))
    else:
        # Get Attributes All / Get Attribute Single (no body), Set Attribute Single / generic: raw body
        data = req.get("data", b"")
        if _blen(data):
            w.raw("data", data)
    return w.done()


def _enc_bundle(w, members):
    """count + offset table (relative to the count field) + members"""
    n = len(members)
    if n > 0xFFFF:
        raise RefEncodeError("too many bundle members")
    w.u16("count", n, "count")
    off = 2 + 2 * n
    for i, m in enumerate(members):
        w.u16("offset[%d]" % i, off, "offset")
        off += _blen(m)
    for i, m in enumerate(members):
        w.raw("member[%d]" % i, m)


def _rd_bundle(r):
    """-> list of member byte strings"""
    base = r.pos
    n = r.u16("bundle count")
    if r.left < 2 * n:
        raise RefDecodeError("inconsistent count: bundle claims %d members, offset table does not fit" % n)
    offs = [r.u16("bundle offset") for _ in range(n)]
    total = r.end - base
    want = 2 + 2 * n
    for i, o in enumerate(offs):
        if o != want if i == 0 else o <= offs[i - 1]:
            raise RefDecodeError("inconsistent offset table %r (member %d; first must be %d, strictly rising)"
                                 % (offs, i, 2 + 2 * n))
        if o > total:
            raise RefDecodeError("inconsistent offset table %r: offset %d beyond end %d" % (offs, o, total))
    if n == 0:
        return []
    out = []
    for i, o in enumerate(offs):
        e = offs[i + 1] if i + 1 < n else total
        out.append(r.b[base + o:base + e])
    r.pos = r.end
    return out


enc_request = _api(_enc_request)


def dec_request(b, dialect="logix"):
    """bytes -> request dict.  dialect 'logix' knows Read/Write Tag [Fragmented]; None treats 0x4c..0x53 as generic."""
    r = _R(b)
    svc = r.u8("service")
    if svc & 0x80:
        raise RefDecodeError("service 0x%02x has the reply bit set" % svc)
    path = _rd_epath(r, "sized")
    req = {"service": svc, "path": path}
    to_cm = path == CONNECTION_MANAGER
    if svc == SVC_UNCONNECTED_SEND and to_cm:
        req.update(_rd_unconnected_send_body(r))
    elif svc == SVC_GA_LIST:
        n = r.u16("attribute count")
        sr = r.sub(r.left, "attribute list")
        if sr.left != 2 * n:
            raise RefDecodeError("inconsistent count: %d attribute ids claimed, %d byte(s) present" % (n, sr.left))
        req["attributes"] = [sr.u16("attribute id") for _ in range(n)]
    elif svc == SVC_MULTIPLE:
        req["requests"] = [dec_request(m, dialect) for m in _rd_bundle(r)]
    elif svc in (SVC_FWD_OPEN, SVC_FWD_OPEN_LARGE) and to_cm:
        large = svc == SVC_FWD_OPEN_LARGE
        req["priority_time_tick"] = r.u8()
        req["timeout_ticks"] = r.u8()
        req["O_T_connection_ID"] = r.u32()
        req["T_O_connection_ID"] = r.u32()
        req["connection_serial"] = r.u16()
        req["O_vendor"] = r.u16()
        req["O_serial"] = r.u32()
        req["connection_timeout_multiplier"] = r.u8()
        r.zero(3, "Forward Open reserved bytes")
        req["O_T_RPI"] = r.u32()
        req["O_T_NCP"] = r.u32() if large else r.u16()
        req["T_O_RPI"] = r.u32()
        req["T_O_NCP"] = r.u32() if large else r.u16()
        req["transport_class_triggers"] = r.u8()
        req["connection_path"] = _rd_epath(r, "sized")
    elif svc == SVC_FWD_CLOSE and to_cm:
        req["priority_time_tick"] = r.u8()
        req["timeout_ticks"] = r.u8()
        req["connection_serial"] = r.u16()
        req["O_vendor"] = r.u16()
        req["O_serial"] = r.u32()
        req["connection_path"] = _rd_epath(r, "padded")
    elif dialect == "logix" and svc == SVC_READ_TAG:
        req["elements"] = r.u16("elements")
    elif dialect == "logix" and svc == SVC_READ_FRAG:
        req["elements"] = r.u16("elements")
        req["offset"] = r.u32("offset")
    elif dialect == "logix" and svc in (SVC_WRITE_TAG, SVC_WRITE_FRAG):
        code = r.u16("type")
        if code not in TYPES:
            raise RefDecodeError("unknown tag type 0x%04x" % code)
        req["type"] = code
        if code == STRUCT:
            req["structure_handle"] = r.u16("structure handle")
        req["elements"] = r.u16("elements")
        if svc == SVC_WRITE_FRAG:
            req["offset"] = r.u32("offset")
        body = r.rest()
        req["data"] = body if code == STRUCT else dec_typed_data(code, body)
    else:
        if r.left:
            req["data"] = r.rest()
    r.finish("request")
    return req


# -- replies

def _enc_app(w, d):
    app = d.get("application", b"")
    n = _blen(app)
    if n % 2:
        raise RefEncodeError("application reply of odd length %d" % n)
    if n // 2 > 0xFF:
        raise RefEncodeError("application reply too long")
    w.u8("application_size", n // 2, "size")
    w.pad("app_reserved")
    if n:
        w.raw("application", app)


def _enc_reply(rpy):
    """CIP reply dict -> bytes: service|0x80, reserved 0, status, ext size, ext words, service specific data."""
    _need(rpy, "service")
    svc = rpy["service"]
    if isinstance(svc, bool) or not isinstance(svc, int) or not 0x80 <= svc <= 0xFF:
        raise RefEncodeError("reply service code %r outside 0x80..0xff" % (svc,))
    status = rpy.get("status", 0)
    w = _W()
    w.u8("service", svc)
    w.pad("reserved")
    w.sub("status", _enc_status(status, rpy.get("ext", ())))
    base = svc & 0x7F
    if base in (SVC_READ_TAG, SVC_READ_FRAG) and "type" in rpy:
        code = _tcode(rpy["type"])
        w.u16("type", code)
        if code == STRUCT:
            _need(rpy, "structure_handle")
            w.u16("structure_handle", rpy["structure_handle"])
            w.raw("data", rpy["data"])
        else:
            w.sub("data", _enc_typed_data(code, rpy["data"]))
    elif base == SVC_MULTIPLE and "replies" in rpy:
        _enc_bundle(w, [m if isinstance(m, (bytes, bytearray, tuple)) else _enc_reply(m) for m in rpy["replies"]])
    elif base in (SVC_FWD_OPEN, SVC_FWD_OPEN_LARGE) and "connection_serial" in rpy:
        if status == 0:
            _need(rpy, "O_T_connection_ID", "T_O_connection_ID", "connection_serial", "O_vendor", "O_serial",
                  "O_T_API", "T_O_API")
            w.u32("O_T_connection_ID", rpy["O_T_connection_ID"])
            w.u32("T_O_connection_ID", rpy["T_O_connection_ID"])
            w.u16("connection_serial", rpy["connection_serial"])
            w.u16("O_vendor", rpy["O_vendor"])
            w.u32("O_serial", rpy["O_serial"])
            w.u32("O_T_API", rpy["O_T_API"])
            w.u32("T_O_API", rpy["T_O_API"])
            _enc_app(w, rpy)
        else:
            _enc_cm_failure(w, rpy)
    elif base == SVC_FWD_CLOSE and "connection_serial" in rpy:
        if status == 0:
            w.u16("connection_serial", rpy["connection_serial"])
            w.u16("O_vendor", rpy["O_vendor"])
            w.u32("O_serial", rpy["O_serial"])
            _enc_app(w, rpy)
        else:
            _enc_cm_failure(w, rpy)
    else:
        data = rpy.get("data", b"")
        if _blen(data):
            w.raw("data", data)
    return w.done()


def _enc_cm_failure(w, rpy):
    _need(rpy, "connection_serial", "O_vendor", "O_serial")
    w.u16("connection_serial", rpy["connection_serial"])
    w.u16("O_vendor", rpy["O_vendor"])
    w.u32("O_serial", rpy["O_serial"])
    if rpy.get("remaining_path_size") is not None:
        w.u8("remaining_path_size", rpy["remaining_path_size"], "size")
        w.pad("reserved2")


enc_reply = _api(_enc_reply)


def _rd_app(r, rpy):
    n = r.u8("application reply size")
    r.zero(1, "reserved")
    sr = r.sub(2 * n, "application reply size")
    rpy["application"] = sr.rest()


def _rd_cm_failure(r, rpy):
    if not r.left:
        return
    rpy["connection_serial"] = r.u16()
    rpy["O_vendor"] = r.u16()
    rpy["O_serial"] = r.u32()
    if r.left:
        rpy["remaining_path_size"] = r.u8("remaining path size")
        r.zero(1, "reserved")


def dec_reply(b, dialect="logix"):
    """bytes -> reply dict {'service','status','ext', ...}"""
    r = _R(b)
    svc = r.u8("service")
    if not svc & 0x80:
        raise RefDecodeError("service 0x%02x does not have the reply bit set" % svc)
    r.zero(1, "reply reserved byte")
    status, ext = _rd_status(r)
    rpy = {"service": svc, "status": status, "ext": ext}
    base = svc & 0x7F
    if dialect == "logix" and base in (SVC_READ_TAG, SVC_READ_FRAG):
        if status in (0x00, 0x06):
            code = r.u16("type")
            if code not in TYPES:
                raise RefDecodeError("unknown tag type 0x%04x" % code)
            rpy["type"] = code
            if code == STRUCT:
                rpy["structure_handle"] = r.u16("structure handle")
                rpy["data"] = r.rest()
            else:
                rpy["data"] = dec_typed_data(code, r.rest())
    elif dialect == "logix" and base in (SVC_WRITE_TAG, SVC_WRITE_FRAG):
        pass
    elif base == SVC_MULTIPLE:
        if r.left:
            rpy["replies"] = [dec_reply(m, dialect) for m in _rd_bundle(r)]
    elif base in (SVC_FWD_OPEN, SVC_FWD_OPEN_LARGE):
        if status == 0:
            rpy["O_T_connection_ID"] = r.u32()
            rpy["T_O_connection_ID"] = r.u32()
            rpy["connection_serial"] = r.u16()
            rpy["O_vendor"] = r.u16()
            rpy["O_serial"] = r.u32()
            rpy["O_T_API"] = r.u32()
            rpy["T_O_API"] = r.u32()
            _rd_app(r, rpy)
        else:
            _rd_cm_failure(r, rpy)
    elif base == SVC_FWD_CLOSE:
        if status == 0:
            if r.left:
                rpy["connection_serial"] = r.u16()
                rpy["O_vendor"] = r.u16()
                rpy["O_serial"] = r.u32()
                _rd_app(r, rpy)
        else:
            _rd_cm_failure(r, rpy)
    else:
        if r.left:
            rpy["data"] = r.rest()
    r.finish("reply")
    return rpy


# -- Unconnected Send (service 0x52 to the Connection Manager)

def _enc_unconnected_send(message, route_path, priority=5, timeout_ticks=157, send_path=None):
    w = _W()
    w.u8("service", SVC_UNCONNECTED_SEND)
    w.sub("path", _enc_epath(CONNECTION_MANAGER if send_path is None else send_path, "sized"))
    w.u8("priority", priority)
    w.u8("timeout_ticks", timeout_ticks)
    n = _blen(message)
    w.u16("length", n, "len")
    w.raw("message", message)
    if n % 2:
        w.pad("pad")
    w.sub("route_path", _enc_epath(route_path or [], "padded"))
    return w.done()


enc_unconnected_send = _api(_enc_unconnected_send)


def _rd_unconnected_send_body(r):
    d = {"priority": r.u8("priority/time tick"), "timeout_ticks": r.u8("timeout ticks")}
    n = r.u16("embedded message length")
    d["message"] = r.sub(n, "embedded message length").rest()
    if n % 2:
        r.zero(1, "message pad")
    d["route_path"] = _rd_epath(r, "padded")
    return d


def dec_unconnected_send(b):
    """-> {'service':0x52,'path','priority','timeout_ticks','message': bytes,'route_path': [...]}"""
    r = _R(b)
    svc = r.u8("service")
    if svc != SVC_UNCONNECTED_SEND:
        raise RefDecodeError("not an Unconnected Send: service 0x%02x" % svc)
    d = {"service": svc, "path": _rd_epath(r, "sized")}
    d.update(_rd_unconnected_send_body(r))
    r.finish("unconnected send")
    return d


def _enc_unconnected_send_error(status, ext=(), remaining_path_size=None):
    w = _W()
    w.u8("service", SVC_UNCONNECTED_SEND | 0x80)
    w.pad("reserved")
    w.sub("status", _enc_status(status, ext))
    if remaining_path_size is not None:
        w.u8("remaining_path_size", remaining_path_size, "size")
    return w.done()


enc_unconnected_send_error = _api(_enc_unconnected_send_error)


def dec_unconnected_send_error(b):
    r = _R(b)
    svc = r.u8("service")
    if svc != SVC_UNCONNECTED_SEND | 0x80:
        raise RefDecodeError("not an Unconnected Send reply: service 0x%02x" % svc)
    r.zero(1, "reserved")
    status, ext = _rd_status(r)
    d = {"service": svc, "status": status, "ext": ext, "remaining_path_size": None}
    if r.left:
        d["remaining_path_size"] = r.u8("remaining path size")
    r.finish("unconnected send error")
    return d


# -- network connection parameters

def enc_ncp(fields, large=False):
    """{'size','variable','priority','type','redundant'} -> 16-bit (small) or 32-bit (large) word"""
    size, var, prio, typ, red = (fields[k] for k in ("size", "variable", "priority", "type", "redundant"))
    for name, v, top in (("size", size, 0xFFFF if large else 0x1FF), ("variable", var, 1), ("priority", prio, 3),
                         ("type", typ, 3), ("redundant", red, 1)):
        if isinstance(v, bool) or not isinstance(v, int) or not 0 <= v <= top:
            raise RefEncodeError("NCP %s %r outside 0..%d" % (name, v, top))
    hi = (var << 9) | (prio << 10) | (typ << 13) | (red << 15)
    return (hi << 16 | size) if large else (hi | size)


def dec_ncp(value, large=False):
    if not 0 <= value <= (0xFFFFFFFF if large else 0xFFFF):
        raise RefDecodeError("NCP %r out of range" % (value,))
    sh = 16 if large else 0
    return {"size": value & (0xFFFF if large else 0x1FF), "variable": value >> (9 + sh) & 1,
            "priority": value >> (10 + sh) & 3, "type": value >> (13 + sh) & 3, "redundant": value >> (15 + sh) & 1}


# ------------------------------------------------------------------------------------------------
# Common Packet Format

ITEM_NULL, ITEM_LEGACY, ITEM_IDENTITY, ITEM_CONN_ADDR, ITEM_CONN_DATA, ITEM_UNCONN_DATA, ITEM_SERVICES = (
    0x0000, 0x0001, 0x000C, 0x00A1, 0x00B1, 0x00B2, 0x0100)

_ID_KEYS = ("version", "sin_family", "sin_port", "sin_addr", "vendor_id", "device_type", "product_code",
            "product_revision", "status_word", "serial_number", "product_name", "state")


def _ip_int(a):
    if isinstance(a, int) and not isinstance(a, bool):
        return a
    try:
        parts = [int(p) for p in a.split(".")]
    except Exception:
        raise RefEncodeError("bad IPv4 address %r" % (a,))
    if len(parts) != 4 or any(not 0 <= p <= 255 for p in parts):
        raise RefEncodeError("bad IPv4 address %r" % (a,))
    return parts[0] << 24 | parts[1] << 16 | parts[2] << 8 | parts[3]


def _ip_str(n):
    return "%d.%d.%d.%d" % (n >> 24 & 255, n >> 16 & 255, n >> 8 & 255, n & 255)


def _put_sockaddr(w, d):
    w.num("sin_family", ">h", d["sin_family"])
    w.num("sin_port", ">H", d["sin_port"])
    w.num("sin_addr", ">I", _ip_int(d["sin_addr"]))
    w.pad("sin_zero", 8)


def _rd_sockaddr(r, d):
    d["sin_family"] = r.num(">h", "sin_family")
    d["sin_port"] = r.num(">H", "sin_port")
    d["sin_addr"] = _ip_str(r.num(">I", "sin_addr"))
    r.zero(8, "sin_zero")


def _enc_identity(d):
    """body of the ListIdentity item; sin_addr is a dotted quad (or int); sockaddr is big-endian"""
    _need(d, *_ID_KEYS[:-1])
    w = _W()
    w.u16("version", d["version"])
    _put_sockaddr(w, d)
    w.u16("vendor_id", d["vendor_id"])
    w.u16("device_type", d["device_type"])
    w.u16("product_code", d["product_code"])
    w.u16("product_revision", d["product_revision"])
    w.u16("status_word", d["status_word"])
    w.u32("serial_number", d["serial_number"])
    w.sub("product_name", _enc_sstring(d["product_name"]))
    w.u8("state", d.get("state", 0xFF))
    return w.done()


enc_identity = _api(_enc_identity)


def _rd_identity(r):
    d = {"version": r.u16("version")}
    _rd_sockaddr(r, d)
    d["vendor_id"] = r.u16()
    d["device_type"] = r.u16()
    d["product_code"] = r.u16()
    d["product_revision"] = r.u16()
    d["status_word"] = r.u16()
    d["serial_number"] = r.u32()
    d["product_name"] = _rd_sstring(r)
    d["state"] = r.u8("state")
    return d


def dec_identity(b):
    r = _R(b)
    d = _rd_identity(r)
    r.finish("identity item")
    return d


def _enc_item_body(item):
    t = item["type"]
    w = _W()
    if t == ITEM_CONN_ADDR and "connection" in item:
        w.u32("connection", item["connection"])
    elif t == ITEM_CONN_DATA and "sequence" in item:
        w.u16("sequence", item["sequence"])
        w.raw("data", item.get("data", b""))
    elif t == ITEM_IDENTITY and "identity" in item:
        return _enc_identity(item["identity"])
    elif t == ITEM_SERVICES and "name" in item:
        w.u16("version", item.get("version", 1))
        w.u16("capability", item["capability"])
        raw = _latin(item["name"], "service name")
        if b"\x00" in raw:
            raise RefEncodeError("NUL inside service name")
        size = item.get("name_size")
        if size is None:
            w.put("name", raw + b"\x00")                  # cpppo convention: chars + one NUL
        else:
            if len(raw) >= size:
                raise RefEncodeError("service name does not fit %d bytes NUL terminated" % size)
            w.put("name", raw + b"\x00" * (size - len(raw)))
    elif t == ITEM_LEGACY and "sin_addr" in item:
        w.u16("version", item.get("version", 1))
        w.u16("unknown_1", item.get("unknown_1", 0))
        _put_sockaddr(w, item)
        raw = _latin(item.get("ip_address", _ip_str(_ip_int(item["sin_addr"]))), "ip_address")
        if len(raw) > 16:
            raise RefEncodeError("ip_address text longer than 16 bytes")
        w.put("ip_address", raw + b"\x00" * (16 - len(raw)))
    else:
        data = item.get("data", b"")
        if _blen(data):
            w.raw("data", data)
    return w.done()


def _enc_cpf(items):
    """items: list of {'type': id, ...}; None -> nothing at all (a request that carries no CPF)"""
    w = _W()
    if items is None:
        return w.done()
    items = list(items)
    w.u16("count", len(items), "count")
    for i, item in enumerate(items):
        if not isinstance(item, dict) or "type" not in item:
            raise RefEncodeError("CPF item %r" % (item,))
        body = _enc_item_body(item)
        iw = _W()
        iw.u16("type", item["type"])
        iw.u16("length", len(body[0]), "len")
        if len(body[0]):
            iw.sub("body", body)
        w.sub("item[%d]" % i, iw.done())
    return w.done()


enc_cpf = _api(_enc_cpf)


def _dec_item_body(t, r):
    item = {"type": t}
    if t == ITEM_NULL:
        if r.left:
            raise RefDecodeError("null address item with %d byte(s)" % r.left)
        item["data"] = b""
    elif t == ITEM_CONN_ADDR:
        item["connection"] = r.u32("connection id")
    elif t == ITEM_CONN_DATA:
        item["sequence"] = r.u16("sequence count")
        item["data"] = r.rest()
    elif t == ITEM_IDENTITY:
        item["identity"] = _rd_identity(r)
    elif t == ITEM_SERVICES:
        item["version"] = r.u16("version")
        item["capability"] = r.u16("capability")
        raw = r.rest()
        name, nul, tail = raw.partition(b"\x00")
        if not nul or tail.strip(b"\x00"):
            raise RefDecodeError("service name %r not NUL terminated / NUL filled" % raw)
        item["name"] = name.decode("iso-8859-1")
        if len(raw) != len(name) + 1:
            item["name_size"] = len(raw)
    elif t == ITEM_LEGACY:
        item["version"] = r.u16("version")
        item["unknown_1"] = r.u16("unknown")
        _rd_sockaddr(r, item)
        raw = r.take(16, "ip address text")
        name, _nul, tail = raw.partition(b"\x00")
        if tail.strip(b"\x00"):
            raise RefDecodeError("ip address text %r not NUL filled" % raw)
        item["ip_address"] = name.decode("iso-8859-1")
    else:
        item["data"] = r.rest()
    r.finish("CPF item 0x%04x" % t)
    return item


def _rd_cpf(r):
    if not r.left:
        return None
    n = r.u16("CPF item count")
    items = []
    for i in range(n):
        t = r.u16("CPF item type")
        ln = r.u16("CPF item length")
        items.append(_dec_item_body(t, r.sub(ln, "CPF item %d length" % i)))
    return items


def dec_cpf(b):
    """-> list of item dicts (None when b is empty)"""
    r = _R(b)
    items = _rd_cpf(r)
    r.finish("CPF")
    return items


# ------------------------------------------------------------------------------------------------
# encapsulation

CMD_LEGACY, CMD_LIST_SERVICES, CMD_LIST_IDENTITY, CMD_LIST_INTERFACES = 0x0001, 0x0004, 0x0063, 0x0064
CMD_REGISTER, CMD_UNREGISTER, CMD_SEND_RR_DATA, CMD_SEND_UNIT_DATA = 0x0065, 0x0066, 0x006F, 0x0070
_CPF_COMMANDS = (CMD_LEGACY, CMD_LIST_SERVICES, CMD_LIST_IDENTITY, CMD_LIST_INTERFACES)
NO_CONTEXT = b"\x00" * 8


def _enc_command(command, payload):
    """command specific data.  payload: None | bytes | dict:
       0x65 {'protocol_version','options'};  0x6f/0x70 {'interface','timeout','cpf': items};
       0x01/0x04/0x63/0x64 {'cpf': items|None};  0x66 None"""
    w = _W()
    if payload is None:
        return w.done()
    if isinstance(payload, (bytes, bytearray, tuple)):
        if _blen(payload):
            w.raw("payload", payload)
        return w.done()
    if command == CMD_REGISTER:
        w.u16("protocol_version", payload["protocol_version"])
        w.u16("options", payload["options"])
    elif command in (CMD_SEND_RR_DATA, CMD_SEND_UNIT_DATA):
        w.u32("interface", payload.get("interface", 0))
        w.u16("timeout", payload.get("timeout", 0))
        w.sub("cpf", _enc_cpf(payload["cpf"]))
    elif command in _CPF_COMMANDS:
        if payload.get("cpf") is not None:
            w.sub("cpf", _enc_cpf(payload["cpf"]))
    elif command == CMD_UNREGISTER:
        if payload:
            raise RefEncodeError("UnRegisterSession carries no data")
    else:
        raise RefEncodeError("no structured payload known for command 0x%04x" % command)
    return w.done()


enc_command = _api(_enc_command)


def dec_command(command, b):
    """-> dict per command (see enc_command); None for an empty body; raw bytes for an unknown command"""
    r = _R(b)
    if not r.left and command in (CMD_REGISTER, CMD_UNREGISTER, CMD_SEND_RR_DATA, CMD_SEND_UNIT_DATA) + _CPF_COMMANDS:
        return None
    if command == CMD_REGISTER:
        d = {"protocol_version": r.u16("protocol version"), "options": r.u16("options")}
    elif command in (CMD_SEND_RR_DATA, CMD_SEND_UNIT_DATA):
        d = {"interface": r.u32("interface handle"), "timeout": r.u16("timeout")}
        if not r.left:
            raise RefDecodeError("truncated: send data without a CPF")
        d["cpf"] = _rd_cpf(r)
    elif command in _CPF_COMMANDS:
        d = {"cpf": _rd_cpf(r)}
    elif command == CMD_UNREGISTER:
        d = None
    else:
        return r.rest()
    r.finish("command 0x%04x data" % command)
    return d


def _enc_frame(frame):
    """{'command','session','status','context': 8 bytes,'options','payload': bytes|dict|None}"""
    _need(frame, "command")
    ctx = bytes(frame.get("context", NO_CONTEXT))
    if len(ctx) != 8:
        raise RefEncodeError("sender context must be exactly 8 bytes, not %d" % len(ctx))
    body = _enc_command(frame["command"], frame.get("payload"))
    w = _W()
    w.u16("command", frame["command"])
    w.u16("length", len(body[0]), "len")
    w.u32("session", frame.get("session", 0))
    w.u32("status", frame.get("status", 0))
    w.put("context", ctx)
    w.u32("options", frame.get("options", 0))
    if len(body[0]):
        w.sub("payload", body)
    return w.done()


enc_frame = _api(_enc_frame)


def dec_frame(b, parse=True):
    """one complete frame -> dict; payload parsed by command when parse=True (raw bytes for unknown commands)"""
    r = _R(b)
    f = {"command": r.u16("command")}
    n = r.u16("length")
    f["session"] = r.u32("session handle")
    f["status"] = r.u32("status")
    f["context"] = r.take(8, "sender context")
    f["options"] = r.u32("options")
    body = r.sub(n, "encapsulation length").rest()
    r.finish("frame")
    f["payload"] = dec_command(f["command"], body) if parse else body
    return f


def split_frames(stream):
    """-> ([frame bytes, ...], remainder) cutting a byte stream at the encapsulation length fields"""
    stream = bytes(stream)
    out = []
    pos = 0
    while len(stream) - pos >= 24:
        n = struct.unpack_from("<H", stream, pos + 2)[0]
        if len(stream) - pos < 24 + n:
            break
        out.append(stream[pos:pos + 24 + n])
        pos += 24 + n
    return out, stream[pos:]


# ------------------------------------------------------------------------------------------------
# uniform dispatch

def _k_scalar(name):
    def enc(v):
        w = _W()
        w.put("value", enc_scalar(name, v))
        return w.done()
    return enc, (lambda b: dec_scalar(name, b))


def _fm1(n):
    m = FieldMap(value=Span(0, n))
    m.span = (0, n)
    return m


KINDS = {}
for _name in list(TYPE_CODE) + list(_EXTRA):
    if _name in ("SSTRING", "STRING", "STRUCT"):
        continue
    KINDS[_name] = _k_scalar(_name)
KINDS.update({
    "IPADDR": ((lambda v: (enc_ipaddr(v), _fm1(4))), dec_ipaddr),
    "IPADDR_network": ((lambda v: (enc_ipaddr(v, True), _fm1(4))), (lambda b: dec_ipaddr(b, True))),
    "ifaceaddrs": (_enc_ifaceaddrs, dec_ifaceaddrs),
    "sstring": (_enc_sstring, dec_sstring),
    "string": (_enc_string, dec_string),
    "typed_data": (lambda v: _enc_typed_data(v["type"], v["data"], v.get("structure_handle")),
                   lambda b, type=None: dec_typed_data(type, b)),
    "epath": (lambda v: _enc_epath(v, "sized"), lambda b: dec_epath(b, "sized")),
    "epath_padded": (lambda v: _enc_epath(v, "padded"), lambda b: dec_epath(b, "padded")),
    "epath_single": (lambda v: _enc_epath(v, "single"), lambda b: dec_epath(b, "single")),
    "epath_unsized": (lambda v: _enc_epath(v, "unsized"), lambda b: dec_epath(b, "unsized")),
    "status": (lambda v: _enc_status(v["status"], v.get("ext", ())), dec_status),
    "request": (_enc_request, dec_request),
    "reply": (_enc_reply, dec_reply),
    "unconnected_send": (lambda v: _enc_unconnected_send(v["message"], v["route_path"], v["priority"],
                                                         v["timeout_ticks"], v.get("path")), dec_unconnected_send),
    "unconnected_send_error": (lambda v: _enc_unconnected_send_error(v["status"], v.get("ext", ()),
                                                                     v.get("remaining_path_size")),
                               dec_unconnected_send_error),
    "identity": (_enc_identity, dec_identity),
    "cpf": (_enc_cpf, dec_cpf),
    "frame": (_enc_frame, dec_frame),
})


def encode(kind, v, fmap=False):
    pair = KINDS[kind][0](v)
    return pair if fmap else pair[0]


def decode(kind, b, **kw):
    return KINDS[kind][1](b, **kw)


# ------------------------------------------------------------------------------------------------
# builders for the stateful checks

def _frame(command, session, payload, context, fmap, status=0, options=0):
    pair = _enc_frame({"command": command, "session": session, "status": status, "context": context,
                       "options": options, "payload": payload})
    return pair if fmap else pair[0]


def register(protocol_version=1, options=0, context=NO_CONTEXT, session=0, fmap=False):
    return _frame(CMD_REGISTER, session, {"protocol_version": protocol_version, "options": options}, context, fmap)


def unregister(session, context=NO_CONTEXT, fmap=False):
    return _frame(CMD_UNREGISTER, session, None, context, fmap)


def list_services(context=NO_CONTEXT, session=0, fmap=False):
    return _frame(CMD_LIST_SERVICES, session, None, context, fmap)


def list_identity(context=NO_CONTEXT, session=0, fmap=False):
    return _frame(CMD_LIST_IDENTITY, session, None, context, fmap)


def list_interfaces(context=NO_CONTEXT, session=0, fmap=False):
    return _frame(CMD_LIST_INTERFACES, session, None, context, fmap)


def _pairify(x):
    """bytes -> bytes; request dict -> (bytes, FieldMap)"""
    if isinstance(x, dict):
        return _enc_request(x)
    return x


def send_rr_data(session, cip, context=NO_CONTEXT, route_path=None, send_path=None, unconnected_send=False,
                 timeout=5, priority=5, timeout_ticks=157, interface=0, fmap=False):
    """SendRRData with a null address item and an unconnected data item holding `cip` (bytes, (bytes, map) or a
    request dict).  With unconnected_send=True (or any route_path / send_path given) `cip` is wrapped in an
    Unconnected Send to send_path (default Connection Manager) with route_path (default: empty)."""
    cip = _pairify(cip)
    if unconnected_send or route_path is not None or send_path is not None:
        cip = _enc_unconnected_send(cip, route_path or [], priority, timeout_ticks, send_path)
    payload = {"interface": interface, "timeout": timeout,
               "cpf": [{"type": ITEM_NULL}, {"type": ITEM_UNCONN_DATA, "data": cip}]}
    return _frame(CMD_SEND_RR_DATA, session, payload, context, fmap)


def send_unit_data(session, conn_id, seq, cip, context=NO_CONTEXT, timeout=0, interface=0, fmap=False):
    """SendUnitData: connected address item (connection id) + connected data item (sequence count + cip)."""
    cip = _pairify(cip)
    payload = {"interface": interface, "timeout": timeout,
               "cpf": [{"type": ITEM_CONN_ADDR, "connection": conn_id},
                       {"type": ITEM_CONN_DATA, "sequence": seq, "data": cip}]}
    return _frame(CMD_SEND_UNIT_DATA, session, payload, context, fmap)


def _req(d, fmap):
    pair = _enc_request(d)
    return pair if fmap else pair[0]


def read_tag(path, elements=1, fmap=False):
    return _req({"service": SVC_READ_TAG, "path": path, "elements": elements}, fmap)


def read_frag(path, elements=1, offset=0, fmap=False):
    return _req({"service": SVC_READ_FRAG, "path": path, "elements": elements, "offset": offset}, fmap)


def write_tag(path, type_code, values, elements=None, structure_handle=None, fmap=False):
    d = {"service": SVC_WRITE_TAG, "path": path, "type": type_code, "data": values, "elements": elements}
    if structure_handle is not None:
        d["structure_handle"] = structure_handle
    return _req(d, fmap)


def write_frag(path, type_code, values, elements=None, offset=0, structure_handle=None, fmap=False):
    d = {"service": SVC_WRITE_FRAG, "path": path, "type": type_code, "data": values, "elements": elements,
         "offset": offset}
    if structure_handle is not None:
        d["structure_handle"] = structure_handle
    return _req(d, fmap)


def get_attribute_single(path, fmap=False):
    return _req({"service": SVC_GA_SINGLE, "path": path}, fmap)


def get_attributes_all(path, fmap=False):
    return _req({"service": SVC_GA_ALL, "path": path}, fmap)


def get_attribute_list(path, attributes, fmap=False):
    return _req({"service": SVC_GA_LIST, "path": path, "attributes": attributes}, fmap)


def set_attribute_single(path, raw_bytes, fmap=False):
    return _req({"service": SVC_SA_SINGLE, "path": path, "data": bytes(raw_bytes)}, fmap)


def generic_service(service, path, raw=b"", fmap=False):
    return _req({"service": service, "path": path, "data": bytes(raw)}, fmap)


def multiple(requests, path=None, fmap=False):
    """Multiple Service Packet to the Message Router; members are bytes, (bytes, map) pairs or request dicts"""
    return _req({"service": SVC_MULTIPLE, "path": MESSAGE_ROUTER if path is None else path,
                 "requests": list(requests)}, fmap)


def forward_open(O_T_connection_ID=0, T_O_connection_ID=0x12345678, connection_serial=1, O_vendor=0x1234,
                 O_serial=0x87654321, O_T_RPI=2000000, O_T_NCP=0x43F4, T_O_RPI=2000000, T_O_NCP=0x43F4,
                 transport_class_triggers=0xA3, connection_path=None, priority_time_tick=5, timeout_ticks=157,
                 connection_timeout_multiplier=0, large=False, path=None, fmap=False):
    return _req({"service": SVC_FWD_OPEN_LARGE if large else SVC_FWD_OPEN,
                 "path": CONNECTION_MANAGER if path is None else path,
                 "priority_time_tick": priority_time_tick, "timeout_ticks": timeout_ticks,
                 "O_T_connection_ID": O_T_connection_ID, "T_O_connection_ID": T_O_connection_ID,
                 "connection_serial": connection_serial, "O_vendor": O_vendor, "O_serial": O_serial,
                 "connection_timeout_multiplier": connection_timeout_multiplier,
                 "O_T_RPI": O_T_RPI, "O_T_NCP": O_T_NCP, "T_O_RPI": T_O_RPI, "T_O_NCP": T_O_NCP,
                 "transport_class_triggers": transport_class_triggers,
                 "connection_path": ([{"port": 1, "link": 0}] + MESSAGE_ROUTER) if connection_path is None
                 else connection_path}, fmap)


def forward_close(connection_serial=1, O_vendor=0x1234, O_serial=0x87654321, connection_path=None,
                  priority_time_tick=5, timeout_ticks=157, path=None, fmap=False):
    return _req({"service": SVC_FWD_CLOSE, "path": CONNECTION_MANAGER if path is None else path,
                 "priority_time_tick": priority_time_tick, "timeout_ticks": timeout_ticks,
                 "connection_serial": connection_serial, "O_vendor": O_vendor, "O_serial": O_serial,
                 "connection_path": ([{"port": 1, "link": 0}] + MESSAGE_ROUTER) if connection_path is None
                 else connection_path}, fmap)


# ------------------------------------------------------------------------------------------------
# whole-frame decoding

def _flatten_reply(rpy):
    """add 'members' (alias of 'replies') and 'values' (alias of 'data' for typed replies)"""
    if "replies" in rpy:
        rpy["members"] = [_flatten_reply(m) for m in rpy["replies"]]
    if "type" in rpy:
        rpy["values"] = rpy["data"]
    return rpy


def _cip_of(frame):
    """-> (cip bytes or None, info) from the CPF of a SendRRData / SendUnitData frame"""
    info = {}
    payload = frame["payload"]
    items = payload.get("cpf") if isinstance(payload, dict) else None
    if not items:
        return None, info
    cip = None
    for it in items:
        if it["type"] == ITEM_CONN_ADDR:
            info["connection"] = it["connection"]
        elif it["type"] == ITEM_CONN_DATA:
            info["sequence"] = it["sequence"]
            cip = it["data"]
        elif it["type"] == ITEM_UNCONN_DATA:
            cip = it["data"]
    return cip, info


def decode_reply_frame(b, dialect="logix", unconnected_send=False):
    """one reply frame -> {'command','session','status'(encapsulation),'context','options','payload',
    'connection'/'sequence' (connected), 'cip': {'service','status','ext','type','data'/'values','members',...}}.
    'cip' is None when the frame carries no CIP message (register reply, error frame with no data ...).
    unconnected_send=True decodes a 0xD2 message as the Unconnected Send error reply instead of a Read Tag
    Fragmented reply (the two are indistinguishable on the wire)."""
    f = dec_frame(b)
    f["cip"] = None
    if f["command"] in (CMD_SEND_RR_DATA, CMD_SEND_UNIT_DATA):
        cip, info = _cip_of(f)
        f.update(info)
        if cip:
            if unconnected_send and cip[0] == (SVC_UNCONNECTED_SEND | 0x80):
                f["cip"] = dec_unconnected_send_error(cip)
            else:
                f["cip"] = _flatten_reply(dec_reply(cip, dialect))
    return f


def decode_request_frame(b, dialect="logix"):
    """one request frame -> like decode_reply_frame; an Unconnected Send wrapper is opened:
    'unconnected_send': {...wrapper fields...} and 'cip' is the embedded request."""
    f = dec_frame(b)
    f["cip"] = None
    if f["command"] in (CMD_SEND_RR_DATA, CMD_SEND_UNIT_DATA):
        cip, info = _cip_of(f)
        f.update(info)
        if cip:
            req = dec_request(cip, dialect)
            if req["service"] == SVC_UNCONNECTED_SEND and "message" in req:
                f["unconnected_send"] = {k: v for k, v in req.items() if k != "message"}
                req = dec_request(req["message"], dialect)
            f["cip"] = req
    return f


# ------------------------------------------------------------------------------------------------
if __name__ == "__main__":
    import sys
    from mc import refcip_selftest
    sys.exit(refcip_selftest.main())
